/- Unverified helper (authoring time only): infers function summaries and ranks for the
progress checker and prints them as Lean source. The *verified* checker then validates them. -/
import TgModel.Progress
import TgModel.Grammar
open Tg Tg.Progress

def joinFact : Fact → Fact → Fact
  | .any, _ => .any
  | _, .any => .any
  | .inS a, .inS b => .inS (a ++ b.filter (fun k => !a.contains k))
  | .notInS a, .notInS b => .notInS (a.filter (fun k => b.contains k))
  | .inS a, .notInS b => .notInS (b.filter (fun k => !a.contains k))
  | .notInS b, .inS a => .notInS (b.filter (fun k => !a.contains k))

def normFact : Fact → Fact
  | .notInS [] => .any
  | f => f

/-- merge exits with equal (fl, must) -/
def mergeExits (l : List AS) : List AS :=
  l.foldl (fun acc o =>
    let o := { o with fact := normFact o.fact, c := o.must }
    match acc.find? (fun e => e.fl == o.fl && e.must == o.must) with
    | some e => acc.map (fun x => if x.fl == o.fl && x.must == o.must then { x with fact := normFact (joinFact e.fact o.fact) } else x)
    | none => acc ++ [o]) []

abbrev Tab := List (Fn × Fact × List AS)

def tabSumms (t : Tab) : Summs := fun f =>
  (t.filter (fun e => e.1 == f)).map (fun e => { pre := e.2.1, exits := e.2.2 })

/-- all (callee, fact) demands inside a program, found by running analyze and catching failures
is awkward; instead over-approximate: demand every callee at fact `any`, plus the facts we list. -/
def callees : Prog → List Fn
  | .seq a b => callees a ++ callees b
  | .ifAt _ t e => callees t ++ callees e
  | .ifFlag t e => callees t ++ callees e
  | .ifLocal t e => callees t ++ callees e
  | .loop c b => callees c ++ callees b
  | .call f => [f]
  | _ => []

def step (t : Tab) : Tab :=
  t.map (fun (f, pre, ex) =>
    match analyze (tabSumms t) (fun _ _ => true) Tables.recoverTokens f (Grammar.defs f) { fact := pre, fl := none, must := false, c := false } with
    | some outs => (f, pre, mergeExits (ex ++ outs))
    | none => (f, pre, ex))

partial def fix (t : Tab) (n : Nat) : Tab :=
  if n == 0 then t else
  let t' := step t
  if (repr (t'.map (·.2.2))).pretty == (repr (t.map (·.2.2))).pretty then t else fix t' (n - 1)

def kinds (l : List TokenKind) : String := "[" ++ ", ".intercalate (l.map (fun k => "." ++ k.name)) ++ "]"
def factSrc : Fact → String
  | .any => ".any"
  | .inS l => "(.inS " ++ kinds l ++ ")"
  | .notInS l => "(.notInS " ++ kinds l ++ ")"
def flSrc : Option Bool → String
  | none => "none" | some true => "(some true)" | some false => "(some false)"
def asSrc (a : AS) : String := s!"⟨{factSrc a.fact}, {flSrc a.fl}, {a.must}, {a.c}⟩"

def fnName (f : Fn) : String := (repr f).pretty.replace "Tg.Fn." ""

def main : IO Unit := do
  -- specialised entry facts (cur known from the dispatching `match p.peek()`)
  let special : List (Fn × Fact) := [
    (.statement, .notInS [.Eof]), (.statement, .notInS [.Eof, .RBrace]),
    (.multi_class_statement, .notInS [.Eof, .RBrace]),
    (.type_, .inS Tables.typeFirst), (.field_def, .inS (Tables.typeFirst ++ [.Field])),
    (.value, .inS Tables.valueStart), (.inner_value, .inS Tables.valueStart), (.simple_value, .inS Tables.valueStart),
    (.name_value, .inS Tables.valueStart), (.inner_name_value, .inS Tables.valueStart),
    (.range_piece, .inS [.IntVal]), (.integer, .inS [.IntVal]), (.integer, .inS [.IntVal, .BinaryIntVal]),
    (.string_, .inS [.StrVal]), (.code, .inS [.CodeFragment]), (.boolean, .inS [.TrueVal, .FalseVal]),
    (.uninitialized, .inS [.Question]), (.bits, .inS [.LBrace]), (.list_, .inS [.LSquare]), (.dag, .inS [.LParen]),
    (.identifier_or_class_value, .inS [.Id]), (.identifier, .inS [.Id]), (.bang_operator, .inS Tables.bangOps), (.cond_operator, .inS [.XCond]),
    (.body_item, .notInS [.RBrace, .Eof]),
    (.range_suffix, .inS [.LBrace]), (.slice_suffix, .inS [.LSquare]), (.field_suffix, .inS [.Dot]),
    (.template_arg_list, .inS [.Less]), (.arg_value, .inS Tables.valueStart), (.arg_value, .notInS [.Eof]),
    (.dagarg, .inS [.Id, .XCast, .Question, .XGetDagOp]), (.dagarg, .notInS [.Eof]), (.dagarg_list, .notInS [.RParen]),
    (.include, .inS [.Include]), (.assert_, .inS [.Assert]), (.class_, .inS [.Class]), (.def_, .inS [.Def]),
    (.defm, .inS [.Defm]), (.defset, .inS [.Defset]), (.defvar, .inS [.Defvar]), (.dump, .inS [.Dump]),
    (.foreach, .inS [.Foreach]), (.if_, .inS [.If]), (.let_, .inS [.Let]), (.multi_class, .inS [.MultiClass]),
    (.field_let, .inS [.Let]),
    (.bit_type, .inS [.Bit]), (.int_type, .inS [.Int]), (.string_type, .inS [.String]), (.dag_type, .inS [.Dag]),
    (.bits_type, .inS [.Bits]), (.list_type, .inS [.List]), (.code_type, .inS [.Code]), (.class_id, .inS [.Id]),
    (.let_item, .notInS [.Eof]), (.class_ref, .notInS [.Eof]), (.range_piece, .notInS [.Eof]),
    (.slice_element, .notInS [.Eof]), (.cond_clause, .notInS [.RParen, .Eof]), (.template_arg_decl, .notInS [.Greater, .Eof]),
    (.value, .notInS [.RBrace, .Eof]), (.value, .notInS [.RSquare, .Eof]), (.value, .notInS [.RParen, .Eof]),
    (.value_suffix, .notInS [.LBrace])]
  let t0 : Tab := special.map (fun (f, p) => (f, p, [])) ++ Fn.all.map (fun f => (f, Fact.any, []))
  let mut t := fix t0 60
  -- drop rows whose analysis fails (entry facts under which the function would panic: nobody may demand them)
  for _ in [0:5] do
    let cur := t
    t := cur.filter (fun (f, pre, _) =>
      (analyze (tabSumms cur) (fun _ _ => true) Tables.recoverTokens f (Grammar.defs f) { fact := pre, fl := none, must := false, c := false }).isSome)
    t := fix (t.map (fun (f, p, _) => (f, p, []))) 60
  -- greedy minimisation: drop rows nobody needs (keeps the rank graph small and acyclic)
  let allOk := fun (tt : Tab) => Fn.all.all (fun f => checkFn Grammar.defs (tabSumms tt) (fun _ _ => true) Tables.recoverTokens f)
  for (f, pre, _) in (t.filter (fun e => e.2.1 == Fact.any)) ++ (t.filter (fun e => e.2.1 != Fact.any)) do
    if f == Fn.source_file then continue
    let t' := t.filter (fun e => !(e.1 == f && e.2.1 == pre))
    let t'' := fix (t'.map (fun (f, p, _) => (f, p, []))) 60
    if allOk t'' && (t''.all (fun (f, pre, _) => (analyze (tabSumms t'') (fun _ _ => true) Tables.recoverTokens f (Grammar.defs f) { fact := pre, fl := none, must := false, c := false }).isSome)) then t := t''
  -- rank edges: (self -> g) such that forbidding it makes self fail
  let summs := tabSumms t
  let mut edges : List (Fn × Fn) := []
  for f in Fn.all do
    for g in (callees (Grammar.defs f)).eraseDups do
      let lt : Fn → Fn → Bool := fun g' f' => !(g' == g && f' == f)
      if !(checkFn Grammar.defs summs lt Tables.recoverTokens f) then
        edges := (f, g) :: edges
  -- sanity: with all edges allowed everything must check
  let bad := Fn.all.filter (fun f => !(checkFn Grammar.defs summs (fun _ _ => true) Tables.recoverTokens f))
  IO.eprintln s!"functions failing even without rank constraint: {bad.map fnName}"
  -- ranks: longest path (rank f > rank g for edge f->g); iterate
  let mut rk : List (Fn × Nat) := Fn.all.map (fun f => (f, 0))
  for _ in [0:100] do
    for (f, g) in edges do
      let rg := (rk.lookup g).getD 0
      let rf := (rk.lookup f).getD 0
      if rf ≤ rg then rk := rk.map (fun (x, r) => if x == f then (x, rg + 1) else (x, r))
  let maxr := rk.foldl (fun m (_, r) => max m r) 0
  IO.eprintln s!"edges: {edges.length}, max rank: {maxr}"
  IO.eprintln s!"{edges.map (fun (f, g) => fnName f ++ ">" ++ fnName g)}"
  IO.println "-- GENERATED by InferSumm.lean (unverified inference); validated by `Progress.check` via `decide`."
  IO.println "import TgModel.Progress\nnamespace Tg\nnamespace Progress\nopen Fact\n"
  IO.println "def grammarSumms : Summs"
  for f in Fn.all do
    let rows := (t.filter (fun e => e.1 == f)).map (fun e => s!"⟨{factSrc e.2.1}, [{", ".intercalate (e.2.2.map asSrc)}]⟩")
    IO.println s!"  | .{fnName f} => [{",\n      ".intercalate rows}]"
  IO.println "\ndef grammarRanks : Ranks"
  for (f, r) in rk do
    IO.println s!"  | .{fnName f} => {r}"
  IO.println "\nend Progress\nend Tg"
