-- Root of the `TgModel` library: models, lemmas and one property file per claimed property.
import TgModel.Props.C01
import TgModel.Props.C02
import TgModel.Props.C04
import TgModel.Props.C06
import TgModel.Props.C07
import TgModel.Props.C08
import TgModel.Props.C09
import TgModel.Props.C10
import TgModel.Props.C11
import TgModel.Props.C12
import TgModel.Props.C14
import TgModel.Props.C15
import TgModel.Props.C16
import TgModel.Props.C20
