-- This module serves as the root of the `Tgmodel` library.
-- Import modules here that should be built as part of the library.
import Tgmodel.Basic
