#!/usr/bin/env python3
"""Generates lean/TgModel/Unicode.lean from `tgverif chars` (Rust std's char::is_alphabetic).
Run once at authoring time; every check re-validates the committed table against the harness."""
import sys
src = sys.argv[1] if len(sys.argv) > 1 else "/verif/.build/chars.txt"
out = sys.argv[2] if len(sys.argv) > 2 else "/verif/lean/TgModel/Unicode.lean"
tab = {}
for line in open(src):
    name, rs = line.split()
    tab[name] = [tuple(map(int, r.split("-"))) for r in rs.split(",")]
alpha = [r for r in tab["alphabetic"] if r[1] >= 128]
L = ["-- GENERATED once by translator/gen_unicode.py from Rust std (char::is_alphabetic); validated on every run.",
     "import TgModel.Text", "namespace Tg", "",
     "/-- non-ASCII ranges of Rust's `char::is_alphabetic` -/",
     "def alphabeticRanges : Array (Nat × Nat) := #["]
L.append(",\n".join("  (%d, %d)" % r for r in alpha))
L.append("]")
L.append("""
/-- binary search over the sorted, disjoint range table -/
def inRanges (tab : Array (Nat × Nat)) (n : Nat) : Bool :=
  go tab.size 0 tab.size
where go : Nat → Nat → Nat → Bool
  | 0, _, _ => false
  | fuel+1, lo, hi =>
    if lo < hi then
      let mid := (lo + hi) / 2
      let (a, b) := tab[mid]!
      if n < a then go fuel lo mid
      else if b < n then go fuel (mid + 1) hi
      else true
    else false

/-- Rust `char::is_alphabetic` -/
def isAlphabetic (c : Char) : Bool :=
  if c.toNat < 128 then isAsciiAlpha c else inRanges alphabeticRanges c.toNat

end Tg
""")
open(out, "w").write("\n".join(L))
print("wrote", out, len(alpha), "ranges")
