#!/usr/bin/env python3
"""Translator (T) for C04: the documented grammar -> Lean + JSON.

Sources: /repo/syntax.md (one EBNF rule per line) and the `// Rule ::= ...` comments above the
parsing functions in crates/syntax/src/grammar{.rs,/*.rs}.  "syntax.md as extended by the rule
comments" is read as: a nonterminal derives what either source says (the union of the two
right-hand sides when they differ).

The text is taken literally except for the ERRATA below: notational slips that make a rule
unparseable as EBNF or contradict the vendored LLVM files the same property requires to parse.
Each erratum names the exact source text it replaces; if that text is no longer there the
extraction fails (the tie is reported broken) instead of silently reading something else.
Everything else that differs between the documented grammar and the parser is *not* smoothed
over here: it is a listed deviation in vlib/docgrammar.py and is reported as a finding.
"""
import json
import os
import re
import sys

REPO = os.environ.get("VERIF_REPO", "/repo")
GRAMMAR_FILES = ["crates/syntax/src/grammar.rs", "crates/syntax/src/grammar/statement.rs",
                 "crates/syntax/src/grammar/value.rs", "crates/syntax/src/grammar/type.rs",
                 "crates/syntax/src/grammar/delimited.rs"]


class ExtractError(Exception):
    pass


# (where, nonterminal, exact old text of the right-hand side or part of it, new text, why)
ERRATA = [
    ("both", "Dag", "( DagArg DagArgList? )", '"(" DagArg DagArgList? ")"',
     "the parentheses of a dag literal are terminals (written without quotes)"),
    ("both", "DagArg", 'Value ( ":" VARNAME ) | VARNAME', 'Value ( ":" VARNAME )? | VARNAME',
     "the name of a dag argument is optional (LLVM: Value [':' TokVarName]); every vendored LLVM file uses unnamed arguments"),
    ("md", "ClassValue", 'ClassID "<" ArgValueList ">"', 'Identifier "<" ArgValueList ">"',
     "ClassID is not defined anywhere; the rule comment says Identifier"),
    ("rs", "Let", '( "{" Statement* "}" | Statement );', '( "{" Statement* "}" | Statement )',
     "stray ';' at the end of the comment"),
    ("rs", "FieldLet", "Identitfer", "Identifier", "typo"),
    ("both", "Def", '"def" Value? RecordBody', '"def" Value_NameMode? RecordBody',
     "def() parses the name with the NameMode functions that carry the Value(NameMode) rule comments"),
    ("both", "Defm", '"defm" Value? ParentClassList ";"', '"defm" Value_NameMode? ParentClassList ";"',
     "defm() parses the name with the NameMode functions that carry the Value(NameMode) rule comments"),
    ("rs", "Value_NameMode", 'InnerValue ( "#" InnerValue )*', 'InnerValue_NameMode ( "#" InnerValue_NameMode )*',
     "name_value() calls inner_name_value(), whose comment is InnerValue(NameMode)"),
]

LEXICAL = {"INT": "INT", "STRING": "StrVal", "CODE": "CodeFragment", "ID": "Id", "VARNAME": "VarName",
           "BANGOP": "BANGOP", "CONDOP": "XCond"}


def read(rel):
    with open(os.path.join(REPO, rel), encoding="utf-8") as f:
        return f.read()


def raw_rules():
    """[(source 'md'|'rs', nonterminal, rhs text)] in source order"""
    out = []
    for line in read("syntax.md").split("\n"):
        m = re.match(r"^([A-Za-z]+)\s*::=\s*(.*\S)\s*$", line)
        if m:
            out.append(("md", m.group(1), m.group(2)))
    for rel in GRAMMAR_FILES:
        try:
            src = read(rel)
        except FileNotFoundError:
            continue
        for line in src.split("\n"):
            m = re.match(r"^\s*//\s*([A-Za-z]+)(\(NameMode\))?\s*::?=\s*(.*\S)\s*$", line)
            if m:
                out.append(("rs", m.group(1) + ("_NameMode" if m.group(2) else ""), m.group(3)))
    if len([r for r in out if r[0] == "md"]) < 40 or len([r for r in out if r[0] == "rs"]) < 40:
        raise ExtractError("too few grammar rules found (syntax.md: %d, rule comments: %d)" % (
            len([r for r in out if r[0] == "md"]), len([r for r in out if r[0] == "rs"])))
    return out


def apply_errata(rules):
    used = [0] * len(ERRATA)
    out = []
    for src, nt, rhs in rules:
        for i, (where, ent, old, new, _why) in enumerate(ERRATA):
            if ent == nt and where in ("both", src) and old in rhs:
                rhs = rhs.replace(old, new)
                used[i] += 1
        out.append((src, nt, rhs))
    for i, n in enumerate(used):
        where = ERRATA[i][0]
        need = 2 if where == "both" else 1
        if n < need:
            raise ExtractError("erratum %d for %s no longer matches the documented text (%r)" % (i, ERRATA[i][1], ERRATA[i][2]))
    return out


TOKEN_RE = re.compile(r'\s*("(?:[^"\\]|\\.)*"|[A-Za-z_]+|[()|?*+])')


def parse_rhs(rhs, quoted):
    toks = []
    pos = 0
    while pos < len(rhs):
        m = TOKEN_RE.match(rhs, pos)
        if not m:
            if rhs[pos:].strip() == "":
                break
            raise ExtractError("cannot tokenise rule text %r at %r" % (rhs, rhs[pos:]))
        toks.append(m.group(1))
        pos = m.end()
    i = [0]

    def peek():
        return toks[i[0]] if i[0] < len(toks) else None

    def alt():
        xs = [seq()]
        while peek() == "|":
            i[0] += 1
            xs.append(seq())
        return xs[0] if len(xs) == 1 else ["alt"] + xs

    def seq():
        xs = []
        while peek() is not None and peek() not in ("|", ")"):
            xs.append(postfix())
        if not xs:
            return ["seq"]
        return xs[0] if len(xs) == 1 else ["seq"] + xs

    def postfix():
        x = atom()
        while peek() in ("?", "*", "+"):
            x = [{"?": "opt", "*": "star", "+": "plus"}[peek()], x]
            i[0] += 1
        return x

    def atom():
        t = peek()
        i[0] += 1
        if t == "(":
            x = alt()
            if peek() != ")":
                raise ExtractError("unbalanced parenthesis in rule text %r" % rhs)
            i[0] += 1
            return x
        if t.startswith('"'):
            text = t[1:-1]
            if text not in quoted:
                raise ExtractError("terminal %r of the documented grammar is not a token of the lexer" % text)
            return ["tok", quoted[text]]
        if t in LEXICAL:
            return ["tok", LEXICAL[t]]
        if re.match(r"^[A-Z][A-Za-z_]*$", t):
            return ["nt", t]
        raise ExtractError("unexpected %r in rule text %r" % (t, rhs))
    e = alt()
    if i[0] != len(toks):
        raise ExtractError("trailing text in rule %r" % rhs)
    return e


def quoted_terminals(tables):
    q = {}
    for text, kind in tables["keywords"]:
        q[text] = kind
    for text, kind in tables["t_macro"].items():
        q.setdefault(text, kind)
    return q


def extract(tables):
    quoted = quoted_terminals(tables)
    rules = apply_errata(raw_rules())
    g = {}
    order = []
    src_of = {}
    for src, nt, rhs in rules:
        e = parse_rhs(rhs, quoted)
        if nt not in g:
            g[nt] = [e]
            order.append(nt)
            src_of[nt] = [src]
        elif e not in g[nt]:
            g[nt].append(e)
            src_of[nt].append(src)
    grammar = {nt: (g[nt][0] if len(g[nt]) == 1 else ["alt"] + g[nt]) for nt in order}
    # every referenced nonterminal must be defined
    def refs(e):
        if e[0] == "nt":
            yield e[1]
        elif e[0] != "tok":
            for x in e[1:]:
                yield from refs(x)
    for nt, e in grammar.items():
        for r in refs(e):
            if r not in grammar:
                raise ExtractError("rule %s refers to undefined nonterminal %s" % (nt, r))
    bang = [k for k in tables["bang_ops"] if k != "XCond"]
    return {"order": order, "rules": grammar, "extended_by_comment": sorted(nt for nt in order if len(g[nt]) > 1),
            "classes": {"INT": ["IntVal", "BinaryIntVal"], "BANGOP": bang},
            "errata": [{"rule": e[1], "old": e[2], "new": e[3], "why": e[4]} for e in ERRATA]}


def lean_kinds(tok, classes):
    ks = classes.get(tok, [tok])
    return "[" + ", ".join("." + ("String" if k == "String" else ("List" if k == "List" else k)) for k in ks) + "]"


def emit_lean(d):
    classes = d["classes"]
    L = []
    L.append("-- GENERATED by translator/extract_grammar.py from /repo/syntax.md and the rule comments of")
    L.append("-- crates/syntax/src/grammar/*.rs.  Do not edit.")
    L.append("import TgModel.Generated.Tables")
    L.append("")
    L.append("namespace Tg.Doc")
    L.append("")
    L.append("/-- the nonterminals of the documented grammar -/")
    L.append("inductive NT where")
    for nt in d["order"]:
        L.append("  | %s_" % nt)
    L.append("deriving DecidableEq, Repr, Inhabited")
    L.append("")
    L.append("/-- EBNF expressions; a terminal is the list of token kinds it stands for -/")
    L.append("inductive E where")
    L.append("  | tok (ks : _root_.List TokenKind)")
    L.append("  | nt (n : NT)")
    L.append("  | eps")
    L.append("  | seq (a b : E)")
    L.append("  | alt (a b : E)")
    L.append("  | opt (a : E)")
    L.append("  | star (a : E)")
    L.append("  | plus (a : E)")
    L.append("deriving Repr, Inhabited")
    L.append("")

    def ex(e):
        t = e[0]
        if t == "tok":
            ks = classes.get(e[1], [e[1]])
            return "(.tok [" + ", ".join("TokenKind." + k for k in ks) + "])"
        if t == "nt":
            return "(.nt .%s_)" % e[1]
        if t in ("seq", "alt"):
            xs = e[1:]
            if not xs:
                return ".eps"
            r = ex(xs[-1])
            for x in reversed(xs[:-1]):
                r = "(.%s %s %s)" % (t, ex(x), r)
            return r
        return "(.%s %s)" % (t, ex(e[1]))
    L.append("/-- right-hand sides (syntax.md, united with the rule comment where that differs) -/")
    L.append("def rule : NT → E")
    for nt in d["order"]:
        L.append("  | .%s_ => %s" % (nt, ex(d["rules"][nt])))
    L.append("")
    L.append("def NT.all : _root_.List NT := [" + ", ".join("." + nt + "_" for nt in d["order"]) + "]")
    L.append("")
    L.append("end Tg.Doc")
    return "\n".join(L) + "\n"


def main():
    tables_json = sys.argv[1] if len(sys.argv) > 1 else "/verif/.build/tables.json"
    out_lean = sys.argv[2] if len(sys.argv) > 2 else "/verif/lean/TgModel/Generated/DocGrammar.lean"
    out_json = sys.argv[3] if len(sys.argv) > 3 else "/verif/.build/docgrammar.json"
    with open(tables_json) as f:
        tables = json.load(f)
    d = extract(tables)
    text = emit_lean(d)
    old = None
    if os.path.exists(out_lean):
        with open(out_lean, encoding="utf-8") as f:
            old = f.read()
    if old != text:
        with open(out_lean, "w", encoding="utf-8") as f:
            f.write(text)
    with open(out_json, "w", encoding="utf-8") as f:
        json.dump(d, f, indent=1, sort_keys=True)
    print("documented grammar: %d nonterminals (%d extended by a rule comment), %d errata%s" % (
        len(d["order"]), len(d["extended_by_comment"]), len(d["errata"]), "" if old != text else " (unchanged)"))


if __name__ == "__main__":
    try:
        main()
    except ExtractError as e:
        print("EXTRACT-ERROR: %s" % e)
        sys.exit(3)
