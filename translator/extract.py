#!/usr/bin/env python3
"""Translator (T): /repo sources -> lean/TgModel/Generated/Tables.lean (+ tables.json).

Only hand-maintained *tables* are translated (enum variants, `"x" => T![y]` arms, const
arrays, matches!(..) lists, message literals).  Extraction is by anchored patterns from
well-delimited regions; an extraction that fails raises ExtractError, which the orchestrator
reports as a broken obligation of the tie (never silently defaulted).
"""
import json
import os
import re
import sys

REPO = os.environ.get("VERIF_REPO", "/repo")


class ExtractError(Exception):
    pass


def read(rel):
    with open(os.path.join(REPO, rel), encoding="utf-8") as f:
        return f.read()


def strip_comments(src):
    # remove // line comments (outside of string literals: good enough for the table regions)
    out = []
    for line in src.split("\n"):
        res = []
        in_str = False
        i = 0
        while i < len(line):
            c = line[i]
            if in_str:
                res.append(c)
                if c == "\\" and i + 1 < len(line):
                    res.append(line[i + 1])
                    i += 2
                    continue
                if c == '"':
                    in_str = False
            else:
                if c == '"':
                    in_str = True
                    res.append(c)
                elif c == "'" and i + 2 < len(line) and line[i + 2] == "'":
                    res.append(line[i:i + 3])
                    i += 3
                    continue
                elif c == "/" and i + 1 < len(line) and line[i + 1] == "/":
                    break
                else:
                    res.append(c)
            i += 1
        out.append("".join(res))
    return "\n".join(out)


def balanced(src, start, open_ch, close_ch):
    """src[start] == open_ch; return index just past the matching close_ch."""
    assert src[start] == open_ch, (src[start:start + 20], open_ch)
    depth = 0
    i = start
    in_str = False
    while i < len(src):
        c = src[i]
        if in_str:
            if c == "\\":
                i += 2
                continue
            if c == '"':
                in_str = False
        elif c == '"':
            in_str = True
        elif c == "'" and i + 2 < len(src) and src[i + 2] == "'":
            i += 3
            continue
        elif c == open_ch:
            depth += 1
        elif c == close_ch:
            depth -= 1
            if depth == 0:
                return i + 1
        i += 1
    raise ExtractError("unbalanced %s at %d" % (open_ch, start))


def region_after(src, anchor_re, open_ch="{", close_ch="}"):
    m = re.search(anchor_re, src)
    if not m:
        raise ExtractError("anchor not found: %s" % anchor_re)
    i = src.index(open_ch, m.end() - 1)
    j = balanced(src, i, open_ch, close_ch)
    return src[i + 1:j - 1]


def enum_variants(src, name):
    body = region_after(src, r"pub enum %s\s*\{" % name)
    vs = []
    for part in body.split(","):
        part = part.strip()
        if not part:
            continue
        m = re.match(r"^([A-Za-z_][A-Za-z0-9_]*)$", part)
        if not m:
            raise ExtractError("enum %s: odd variant %r" % (name, part))
        vs.append(m.group(1))
    return vs


def matches_list(src, fn_name):
    body = region_after(src, r"pub fn %s\(&self\)\s*->\s*bool\s*\{" % fn_name)
    m = re.search(r"matches!\(\s*self\s*,(.*)\)\s*$", body.strip(), re.S)
    if not m:
        raise ExtractError("matches! not found in %s" % fn_name)
    return [re.sub(r"^Self::", "", x.strip()) for x in m.group(1).split("|") if x.strip()]


def t_macro_map(src):
    body = region_after(src, r"macro_rules!\s*T\s*\{")
    mp = {}
    for m in re.finditer(r"\[(.+?)\]\s*=>\s*\{\$crate::token_kind::TokenKind::([A-Za-z0-9_]+)\};", body):
        key = m.group(1).strip()
        if len(key) == 3 and key[0] == "'" and key[2] == "'":
            key = key[1]
        mp[key] = m.group(2)
    if len(mp) < 50:
        raise ExtractError("T! macro map too small")
    return mp


def resolve_tok(expr, tmap):
    expr = expr.strip()
    m = re.match(r"^T!\[(.+)\]$", expr)
    if m:
        key = m.group(1).strip()
        if len(key) == 3 and key[0] == "'" and key[2] == "'":
            key = key[1]
        if key not in tmap:
            raise ExtractError("unknown T![%s]" % key)
        return tmap[key]
    m = re.match(r"^TokenKind::([A-Za-z0-9_]+)$", expr)
    if m:
        return m.group(1)
    raise ExtractError("cannot resolve token expr %r" % expr)


def str_arms(src, fn_name, tmap):
    """`"x" => T![y],` arms of the `match ident` inside fn fn_name."""
    body = region_after(src, r"fn %s\(&mut self[^)]*\)\s*->\s*TokenKind\s*\{" % fn_name)
    m = re.search(r"match ident\s*\{", body)
    if not m:
        raise ExtractError("match ident not found in %s" % fn_name)
    i = body.index("{", m.end() - 1)
    j = balanced(body, i, "{", "}")
    mbody = body[i + 1:j - 1]
    arms = []
    for m in re.finditer(r'"([^"]*)"\s*=>\s*(T!\[[^\]]+\]|TokenKind::[A-Za-z0-9_]+)\s*,', mbody):
        arms.append((m.group(1), resolve_tok(m.group(2), tmap)))
    if not arms:
        raise ExtractError("no arms in %s" % fn_name)
    return arms


def const_tok_array(src, name, tmap):
    m = re.search(r"const %s:\s*\[TokenKind;\s*(\d+)\]\s*=\s*\[" % name, src)
    if not m:
        raise ExtractError("const %s not found" % name)
    i = m.end() - 1
    j = balanced(src, i, "[", "]")
    items = split_top(src[i + 1:j - 1])
    toks = [resolve_tok(x, tmap) for x in items]
    if len(toks) != int(m.group(1)):
        raise ExtractError("const %s: length mismatch" % name)
    return toks


def split_top(s):
    items, depth, cur = [], 0, []
    i = 0
    while i < len(s):
        c = s[i]
        if c == "'" and i + 2 < len(s) and s[i + 2] == "'":
            cur.append(s[i:i + 3])
            i += 3
            continue
        if c in "[(":
            depth += 1
        elif c in "])":
            depth -= 1
        if c == "," and depth == 0:
            items.append("".join(cur).strip())
            cur = []
        else:
            cur.append(c)
        i += 1
    last = "".join(cur).strip()
    if last:
        items.append(last)
    return [x for x in items if x]


def const_str_array(src, name):
    m = re.search(r"const %s:\s*\[&str;\s*(\d+)\]\s*=\s*\[" % name, src)
    if not m:
        raise ExtractError("const %s not found" % name)
    i = m.end() - 1
    j = balanced(src, i, "[", "]")
    items = re.findall(r'"([^"]*)"', src[i + 1:j - 1])
    if len(items) != int(m.group(1)):
        raise ExtractError("const %s: length mismatch" % name)
    return items


def tok_to_syntax(src):
    body = region_after(src, r"impl From<TokenKind> for rowan::SyntaxKind\s*\{")
    mp = {}
    # one arm per token kind or several kinds joined by `|` in one arm
    for m in re.finditer(r"((?:\|?\s*TokenKind::[A-Za-z0-9_]+\s*)+)=>\s*SyntaxKind::([A-Za-z0-9_]+)\s*,", body):
        for k in re.findall(r"TokenKind::([A-Za-z0-9_]+)", m.group(1)):
            mp[k] = m.group(2)
    return mp


def match_peek_arms(src, fn_name, tmap):
    """arms `T![x] | T![y] => callee(p),` of `match p.peek()` in fn fn_name -> [(tok, callee)]"""
    m = re.search(r"fn (r#)?%s\(p: &mut Parser[^)]*\)[^{]*\{" % fn_name, src)
    if not m:
        raise ExtractError("fn %s not found" % fn_name)
    i = src.index("{", m.end() - 1)
    j = balanced(src, i, "{", "}")
    body = src[i + 1:j - 1]
    m = re.search(r"match p\.peek\(\)\s*\{", body)
    if not m:
        raise ExtractError("match p.peek() not found in %s" % fn_name)
    i = body.index("{", m.end() - 1)
    j = balanced(body, i, "{", "}")
    mbody = body[i + 1:j - 1]
    arms = []
    for m in re.finditer(r"((?:(?:T!\[[^\]]+\]|TokenKind::[A-Za-z0-9_]+)\s*\|?\s*)+)=>\s*(?:r#)?([a-z_:]+)\(p\)", mbody):
        toks = [resolve_tok(x, tmap) for x in re.findall(r"T!\[[^\]]+\]|TokenKind::[A-Za-z0-9_]+", m.group(1))]
        callee = m.group(2).split("::")[-1]
        for t in toks:
            arms.append((t, callee))
    return arms


def messages(srcs):
    """syntax error message literals (for non-emptiness); returns list of (file, literal)"""
    out = []
    pat = re.compile(r"""(?:\.error|self\.error|error_and_eat|error_and_recover|or_error|expect_with_msg)\(\s*(?:p\s*,\s*)?(?:T!\[(?:'[^']+'|[^\]'])+\]\s*,\s*|TokenKind::\w+\s*,\s*)?"((?:[^"\\]|\\.)*)\"""", re.S)
    for rel, src in srcs:
        for m in pat.finditer(src):
            out.append((rel, m.group(1)))
    return out


def ide_messages(srcs):
    """diagnostic message templates of the indexer, in source order: the first string literal of every `.error(` call
    (a plain literal or the format string of a `format!`); only used to map reworded messages back (vlib/msgmap.py)"""
    out = []
    for rel, src in srcs:
        src = src.split("#[cfg(test)]")[0]
        for m in re.finditer(r"\.error\(", src):
            seg = src[m.end():m.end() + 600]
            k = re.search(r'"((?:[^"\\]|\\.)*)"', seg)
            semi = seg.find(";")
            if k and (semi < 0 or k.start() < semi):
                out.append((rel, k.group(1)))
    return out


def eof_message(pp_src):
    """the message the preprocessor parks for the end of the text: the literal of the statement-form `self.error("...");` calls
    of preprocessor.rs (the other calls are the values of match arms / tail expressions and produce an Error token)"""
    lits = re.findall(r'self\.error\(\s*"((?:[^"\\]|\\.)*)"\s*\)\s*;', pp_src)
    if not lits or len(set(lits)) != 1:
        raise ExtractError("end-of-text message of the preprocessor not found or not unique: %r" % lits)
    return lits[0]


def folding_kinds(src):
    m = re.search(r"match node\.kind\(\)\s*\{(.*?)=>\s*Some\(utils::range_excluding_trivia", src, re.S)
    if not m:
        raise ExtractError("folding kinds not found")
    return re.findall(r"SyntaxKind::([A-Za-z0-9_]+)", m.group(1))


def bang_indexer_arms(src, tmap):
    """SyntaxKind::X.. arms of the operator match in ide/src/index/bang_operator.rs"""
    body = region_after(src, r"match self\.kind\(\)\?\s*\{")
    toks = []
    for m in re.finditer(r"SyntaxKind::(X[A-Za-z0-9]+)", body):
        if m.group(1) not in toks:
            toks.append(m.group(1))
    if not toks:
        raise ExtractError("no bang operator arms found in indexer")
    return toks


# ---------------------------------------------------------------------------------------------------------------------
# Tables that a maintainer may move to another file, rename, or rewrite from a `match` into a static list: they are looked up
# (1) by name where they used to be, (2) by name anywhere in the crate, (3) by content: a table of the same shape whose content
# equals the content recorded for the tree the models were written against (translator/tables_baseline.json) is that table
# under a new name.  A table that is renamed AND changed is not found (the extraction fails, which is reported).
def crate_sources(crate):
    import glob as _glob
    root = os.path.join(REPO, "crates", crate, "src")
    out = []
    for f in sorted(_glob.glob(os.path.join(root, "**", "*.rs"), recursive=True)):
        with open(f, encoding="utf-8") as fh:
            out.append((os.path.relpath(f, root), strip_comments(fh.read())))
    return out


def _baseline():
    try:
        with open(os.path.join(os.path.dirname(os.path.abspath(__file__)), "tables_baseline.json"), encoding="utf-8") as f:
            return json.load(f)
    except Exception:
        return {}


def _arrays(srcs, elem_pat):
    """(file, name, body) of every `const|static NAME: [ELEM; N] = [..]` / `&[ELEM] = &[..]`"""
    out = []
    pat = re.compile(r"(?:const|static)\s+([A-Za-z_][A-Za-z0-9_]*)\s*:\s*&?\s*\[\s*%s\s*(?:;\s*\d+\s*)?\]\s*=\s*&?\s*\[" % elem_pat)
    for rel, src in srcs:
        for m in pat.finditer(src):
            i = m.end() - 1
            j = balanced(src, i, "[", "]")
            out.append((rel, m.group(1), src[i + 1:j - 1]))
    return out


def find_tok_table(srcs, name, key, tmap, prefer=None):
    arrs = [(rel, n, [resolve_tok(x, tmap) for x in split_top(body)]) for rel, n, body in _arrays(srcs, r"TokenKind")]
    named = [a for a in arrs if a[1] == name]
    if prefer:
        named.sort(key=lambda a: a[0] != prefer)
    if named:
        return named[0][2]
    want = _baseline().get(key)
    same = [a for a in arrs if want is not None and a[2] == want]
    if same:
        return same[0][2]
    raise ExtractError("table %s (%s) not found by name or by content" % (name, key))


def find_str_table(srcs, name, key, prefer=None):
    arrs = [(rel, n, re.findall(r'"([^"]*)"', body)) for rel, n, body in _arrays(srcs, r"&(?:'static\s+)?str")]
    named = [a for a in arrs if a[1] == name]
    if prefer:
        named.sort(key=lambda a: a[0] != prefer)
    if named:
        return named[0][2]
    want = _baseline().get(key)
    same = [a for a in arrs if want is not None and a[2] == want]
    if same:
        return same[0][2]
    raise ExtractError("table %s (%s) not found by name or by content" % (name, key))


def str_arms_or_table(src, fn_name, key, tmap):
    """the `"x" => T![y]` arms of `match ident` in fn_name, or - when the match has been rewritten as a lookup - the static list
    of ("x", T![y]) pairs that the function names (or whose content is the recorded one)"""
    try:
        return str_arms(src, fn_name, tmap)
    except ExtractError as e:
        first = e
    pairs = []
    for rel, n, body in _arrays([("", src)], r"\(\s*&(?:'static\s+)?str\s*,\s*TokenKind\s*\)"):
        arms = [(m.group(1), resolve_tok(m.group(2), tmap)) for m in
                re.finditer(r'\(\s*"([^"]*)"\s*,\s*(T!\[[^\]]+\]|TokenKind::[A-Za-z0-9_]+)\s*\)', body)]
        pairs.append((n, arms))
    try:
        fbody = region_after(src, r"fn %s\(&mut self[^)]*\)\s*->\s*TokenKind\s*\{" % fn_name)
    except ExtractError:
        fbody = ""
    used = [a for n, a in pairs if re.search(r"\b%s\b" % re.escape(n), fbody)]
    if len(used) == 1:
        return used[0]
    want = _baseline().get(key)
    same = [a for n, a in pairs if want is not None and [list(x) for x in a] == want]
    if same:
        return same[0]
    raise first


def folding_kinds_any(src):
    try:
        return folding_kinds(src)
    except ExtractError as e:
        first = e
    arrs = _arrays([("", src)], r"SyntaxKind")
    if len(arrs) == 1:
        return re.findall(r"SyntaxKind::([A-Za-z0-9_]+)", arrs[0][2])
    m = re.search(r"matches!\(\s*node\.kind\(\)\s*,([^)]*)\)", src)
    if m:
        return re.findall(r"SyntaxKind::([A-Za-z0-9_]+)", m.group(1))
    raise first


def extract():
    tk_src = strip_comments(read("crates/syntax/src/token_kind.rs"))
    sk_src = strip_comments(read("crates/syntax/src/syntax_kind.rs"))
    lx_src = strip_comments(read("crates/syntax/src/lexer.rs"))
    gr_src = strip_comments(read("crates/syntax/src/grammar.rs"))
    st_src = strip_comments(read("crates/syntax/src/grammar/statement.rs"))
    va_src = strip_comments(read("crates/syntax/src/grammar/value.rs"))
    ty_src = strip_comments(read("crates/syntax/src/grammar/type.rs"))
    pp_src = strip_comments(read("crates/syntax/src/preprocessor.rs"))
    pa_src = strip_comments(read("crates/syntax/src/parser.rs"))
    co_src = strip_comments(read("crates/ide/src/handlers/completion.rs"))
    fo_src = strip_comments(read("crates/ide/src/handlers/folding_range.rs"))
    bo_src = strip_comments(read("crates/ide/src/index/bang_operator.rs"))

    t = {}
    t["token_kinds"] = enum_variants(tk_src, "TokenKind")
    t["syntax_kinds"] = [v for v in enum_variants(sk_src, "SyntaxKind")]
    tmap = t_macro_map(tk_src)
    t["t_macro"] = tmap
    t["trivia"] = matches_list(tk_src, "is_trivia")
    t["bang_ops"] = matches_list(tk_src, "is_bang_operator")
    t["cond_ops"] = matches_list(tk_src, "is_cond_operator")
    t["syntax_trivia"] = matches_list(sk_src, "is_trivia")
    t["tok_to_syntax"] = tok_to_syntax(sk_src)
    missing = [k for k in t["token_kinds"] if k not in t["tok_to_syntax"]]
    if missing:
        raise ExtractError("tok_to_syntax misses %s" % missing)
    t["keywords"] = str_arms_or_table(lx_src, "identifier", "keywords", tmap)
    t["bang_table"] = str_arms_or_table(lx_src, "bangoperator", "bang_table", tmap)
    t["prep_table"] = str_arms_or_table(lx_src, "preprocessor", "prep_table", tmap)
    syn_srcs = crate_sources("syntax")
    ide_srcs = crate_sources("ide")
    t["recover_tokens"] = find_tok_table(syn_srcs, "RECOVER_TOKENS", "recover_tokens", tmap, prefer="grammar.rs")
    t["value_start"] = find_tok_table(syn_srcs, "VALUE_START", "value_start", tmap, prefer="grammar/value.rs")
    t["type_first"] = find_tok_table(syn_srcs, "TYPE_FIRST_TOKENS", "type_first", tmap, prefer="grammar/type.rs")
    t["statement_arms"] = match_peek_arms(st_src, "statement", tmap)
    t["mc_statement_arms"] = match_peek_arms(st_src, "multi_class_statement", tmap)
    t["type_arms"] = match_peek_arms(ty_src, "type", tmap)
    t["simple_value_arms"] = match_peek_arms(va_src, "simple_value", tmap)
    t["body_item_arms"] = match_peek_arms(st_src, "body_item", tmap)
    t["messages"] = messages([
        ("lexer.rs", lx_src), ("preprocessor.rs", pp_src), ("parser.rs", pa_src),
        ("grammar.rs", gr_src), ("statement.rs", st_src), ("value.rs", va_src), ("type.rs", ty_src)])
    t["eof_message"] = eof_message(pp_src)
    import glob as _glob
    ide_files = ["crates/ide/src/index.rs"] + sorted(os.path.relpath(x, REPO) for x in _glob.glob(os.path.join(REPO, "crates/ide/src/index/*.rs")))
    t["ide_messages"] = ide_messages([(os.path.basename(f), strip_comments(read(f))) for f in ide_files])
    t["compl_toplevel"] = find_str_table(ide_srcs, "TOPLEVEL_KEYWORDS", "compl_toplevel", prefer="handlers/completion.rs")
    t["compl_types"] = find_str_table(ide_srcs, "PRIMITIVE_TYPES", "compl_types", prefer="handlers/completion.rs")
    t["compl_snippet_types"] = re.findall(r'new_snippet\(\s*"([a-z]+)"\s*,\s*"[^"]*"', co_src)
    t["compl_values"] = find_str_table(ide_srcs, "BOOLEAN_VALUES", "compl_values", prefer="handlers/completion.rs")
    t["compl_bang"] = find_str_table(ide_srcs, "BANG_OPERATORS", "compl_bang", prefer="handlers/completion.rs")
    t["folding_kinds"] = folding_kinds_any(fo_src)
    t["bang_indexer_arms"] = bang_indexer_arms(bo_src, tmap)
    return t


def lean_ident(v):
    return v


def lean_str(s):
    out = ['"']
    for ch in s:
        if ch == '"':
            out.append('\\"')
        elif ch == "\\":
            out.append("\\\\")
        elif ch == "\n":
            out.append("\\n")
        else:
            out.append(ch)
    out.append('"')
    return "".join(out)


def lean_chars(s):
    def ch(c):
        if c == "'":
            return "'\\''"
        if c == "\\":
            return "'\\\\'"
        if c == "\n":
            return "'\\n'"
        return "'%s'" % c
    return "[" + ", ".join(ch(c) for c in s) + "]"


def unescape_rust(s):
    return s.encode("utf-8").decode("unicode_escape").encode("latin-1").decode("utf-8") if "\\" in s else s


def emit_lean(t):
    L = []
    w = L.append
    w("-- GENERATED by /verif/translator/extract.py from /repo sources. Do not edit.")
    w("namespace Tg")
    w("")
    w("inductive TokenKind where")
    for v in t["token_kinds"]:
        w("  | %s" % v)
    w("deriving DecidableEq, Repr, Inhabited")
    w("")
    w("inductive SyntaxKind where")
    for v in t["syntax_kinds"]:
        w("  | %s" % v)
    w("deriving DecidableEq, Repr, Inhabited")
    w("")
    w("namespace TokenKind")
    w("def name : TokenKind → _root_.String")
    for v in t["token_kinds"]:
        w('  | .%s => "%s"' % (v, v))
    w("")
    w("def all : _root_.List TokenKind := [%s]" % ", ".join("." + v for v in t["token_kinds"]))
    w("")
    w("def toSyntax : TokenKind → SyntaxKind")
    for v in t["token_kinds"]:
        w("  | .%s => .%s" % (v, t["tok_to_syntax"][v]))
    w("")

    def boolfn(name, lst):
        w("def %s : TokenKind → Bool" % name)
        for v in lst:
            w("  | .%s => true" % v)
        w("  | _ => false")
        w("")
    boolfn("isTrivia", t["trivia"])
    boolfn("isBangOperator", t["bang_ops"])
    boolfn("isCondOperator", t["cond_ops"])
    w("end TokenKind")
    w("")
    w("namespace SyntaxKind")
    w("def name : SyntaxKind → _root_.String")
    for v in t["syntax_kinds"]:
        w('  | .%s => "%s"' % (v, v))
    w("")
    w("def isTrivia : SyntaxKind → Bool")
    for v in t["syntax_trivia"]:
        w("  | .%s => true" % v)
    w("  | _ => false")
    w("end SyntaxKind")
    w("")
    w("namespace Tables")

    def strtab(name, arms):
        w("def %s : List (List Char × TokenKind) := [" % name)
        w(",\n".join("  (%s, .%s)" % (lean_chars(k), v) for k, v in arms))
        w("]")
        w("")
    strtab("keywords", t["keywords"])
    strtab("bangTable", t["bang_table"])
    strtab("prepTable", t["prep_table"])

    def toklist(name, lst):
        w("def %s : List TokenKind := [%s]" % (name, ", ".join("." + v for v in lst)))
        w("")
    toklist("recoverTokens", t["recover_tokens"])
    toklist("valueStart", t["value_start"])
    toklist("typeFirst", t["type_first"])
    toklist("bangOps", t["bang_ops"])
    toklist("bangIndexerArms", t["bang_indexer_arms"])

    def armtab(name, arms):
        w("def %s : List (TokenKind × String) := [" % name)
        w(",\n".join('  (.%s, "%s")' % (k, v) for k, v in arms))
        w("]")
        w("")
    armtab("statementArms", t["statement_arms"])
    armtab("mcStatementArms", t["mc_statement_arms"])
    armtab("typeArms", t["type_arms"])
    armtab("simpleValueArms", t["simple_value_arms"])
    armtab("bodyItemArms", t["body_item_arms"])

    def strlist(name, lst):
        w("def %s : List (List Char) := [%s]" % (name, ",\n  ".join(lean_chars(x) for x in lst)))
        w("")
    strlist("messages", sorted(set(unescape_rust(m) for _, m in t["messages"])))
    w("def eofMessage : List Char := %s" % lean_chars(unescape_rust(t["eof_message"])))
    w("")
    strlist("complToplevel", t["compl_toplevel"])
    strlist("complTypes", t["compl_types"])
    strlist("complSnippetTypes", t["compl_snippet_types"])
    strlist("complValues", t["compl_values"])
    strlist("complBang", t["compl_bang"])
    w("def foldingKinds : List SyntaxKind := [%s]" % ", ".join("." + v for v in t["folding_kinds"]))
    w("")
    w("end Tables")
    w("end Tg")
    return "\n".join(L) + "\n"


def main():
    out_lean = sys.argv[1] if len(sys.argv) > 1 else "/verif/lean/TgModel/Generated/Tables.lean"
    out_json = sys.argv[2] if len(sys.argv) > 2 else None
    t = extract()
    text = emit_lean(t)
    os.makedirs(os.path.dirname(out_lean), exist_ok=True)
    old = None
    if os.path.exists(out_lean):
        with open(out_lean, encoding="utf-8") as f:
            old = f.read()
    if old != text:
        with open(out_lean, "w", encoding="utf-8") as f:
            f.write(text)
    if out_json:
        os.makedirs(os.path.dirname(out_json), exist_ok=True)
        with open(out_json, "w", encoding="utf-8") as f:
            json.dump(t, f, indent=1, sort_keys=True)
    print("extracted: %d token kinds, %d syntax kinds, %d keywords, %d bang ops, %d messages%s" % (
        len(t["token_kinds"]), len(t["syntax_kinds"]), len(t["keywords"]), len(t["bang_table"]),
        len(t["messages"]), "" if old != text else " (unchanged)"))


if __name__ == "__main__":
    try:
        main()
    except ExtractError as e:
        print("EXTRACT-ERROR: %s" % e)
        sys.exit(3)
