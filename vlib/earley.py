"""Independent Earley recogniser over token kinds for the documented grammar (gen.GRAMMAR, EBNF).
`accepts(kinds)` decides derivability from SourceFile, allowing a trailing separator in bracketed
lists (the property's relaxation)."""
from . import gen

_rules = None


def _compile():
    """EBNF -> plain CFG rules: {nt: [rhs tuples]} with terminals as ('t', kind)"""
    rules = {}
    counter = [0]

    def fresh(prefix):
        counter[0] += 1
        return "%s#%d" % (prefix, counter[0])

    def conv(e, owner):
        """returns a symbol (('t',k) or nonterminal name) for expression e, adding helper rules"""
        t = e[0]
        if t == "tok":
            return ("t", e[1])
        if t == "nt":
            return e[1]
        n = fresh(owner)
        if t == "seq":
            rules[n] = [tuple(conv(x, owner) for x in e[1:])]
        elif t == "alt":
            rules[n] = [(conv(x, owner),) for x in e[1:]]
        elif t == "opt":
            rules[n] = [(), (conv(e[1], owner),)]
        elif t == "star":
            x = conv(e[1], owner)
            rules[n] = [(), (x, n)]
        elif t == "plus":
            x = conv(e[1], owner)
            rules[n] = [(x,), (x, n)]
        return n
    for nt, e in gen.GRAMMAR.items():
        rules[nt] = [(conv(e, nt),)]
    return rules


def rules():
    global _rules
    if _rules is None:
        _rules = _compile()
        # relaxation: trailing separator allowed in bracketed lists
        # (ValueList in [ ] { } and bang/cond argument lists, template/arg lists): X ::= X ','  for the list nonterminals
        for lst in ("ValueList", "ArgValueList", "RangeList", "DagArgList"):
            _rules[lst] = _rules[lst] + [(lst + "#trail",)]
            _rules[lst + "#trail"] = [(_rules[lst][0][0], ("t", "Comma"))]
    return _rules


_nullable = None


def nullable():
    global _nullable
    if _nullable is None:
        R = rules()
        nl = set()
        changed = True
        while changed:
            changed = False
            for nt, alts in R.items():
                if nt in nl:
                    continue
                for rhs in alts:
                    if all((not isinstance(x, tuple)) and x in nl for x in rhs):
                        nl.add(nt)
                        changed = True
                        break
        _nullable = nl
    return _nullable


def tok_match(k, kind):
    return kind == k or (k == "BANGOP" and kind.startswith("X") and kind != "XCond")


def accepts(kinds, start="SourceFile"):
    R = rules()
    NL = nullable()
    n = len(kinds)
    chart = [set() for _ in range(n + 1)]
    for rhs in R[start]:
        chart[0].add((start, rhs, 0, 0))
    for i in range(n + 1):
        work = list(chart[i])
        while work:
            lhs, rhs, dot, org = work.pop()
            if dot < len(rhs):
                sym = rhs[dot]
                if isinstance(sym, tuple):
                    if i < n and tok_match(sym[1], kinds[i]):
                        chart[i + 1].add((lhs, rhs, dot + 1, org))
                else:
                    for r2 in R[sym]:
                        it = (sym, r2, 0, i)
                        if it not in chart[i]:
                            chart[i].add(it)
                            work.append(it)
                    if sym in NL:
                        it = (lhs, rhs, dot + 1, org)
                        if it not in chart[i]:
                            chart[i].add(it)
                            work.append(it)
            else:
                for (l2, r2, d2, o2) in list(chart[org]):
                    if d2 < len(r2) and r2[d2] == lhs:
                        it = (l2, r2, d2 + 1, o2)
                        if it not in chart[i]:
                            chart[i].add(it)
                            work.append(it)
    return any(l == start and d == len(r) and o == 0 for (l, r, d, o) in chart[n])
