"""Shared driver for C05 / C13 / C18 / C19: programs with expectations known by construction
(vlib/progen/progen.py: a scope-tracking generator; every use node points at the declaration object
it was generated from), run through the real analysis, checked by vlib/progen/oracle.py.
The oracle is written from the property texts and TableGen's rules (audited against llvm-tblgen
where it is installed), not from the implementation."""
import json
import re
import os
import random
import sys

from . import core

sys.path.insert(0, os.path.join(core.ROOT, "vlib", "progen"))
import progen  # noqa: E402
import oracle  # noqa: E402
import audit   # noqa: E402


def programs(seed, n, sizes=(4, 6, 8)):
    out = []
    for i in range(n):
        out.append(progen.generate(seed * 100003 + i, sizes[i % len(sizes)]))
    return out


def run_programs(progs, tag):
    qs = [oracle.queries_for(p) for p in progs]
    lines = ["ws " + json.dumps({"files": p.files, "root": p.root, "queries": q}) for p, q in zip(progs, qs)]
    res = core.impl(lines, timeout=600, tag=tag)
    answers = []
    for q, r in zip(qs, res):
        if r.startswith(("PANIC", "CRASH", "HANG", "SKIPPED")):
            answers.append({"crash": r[:200]})
            continue
        try:
            answers.append(oracle.answers_from(q, json.loads(r)))
        except Exception:
            answers.append({"crash": "unreadable answer: " + r[:100]})
    return answers


def check_all(ck, prop, n, faults_per_program=0, sizes=(4, 6, 8), tblgen_sample=0):
    """Runs the generator campaign and reports the discrepancies of `prop` through ck.fail.
    Returns (programs, coverage dict, number of faults checked)."""
    progs = programs(ck.seed, n, sizes)
    answers = run_programs(progs, "sem" + prop)
    nontriv = set()
    for p, a in zip(progs, answers):
        key = core.sig_hash(p.files)
        if p.uses or p.decls:
            nontriv.add(key)
        for d in oracle.check_program(p, a):
            if d["prop"] not in (prop, "ALL"):
                continue
            report(ck, prop, d, p)
    faulted = []
    nfaults = 0
    if faults_per_program:
        rng = random.Random(ck.seed * 7919 + 13)
        todo = []
        for p, a in zip(progs, answers):
            if not p.well_typed or "crash" in a:
                continue
            sites = progen.fault_sites(p)
            rng.shuffle(sites)
            # every fault class present in this program at least once, then random sites
            chosen, seen_cls = [], set()
            for s in sites:
                cls = s["cls"] if isinstance(s, dict) and "cls" in s else getattr(s, "cls", None)
                if cls not in seen_cls:
                    seen_cls.add(cls)
                    chosen.append(s)
            for s in sites:
                if len(chosen) >= faults_per_program:
                    break
                if s not in chosen:
                    chosen.append(s)
            base = oracle.all_diags(a)
            for s in chosen[:max(faults_per_program, len(seen_cls))]:
                try:
                    fp = progen.apply_fault(p, s)
                except Exception:
                    continue
                todo.append((p, fp, base))
        lines = ["ws " + json.dumps({"files": fp.files, "root": fp.root, "queries": [["diagnostics"]]}) for _, fp, _ in todo]
        res = core.impl(lines, timeout=600, tag="flt" + prop)
        unreported = []
        for (p, fp, base), r in zip(todo, res):
            nfaults += 1
            faulted.append(fp)
            if r.startswith(("PANIC", "CRASH", "HANG", "SKIPPED")):
                ck.fail([prop, "crash", "fault:" + fp.cls], "the analysis aborts on a program with one seeded fault: %s" % r[:80],
                        {"files": fp.files, "root": fp.root}, r[:200], "diagnostics")
                continue
            try:
                fa = oracle.answers_from([["diagnostics"]], json.loads(r))
            except Exception:
                continue
            for d in oracle.check_fault(fp, fa, base):
                if d["prop"] != prop:
                    continue
                if d["clause"] == "missed-fault" and audit.TBLGEN and getattr(p, "tblgen_ok", False):
                    unreported.append((d, fp))
                else:
                    report(ck, prop, d, fp)
        # a fault that nobody reports only counts if llvm-tblgen rejects the mutated program (where installed)
        for d, fp in unreported:
            rc, _ = audit.run_tblgen(fp.files, fp.root)
            if rc != 0:
                report(ck, prop, d, fp)
    audited = None
    if tblgen_sample and audit.TBLGEN:
        rejected = 0
        cand = [p for p in progs if getattr(p, "tblgen_ok", False) and p.well_typed and not getattr(p, "uses_named_args", False)][:tblgen_sample]
        for p in cand:
            rc, err = audit.run_tblgen(p.files, p.root)
            if rc != 0:
                rejected += 1
        audited = {"programs": len(cand), "rejected_by_llvm_tblgen": rejected}
    cov = oracle.coverage(progs, faulted)
    return progs, cov, nfaults, nontriv, audited


def report(ck, prop, d, p):
    files = getattr(p, "files", {})
    what = KNOWN_TEXT.get(d["sig"]) or (getattr(oracle, "CAUSES", {}).get(d["construct"]) and "%s [%s] %s" % (
        oracle.CAUSES[d["construct"]], d["clause"], json.dumps(d["detail"], default=str)[:120])) or \
        ("%s: %s at %s" % (d["clause"], d["construct"], json.dumps(d["detail"], default=str)[:160]))
    ck.fail(d["sig"].split("|"), what, {"files": {k: v[:3000] for k, v in files.items()}, "root": getattr(p, "root", None),
                                        "detail": json.loads(json.dumps(d["detail"], default=str))},
            json.dumps(d["detail"], default=str)[:300], "the answer the property demands (see detail.want / the property text)")


KNOWN_TEXT = dict(oracle.KNOWN)


def cov_summary(cov, prefixes):
    out = {}
    for pre in prefixes:
        ks = {k: v for k, v in cov.items() if k.startswith(pre)}
        out[pre.rstrip(":")] = {"variants": len(ks), "instances": sum(ks.values()), "top": dict(sorted(ks.items(), key=lambda kv: -kv[1])[:12])}
    return out


# fixed witnesses of the listed findings, so that each is re-examined on every run whatever the generator draws
WITNESSES = {
    "C05": [
        ("C05|goto|let-override-target", {"/main.td": "class A { int f = 1; }\nclass B : A {\n  let f = 2;\n  int g = f;\n}\n"}, ["goto", "/main.td", 60],
         ["/main.td", 14, 15]),
        ("C05|references-missing|let-override-target", {"/main.td": "class A { int f = 1; }\nclass B : A {\n  let f = 2;\n  int g = f;\n}\n"}, ["references", "/main.td", 14],
         [["/main.td", 43, 44], ["/main.td", 60, 61]]),
    ],
    "C13": [
        ("C13|missed-fault|let-in-unknown-field", {"/main.td": "class A { int f = 1; }\nlet nosuch = 1 in def e : A;\n"}, ["diagnostics"], "nonempty"),
        ("C13|missed-fault|let-in-value-type", {"/main.td": "class A { int f = 1; }\nlet f = \"oops\" in def d : A;\n"}, ["diagnostics"], "nonempty"),
    ],
}


def check_witnesses(ck, prop):
    ws = WITNESSES.get(prop, [])
    if not ws:
        return
    res = core.impl(["ws " + json.dumps({"files": f, "root": "/main.td", "queries": [q]}) for _, f, q, _ in ws], tag="wit" + prop)
    for (sig, files, q, want), r in zip(ws, res):
        try:
            got = json.loads(r)[0]
        except Exception:
            continue
        if want == "nonempty":
            ok = any(ds for _, ds in got)
        elif q[0] == "references":
            ok = got is not None and all(x in got for x in want)
        else:
            ok = got == want
        if not ok:
            ck.fail(sig.split("|"), KNOWN_TEXT.get(sig, sig), {"files": files, "root": "/main.td", "query": q}, json.dumps(got)[:300], json.dumps(want))


# ---------------------------------------------------------------------------------------------------
# scope-leak probes: a construct that opens a scope, with a body the indexer cannot type (valid or faulty), followed in
# ANOTHER file by declarations and uses whose answers change if the scope survived its construct
def scope_leak_probes(ck, prop):
    ops = [("!foreach(s, %(list)s, %(body)s)", "list<%(t)s>"), ("!filter(s, %(list)s, %(body)s)", "list<int>"),
           ("!foldl(0, %(list)s, acc, s, %(body)s)", "int")]
    bodies = [("valid-cond", '!cond(!eq(s, 1): 10, true: 20)', "int", False), ("valid-typed", "!add(s, 1)", "int", False),
              ("fault-undefined", "undefined_probe_id", "int", True), ("fault-bad-field", "s.nofield", "int", True),
              ("untyped-bit-of-int", "s{0}", "bit", None)]      # neither valid TableGen nor a listed fault: only used for invariance
    hosts = [("class-field", "class Shape<list<int> dims> {\n  %(ft)s labels = %(expr)s;\n}\n", "dims"),
             ("def-field", "def holder {\n  list<int> xs = [1, 2];\n  %(ft)s ys = %(expr)s;\n}\n", "xs"),
             ("multiclass-def", "multiclass MH<int v> {\n  def _x {\n    list<int> hl = [1, 2];\n    %(ft)s L = %(expr)s;\n  }\n}\n", "hl"),
             ("toplevel-defvar", "defvar hlist = [1, 2];\ndefvar words = %(expr)s;\n", "hlist")]
    tail = ("class Base0;\nmulticlass Pair<int p> {\n  def _a : Base0;\n}\ndefm inst : Pair<1>;\ndef Zero : Base0;\n"
            "class User {\n  Base0 b = Zero;\n}\n")
    cases = []
    for hname, htext, lst in hosts:
        for op, rty in ops:
            for bname, body, bty, faulty in bodies:
                if op.startswith("!filter") and not faulty:
                    body_v = "!eq(s, 1)" if bname == "valid-typed" else '!cond(!eq(s, 1): true, true: false)'
                else:
                    body_v = body
                expr = op % {"list": lst, "body": body_v, "t": bty}
                ft = rty % {"t": bty}
                sub = htext % {"ft": ft, "expr": expr}
                main = 'include "sub.td"\n' + tail
                # the seeded site: the undefined identifier, or the name of the missing field
                mark = "nofield" if bname == "fault-bad-field" else body_v
                cases.append(("%s/%s/%s" % (hname, op.split("(")[0], bname), {"/main.td": main, "/sub.td": sub}, faulty, sub.find(mark) if faulty else None, len(mark)))
    qs = []
    mt = cases[0][1]["/main.td"]
    pair_use = mt.index("Pair<1>")
    zero_use = mt.index("= Zero") + 2
    pair_decl = mt.index("multiclass Pair") + len("multiclass ")
    zero_decl = mt.index("def Zero") + 4
    queries = [["diagnostics"], ["goto", "/main.td", pair_use], ["goto", "/main.td", zero_use], ["document_symbol", "/main.td"]]
    want_outline = [("Class", "Base0", []), ("Multiclass", "Pair", [("TemplateArgument", "p")]), ("Def", "_a", []), ("Def", "Zero", []),
                    ("Class", "User", [("Field", "b")])]
    res = core.impl(["ws " + json.dumps({"files": f, "root": "/main.td", "queries": queries}) for _, f, _, _, _ in cases], tag="leak" + prop)
    for (name, files, faulty, site, slen), r in zip(cases, res):
        try:
            ans = json.loads(r)
        except Exception:
            ck.fail([prop, "crash", "scope-leak-probe"], "probe aborts: %s" % r[:80], {"files": files, "root": "/main.td"}, r[:200], "answers")
            continue
        diags = {f: ds for f, ds in ans[0]}
        case = {"files": files, "root": "/main.td", "detail": {"probe": name}}
        if prop == "C18":
            got = [(x["kind"], x["name"], [(c["kind"], c["name"]) for c in x["children"]]) for x in (ans[3] or [])]
            if got != want_outline:
                ck.fail(["C18", "outline", "after-scoped-operator"], "the outline of a file changes with the body of an operator in the file it includes: %s" % got,
                        case, json.dumps(got)[:400], json.dumps(want_outline))
            continue
        if prop == "C13" and faulty is None:
            continue
        if prop == "C13":
            if diags.get("/main.td"):
                ck.fail(["C13", "touched-files" if faulty else "false-diagnostic", "after-scoped-operator"],
                        "diagnostics in a file the %s does not touch: %s" % ("seeded fault" if faulty else "program (which is well-formed)", diags["/main.td"][:2]),
                        case, json.dumps(diags["/main.td"])[:300], "no diagnostics in /main.td")
            subd = diags.get("/sub.td") or []
            if faulty and not any(a <= site and site + slen <= b for _, a, b, _ in subd):
                ck.fail(["C13", "missed-fault", "in-scoped-operator-body"], "a fault in the body of a scoped operator is not reported at its site", case,
                        json.dumps(subd)[:300], "a diagnostic covering %d..%d in /sub.td" % (site, site + slen))
            if not faulty and subd:
                ck.fail(["C13", "false-diagnostic", "scoped-operator"], "a well-formed use of a scoped operator produces diagnostics: %s" % subd[:2], case,
                        json.dumps(subd)[:300], "no diagnostics")
        else:
            if ans[1] != ["/main.td", pair_decl, pair_decl + 4]:
                ck.fail(["C05", "goto", "after-scoped-operator:multiclass-ref"], "go-to-definition on a multiclass reference after a scoped operator in an included file answers %s" % ans[1],
                        case, json.dumps(ans[1]), json.dumps(["/main.td", pair_decl, pair_decl + 4]))
            if ans[2] != ["/main.td", zero_decl, zero_decl + 4]:
                ck.fail(["C05", "goto", "after-scoped-operator:def-use"], "go-to-definition on a def use after a scoped operator in an included file answers %s" % ans[2],
                        case, json.dumps(ans[2]), json.dumps(["/main.td", zero_decl, zero_decl + 4]))
    ck.count("scope_leak_probes", len(cases), {c[0] for c in cases}, sample={"probe": cases[2][0], "files": cases[2][1]})


# ---------------------------------------------------------------------------------------------------
# shadowing across declaration categories (each accepted by llvm-tblgen 14 with the stated meaning)
def _occ(text, name, nth):
    import re as _re
    ms = [m.start() for m in _re.finditer(r"(?<![A-Za-z0-9_])%s(?![A-Za-z0-9_])" % _re.escape(name), text)]
    return ms[nth]


SHADOW = [
    # (text, [(use name, nth occurrence, declaration name, nth occurrence)])
    ('foreach i = [1, 2] in { defvar i = "s"; defvar j = i; }', [("i", 2, "i", 1)], "defvar-in-foreach-body-named-like-iterator"),
    ('defvar v = "s"; class A { int v = 1; int w = v; }', [("v", 2, "v", 1)], "field-over-global-defvar"),
    ('def x; class A<int x> { int y = x; }', [("x", 2, "x", 1)], "template-argument-over-global-def"),
    ('foreach i = [1] in foreach i = [2] in def d#i { int a = i; }', [("i", 3, "i", 1)], "inner-foreach-iterator"),
    ('defvar x = 1; def d { list<int> l = !foreach(x, [1], x); int y = x; }', [("x", 2, "x", 1), ("x", 3, "x", 0)], "bang-variable-then-defvar-again"),
    ('defvar a = 1; if 1 then { defvar a = 2; def p { int v = a; } } def q { int v = a; }', [("a", 2, "a", 1), ("a", 3, "a", 0)], "block-defvar-then-outer-again"),
    ('class A { int v = 1; } def d : A { int w = v; }', [("v", 1, "v", 0)], "inherited-field"),
    ('class A { int v = 1; } class B<int n> { int w = n; } def d : A, B<v>;', [("v", 1, "v", 0)], "field-of-earlier-parent-in-later-parent-argument"),
    ('class A { int v = 1; } class B<int n> { int w = n; } class C : A, B<v>; multiclass M { def _x : A, B<v>; }', [("v", 1, "v", 0), ("v", 2, "v", 0)],
     "field-of-earlier-parent-in-later-parent-argument:class-and-multiclass"),
    ('defvar v = "s"; class A { int v = 1; } class B<int n> { int w = n; } def d : A, B<v>;', [("v", 2, "v", 1)], "earlier-parent-field-over-global-defvar"),
    # declarations of two kinds that share a name: a record asks itself for a field first (own or inherited, as soon as the parent
    # list has been read), then for a template argument, then the scopes around it
    ('class Base { int v = 0; } class D<int v> : Base { int w = v; }', [("v", 2, "v", 0)], "inherited-field-over-own-template-argument"),
    ('class Base { int v = 0; } class Mid : Base; class D<int v> : Mid { int w = v; }', [("v", 2, "v", 0)], "inherited-field-two-levels-over-own-template-argument"),
    ('class Base { int v = 0; } class Other<int n>; class D<int v> : Base, Other<v>;', [("v", 2, "v", 0)], "earlier-parent-field-over-own-template-argument-in-later-parent"),
    ('class Other<int n>; class Base { int v = 0; } class D<int v> : Other<v>, Base;', [("v", 2, "v", 1)], "own-template-argument-before-the-parent-that-has-the-field"),
    ('defvar p = 1; multiclass M<int p> { def _a { int x = p; } }', [("p", 2, "p", 1)], "multiclass-template-argument-over-global-defvar"),
    ('class A { int p = 0; } multiclass M<int p> { def _a : A { int x = p; } }', [("p", 2, "p", 0)], "inherited-field-over-multiclass-template-argument"),
    ('class A; defset list<A> v = { def in_v : A; } class B<int v> { int w = v; } def d { list<A> l = v; }', [("v", 2, "v", 1), ("v", 3, "v", 0)], "template-argument-over-defset-then-defset"),
    # several parents: the first parent (with everything it inherits) is asked before the second
    ('class Base { int f = 1; } class Mid : Base; class Other { int f = 2; } class Leaf : Mid, Other { int g = f; }', [("f", 2, "f", 0)], "first-parents-inherited-field-over-second-parents-own"),
    ('class Base { int f = 1; } class Mid : Base; class Other { int f = 2; } def D : Mid, Other; def E { int s = D.f; }', [("f", 2, "f", 0)], "field-access-first-parents-inherited-field"),
    ('class Base { int f = 1; } class Mid : Base; class Other { int f = 2; } class Leaf : Other, Mid { int g = f; }', [("f", 2, "f", 1)], "first-parents-own-field-over-second-parents-inherited"),
    # a variable of an OUTER bang operator, used inside an inner one, against a template argument / inherited field / own field
    # of the same name (every scope between the use and the record counts, not only the innermost); llvm-tblgen rejects an
    # iteration variable named like a FIELD of the record, so only template arguments and accumulators collide here
    ('class A<list<int> xs, int x = 0> { list<int> r = !foreach(x, xs, !foldl(0, xs, acc, y, !add(acc, x, y))); }', [("x", 2, "x", 1)],
     "outer-bang-variable-over-template-argument"),
    ('class Q<int k> { list<int> l = [1]; int t = !foldl(0, l, k, e, !add(k, !foldl(0, l, s, u, !add(s, u, k, e)))); }', [("k", 3, "k", 1), ("e", 1, "e", 0)],
     "accumulator-over-template-argument-two-levels"),
    ('defvar z = 5; class R { int z = 1; list<list<int>> l = !foreach(a, [1], !foreach(b, [2], !add(a, b, z))); }', [("z", 2, "z", 1)],
     "field-through-two-bang-scopes-over-global"),
    # inside the body (and the parent arguments) of a def written in a multiclass: the iterators and defvars of the blocks between
    # the def and the multiclass come before the template arguments of the multiclass
    ('class C<int k>; multiclass M<int n> { foreach n = [1, 2] in def _x : C<0> { int w = n; } }', [("n", 2, "n", 1)], "foreach-iterator-over-multiclass-template-argument-in-def-body"),
    ('class C<int k>; multiclass M<int n> { defvar n = 7; def _x : C<n>; }', [("n", 2, "n", 1)], "defvar-over-multiclass-template-argument-in-parent-argument"),
    ('class C<int k> { int val = k; } multiclass M<int n> { defvar n = 7; def _x : C<0> { let val = n; } }', [("n", 2, "n", 1)], "defvar-over-multiclass-template-argument-in-let-value"),
    ('class C<int k>; multiclass M<int n> { foreach i = [1, 2] in { defvar n = i; if !eq(i, 1) then { def _x # i : C<i> { int w = !add(n, 1); } } } def _y : C<n>; }',
     [("n", 2, "n", 1), ("n", 3, "n", 0)], "block-defvar-over-multiclass-template-argument-then-the-argument-again"),
]


def shadow_probes(ck, prop):
    lines, meta = [], []
    for text, pairs, tag in SHADOW:
        qs = [["diagnostics"]] + [["goto", "/main.td", _occ(text, u, un)] for u, un, _, _ in pairs]
        lines.append("ws " + json.dumps({"files": {"/main.td": text}, "root": "/main.td", "queries": qs}))
        meta.append((text, pairs, tag))
    res = core.impl(lines, tag="shd" + prop)
    for (text, pairs, tag), r in zip(meta, res):
        try:
            ans = json.loads(r)
        except Exception:
            continue
        case = {"files": {"/main.td": text}, "root": "/main.td", "detail": {"probe": tag}}
        if prop == "C13":
            ds = [d for _, v in ans[0] for d in v]
            from . import validcorpus
            if ds and validcorpus.tblgen_accepts(text, "shadow_" + re.sub(r"[^A-Za-z0-9]+", "_", tag)) is not False:
                ck.fail(["C13", "false-diagnostic", "shadowing:" + tag.split(":")[0]], "a well-formed program (accepted by llvm-tblgen) produces diagnostics: %s" % ds[:2],
                        case, json.dumps(ds)[:300], "no diagnostics")
            continue
        for (u, un, d, dn), got in zip(pairs, ans[1:]):
            want = ["/main.td", _occ(text, d, dn), _occ(text, d, dn) + len(d)]
            if got != want:
                ck.fail(["C05", "goto", "shadowing:" + tag.split(":")[0]], "go-to-definition on %r (occurrence %d) answers %s; the innermost declaration in scope is at %s" % (u, un, got, want),
                        case, json.dumps(got), json.dumps(want))
    ck.count("shadow_probes", len(SHADOW), {t for _, _, t in SHADOW}, sample={"text": SHADOW[0][0]})


def typed_parent_fault_probe(ck):
    """C13: the argument of a later parent names a field of an earlier parent whose type does not fit (llvm-tblgen rejects)"""
    text = 'defvar v = 1; class A { string v = "s"; } class B<int n> { int w = n; } def d : A, B<v>;'
    r = core.impl(["ws " + json.dumps({"files": {"/main.td": text}, "root": "/main.td", "queries": [["diagnostics"]]})], tag="tpf")[0]
    try:
        ds = [d for _, v in json.loads(r)[0] for d in v]
    except Exception:
        return
    site = text.rindex("v>")
    if not any(a <= site and site + 1 <= b for _, a, b, _ in ds):
        ck.fail(["C13", "missed-fault", "type-incompatible-argument:earlier-parent-field"], "a string field of an earlier parent passed to an int parameter of a later parent is not reported",
                {"files": {"/main.td": text}, "root": "/main.td"}, json.dumps(ds)[:300], "a diagnostic covering offset %d" % site)


# ---------------------------------------------------------------------------------------------------
# attribution probes: a file that is reached a second time (diamond, or re-included by the root), followed - in the re-including
# file or in one of its ancestors - by one seeded fault or by further includes; diagnostics belong to the file of the fault
def attribution_probes(ck):
    common = "class Base { int base = 0; }\n"
    a = 'include "common.td"\nclass A : Base { int a = 1; }\n'
    b = 'include "common.td"\nclass B : Base { int b = 2; }\n'
    d = "class D : Base { int d = 3; }\n"
    cases = []

    def add(tag, files, fault):
        cases.append((tag, {"/" + k: v for k, v in files.items()}, fault))
    add("diamond-wellformed", {"main.td": 'include "a.td"\ninclude "b.td"\ninclude "d.td"\ndef m : A, B, D;\n', "a.td": a, "b.td": b, "common.td": common, "d.td": d}, None)
    add("diamond-then-undefined-class-in-root", {"main.td": 'include "a.td"\ninclude "b.td"\ndef m : A, B, Missing;\n', "a.td": a, "b.td": b, "common.td": common},
        ("/main.td", "Missing"))
    add("diamond-then-bad-initialiser-in-second-includer", {"main.td": 'include "a.td"\ninclude "b.td"\ndef m : A, B;\n', "a.td": a,
                                                             "b.td": 'include "common.td"\nclass B : Base { int b = "text"; }\n', "common.td": common}, ("/b.td", '"text"'))
    add("reinclude-then-missing-include-in-root", {"main.td": 'include "a.td"\ninclude "common.td"\ninclude "nowhere.td"\ndef m : A;\n', "a.td": a, "common.td": common},
        ("/main.td", '"nowhere.td"'))
    add("reinclude-then-undefined-identifier-in-root", {"main.td": 'include "a.td"\ninclude "common.td"\ndef m : A { int z = nosuchvalue; }\n', "a.td": a, "common.td": common},
        ("/main.td", "nosuchvalue"))
    add("three-levels-fault-in-middle", {"main.td": 'include "mid.td"\ndef m : M;\n', "mid.td": 'include "a.td"\ninclude "b.td"\nclass M : A, B, Gone;\n', "a.td": a, "b.td": b,
                                          "common.td": common}, ("/mid.td", "Gone"))
    add("three-levels-wellformed-more-includes", {"main.td": 'include "mid.td"\ninclude "d.td"\ndef m : M, D;\n', "mid.td": 'include "a.td"\ninclude "b.td"\ninclude "d.td"\nclass M : A, B;\n',
                                                  "a.td": a, "b.td": b, "common.td": common, "d.td": d}, None)
    add("self-include-then-fault", {"main.td": 'include "main.td"\ninclude "common.td"\nclass S : Base, Absent;\n', "common.td": common}, ("/main.td", "Absent"))
    add("diamond-surplus-argument-in-root", {"main.td": 'include "a.td"\ninclude "b.td"\ndef m : A<1>;\n', "a.td": a, "b.td": b, "common.td": common}, ("/main.td", "A<1>"))
    res = core.impl(["ws " + json.dumps({"files": f, "root": "/main.td", "queries": [["diagnostics"]]}) for _, f, _ in cases], tag="attr")
    for (tag, files, fault), r in zip(cases, res):
        try:
            per = {f: ds for f, ds in json.loads(r)[0] if ds}
        except Exception:
            continue
        case = {"files": files, "root": "/main.td", "detail": {"probe": "attribution:" + tag}}
        if fault is None:
            if per:
                ck.fail(["C13", "false-diagnostic", "attribution:" + tag], "a well-formed multi-file program produces diagnostics: %s" % json.dumps(per)[:200], case, json.dumps(per)[:300], "none")
            continue
        ff, site = fault
        lo = files[ff].encode().index(site.encode())
        hi = lo + len(site.encode())
        hit = any(d[1] <= lo and hi <= d[2] or (lo <= d[1] and d[2] <= hi) for d in per.get(ff, []))
        others = sorted(f for f in per if f != ff)
        if others:
            ck.fail(["C13", "untouched-file", "attribution:" + tag], "a fault in %s is reported in %s" % (ff, others), case, json.dumps(per)[:300], "diagnostics in %s only" % ff)
        elif not hit:
            ck.fail(["C13", "missed-fault", "attribution:" + tag], "the fault %s in %s is not reported at its site" % (site, ff), case, json.dumps(per)[:300], "a diagnostic covering %d..%d of %s" % (lo, hi, ff))
    ck.count("attribution_probes", len(cases), {t for t, _, _ in cases}, sample={"files": cases[1][1]})


# ---------------------------------------------------------------------------------------------------
# block-scope matrix: a `defvar` declared inside a block (the branches of an `if`, an `else` that starts with another `if`, a
# `foreach` body, a `let ... in` block, a multiclass body) after every kind of preceding statement ends with that block: a use
# behind the block resolves to the outer variable of the same name, or to nothing
def block_scope_matrix(ck, prop):
    wrappers = [
        ("if-then", "if 1 then {\n%s}\n", False),
        ("if-else", "if 0 then {\n  def Dm1 : K<1>;\n} else {\n%s}\n", False),
        ("else-if-then", "if 0 then {\n  def Dm2 : K<1>;\n} else if 1 then {\n%s}\n", False),
        ("foreach", "foreach i = [1] in {\n%s}\n", False),
        ("let-in", "let f = 1 in {\n%s}\n", False),
        ("if-in-foreach", "foreach i = [1] in {\n  if 1 then {\n%s  }\n}\n", False),
        ("multiclass", "multiclass MM<int q> {\n%s}\ndefm inst : MM<1>;\n", True),
        # a defset opens no scope of its own: what its body declares belongs to the block around it and ends with that block
        ("defset-in-let", "let f = 1 in {\n  defset list<K> SL = {\n%s  }\n}\n", False),
        ("defset-in-foreach", "foreach i = [1] in {\n  defset list<K> SF = {\n%s  }\n}\n", False),
        ("defset-in-if", "if 1 then {\n  defset list<K> SI = {\n%s  }\n}\n", False),
        ("defset-in-else", "if 0 then {\n  def Dm3 : K<1>;\n} else {\n  defset list<K> SE = {\n    defset list<K> SE2 = {\n%s    }\n  }\n}\n", False),
    ]
    prefixes = [
        ("first", ""),
        ("after-if", "  if 1 then {\n    def PA : K<1>;\n  }\n"),
        ("after-if-else", "  if 0 then {\n    def PB : K<1>;\n  } else {\n    def PC : K<2>;\n  }\n"),
        ("after-else-if", "  if 0 then def PH : K<1>; else if 1 then def PI : K<2>; else def PJ : K<3>;\n"),
        ("after-foreach", "  foreach j = [1] in {\n    def PD#j : K<j>;\n  }\n"),
        ("after-let", "  let f = 2 in {\n    def PE : K<1>;\n  }\n"),
        ("after-defvar", "  defvar other = 1;\n"),
        ("after-def", "  def PG : K<1>;\n"),
    ]
    cases = []
    for wname, wtext, in_mc in wrappers:
        for pname, ptext in prefixes:
            for outer in (True, False):
                body = ptext + "  defvar w = 16;\n  def %s : K<w>;\n" % ("_in" if in_mc else "In")
                if in_mc:
                    body = re.sub(r"def (P[A-J])", r"def _\1", body)
                text = "class K<int v> { int f = v; }\n" + ("defvar w = 8;\n" if outer else "") + wtext % body + "def After : K<w>;\n"
                cases.append(("%s/%s/%s" % (wname, pname, "shadow" if outer else "ended"), text, outer))
    lines = []
    for _, text, outer in cases:
        use_after = text.rindex("K<w>") + 2
        use_in = text.index("K<w>") + 2
        lines.append("ws " + json.dumps({"files": {"/main.td": text}, "root": "/main.td", "queries": [["diagnostics"], ["goto", "/main.td", use_after], ["goto", "/main.td", use_in]]}))
    res = core.impl(lines, tag="bsm" + prop)
    for (name, text, outer), r in zip(cases, res):
        case = {"files": {"/main.td": text}, "root": "/main.td", "detail": {"probe": name}}
        try:
            ans = json.loads(r)
        except Exception:
            ck.fail([prop, "crash", "block-scope-matrix"], "probe aborts: %s" % r[:80], case, r[:200], "answers")
            continue
        use_after = text.rindex("K<w>") + 2
        inner_decl = text.index("defvar w = 16") + 7
        outer_decl = text.index("defvar w = 8") + 7 if outer else None
        ds = [d for _, dl in ans[0] for d in dl]
        if prop == "C05":
            want_after = ["/main.td", outer_decl, outer_decl + 1] if outer else None
            if ans[1] != want_after:
                ck.fail(["C05", "goto", "block-scope:" + name.split("/")[0]], "a use behind a block resolves to %s: the block's own `defvar` ends with the block (%s)" % (ans[1], name),
                        case, json.dumps(ans[1]), json.dumps(want_after))
            if ans[2] != ["/main.td", inner_decl, inner_decl + 1]:
                ck.fail(["C05", "goto", "block-scope-inner:" + name.split("/")[0]], "a use inside a block does not resolve to the block's own `defvar` (%s): %s" % (name, ans[2]),
                        case, json.dumps(ans[2]), json.dumps(["/main.td", inner_decl, inner_decl + 1]))
        else:
            if outer and ds and validcorpus.tblgen_accepts(text, "bsm_" + re.sub(r"[^A-Za-z0-9]+", "_", name)) is not False:
                ck.fail(["C13", "false-diagnostic", "block-scope:" + name.split("/")[0]], "a well-formed program (accepted by llvm-tblgen) produces diagnostics: %s" % ds[:2], case,
                        json.dumps(ds)[:300], "no diagnostics")
            if not outer and not any(a <= use_after and use_after + 1 <= b for _, a, b, _ in ds):
                ck.fail(["C13", "missed-fault", "block-scope:" + name.split("/")[0]], "a use of a block's `defvar` behind the block is not reported (%s)" % name, case,
                        json.dumps(ds)[:300], "a diagnostic covering %d..%d" % (use_after, use_after + 1))
    ck.count("block_scope_matrix", len(cases), {c[0] for c in cases}, sample={"probe": cases[3][0], "text": cases[3][1]})
