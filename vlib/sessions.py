"""Shared session generator / runner for C09, C11, C12: scripted LSP sessions against the real
server over a temp directory where on-disk and editor texts differ and are distinguishable."""
import itertools
import json
import re

from . import core

FILES = ["a.td", "b.td", "c.td"]


def text(k, incs, faulty, extra="", syn=False):
    """text variant k: include lines, one class T<k>, optionally an undefined-class fault Und<k>, optionally a syntax error
    (a declaration that the end of the text cuts short)"""
    s = "".join('include "%s"\n' % FILES[j] for j in incs)
    s += extra
    s += "class T%d;\n" % k
    if faulty:
        s += "def m%d : Und%d;\n" % (k, k)
    if syn:
        s += "class Syn%d\n" % k
    return s


class Variant:
    def __init__(self, k, incs, faulty, extra="", syn=False):
        self.k, self.incs, self.faulty, self.extra, self.syn = k, tuple(incs), faulty, extra, syn
        self.text = text(k, incs, faulty, extra, syn)


def make_variants():
    vs = []
    k = 0
    for incs in [(), (1,), (1, 2), (2,)]:
        for faulty in (True, False):
            vs.append(Variant(k, incs, faulty))
            k += 1
    return vs


def sessions(rng, quick):
    """list of (disk {file idx: Variant}, ops [(file idx, Variant)])"""
    out = []
    leaf = [Variant(100, (), True), Variant(101, (), False), Variant(102, (), True, syn=True)]
    roots = [Variant(110, (1,), False), Variant(111, (1, 2), True), Variant(112, (), True), Variant(113, (2,), False, syn=True)]
    mids = [Variant(120, (2,), True), Variant(121, (), False, syn=True)]
    disk0 = {0: Variant(200, (1,), True), 1: Variant(201, (2,), False), 2: Variant(202, (), True)}
    atoms = [(0, v) for v in roots] + [(1, v) for v in mids + leaf[:1]] + [(2, v) for v in leaf[1:]]
    maxlen = 3 if quick else 4
    for n in range(1, maxlen + 1):
        for combo in itertools.product(atoms, repeat=n):
            if n == maxlen and rng.random() > (0.25 if quick else 0.3):
                continue
            out.append((disk0, list(combo)))
    for _ in range(60 if quick else 5000):
        n = rng.randrange(4, 8)
        out.append((disk0, [rng.choice(atoms) for _ in range(n)]))
    # include cycles through the touched document (self-include, a <-> b, a -> b -> c -> a), on disk from the start or closed
    # by an edit: the touched document is then also reached as an include of itself
    disk1 = {0: Variant(210, (1,), True), 1: Variant(211, (0,), False), 2: Variant(212, (0,), True)}
    disk2 = {0: Variant(220, (0,), False), 1: Variant(221, (2,), True), 2: Variant(222, (1,), False)}
    cyc = [(0, Variant(130, (0,), True)), (0, Variant(131, (1,), False)), (0, Variant(132, (0, 1), False)), (0, Variant(133, (), True)),
           (1, Variant(140, (0,), True)), (1, Variant(141, (1,), False)), (1, Variant(142, (2,), False)), (1, Variant(143, (0,), False)),
           (2, Variant(150, (0,), False)), (2, Variant(151, (1,), True)), (2, Variant(152, (), False))]
    # a file that is included but neither on disk nor open (until the session opens it): the include does not resolve
    disk3 = {0: Variant(230, (1,), True), 1: Variant(231, (2,), False)}
    for disk in (disk0, disk1, disk2, disk3):
        for n in (1, 2, 3):
            for combo in itertools.product(cyc, repeat=n):
                if n == 3 and rng.random() > (0.04 if quick else 0.5):
                    continue
                if n == 2 and quick and rng.random() > 0.5:
                    continue
                out.append((disk, list(combo)))
        for _ in range(10 if quick else 1500):
            out.append((disk, [rng.choice(cyc + atoms) for _ in range(rng.randrange(4, 8))]))
    # close / reopen histories: a document is edited k times, closed, opened again (its version counter restarts at 1) and
    # edited m more times, as root or as an included file, optionally followed by an edit of the root
    per_file = {0: roots, 1: mids + leaf[:1], 2: leaf[1:]}
    for f in (0, 1, 2):
        for k in (1, 2, 3):
            for m in (1, 2):
                for tail in (False, True):
                    vs = per_file[f]
                    ops = Ops([(0, roots[0])] if f != 0 else [])
                    kinds = [None] * len(ops)
                    for j in range(1 + k):
                        ops.append((f, vs[j % len(vs)]))
                        kinds.append("change" if j else None)
                    ops.append((f, vs[(k + 1) % len(vs)]))
                    kinds.append("reopen")
                    for j in range(m):
                        ops.append((f, vs[(k + 2 + j) % len(vs)]))
                        kinds.append("change")
                    if tail:
                        ops.append((0, roots[1]))
                        kinds.append("change" if (f == 0 or True) else None)
                    ops.kinds = kinds
                    out.append((disk0, ops))
    return out


class Ops(list):
    """op list with an explicit notification kind per op (None: open if new else change; 'change'; 'reopen' = close + open)"""
    kinds = None

    def __getitem__(self, i):
        r = list.__getitem__(self, i)
        if isinstance(i, slice):
            r = Ops(r)
            r.kinds = self.kinds[i] if self.kinds else None
        return r


def reference(disk, ops):
    """reference session model: texts = disk overlaid by open buffers, root = last touched document;
    returns (workspace files, analysed variant per file, buffers)"""
    buffers = {}
    root = None
    for f, v in ops:
        buffers[f] = v
        root = f
    def cur(f):
        return buffers.get(f, disk.get(f))
    seen, todo = [], [root]
    while todo:
        f = todo.pop(0)
        if f in seen or cur(f) is None:
            continue
        seen.append(f)
        todo.extend(cur(f).incs)
    return sorted(seen), {f: cur(f) for f in seen}, buffers


def srv_line(i, disk, ops, extra_reqs=(), jitter=None):
    d = "%s/tmp/sess%d" % (core.BUILD, i)
    script = []
    opened = set()
    kinds = getattr(ops, "kinds", None)
    for j, (f, v) in enumerate(ops):
        kind = kinds[j] if kinds else None
        if kind == "change" and f in opened:
            script.append(["change", FILES[f], v.text])
        elif kind is None and f in opened and (i * 5 + j) % 4 == 1:
            # one didChange with two full-text content changes: a stale text first, the new text last (the last one counts)
            script.append(["change", FILES[f], ["class Stale%d;\n" % j, v.text]])
        elif f in opened and (kind == "reopen" or (kind is None and (i * 7 + j * 3 + f) % 3 == 0)):
            # the editor closes the document and opens it again: versions restart at 1 (the server ignores didClose and the
            # property counts a document that was opened once as open, so the reference is the same)
            script.append(["close", FILES[f]])
            script.append(["open", FILES[f], v.text])
        else:
            script.append(["change" if f in opened else "open", FILES[f], v.text])
        opened.add(f)
    script.append(["idle"])
    ws, _, _ = reference(disk, ops)
    rid = 1
    for f in ws:
        script.append(["req", rid, "documentSymbol", FILES[f]])
        rid += 1
    for r in extra_reqs:
        script.append(["req", rid] + list(r))
        rid += 1
    spec = {"dir": d, "disk": {FILES[f]: v.text for f, v in disk.items()}, "script": script, "timeout_ms": 8000}
    if jitter is not None:
        spec["jitter"] = jitter
    # every second session is driven by a client that announces an editor's full capability set (dynamic registration, every
    # refreshSupport, progress, configuration ...): what the server publishes and answers must not depend on it
    if (len(script) + len(ops)) % 2 == 0:
        spec["caps"] = "full"
    return "srv " + json.dumps(spec), d, ws


def parse_stream(out, d):
    """returns (final view per file idx: (set of Und k, version), per-file version sequence, responses by id, raw)"""
    data = json.loads(out)
    view, versions, resp = {}, {}, {}
    for m in data["msgs"]:
        if m.get("method") == "textDocument/publishDiagnostics":
            uri = m["params"]["uri"]
            name = uri.rsplit("/", 1)[1]
            f = FILES.index(name) if name in FILES else name
            ks = sorted(int(x) for dg in m["params"]["diagnostics"] for x in re.findall(r"Und(\d+)", dg["message"]))
            other = [dg["message"] for dg in m["params"]["diagnostics"] if "Und" not in dg["message"]]
            view[f] = (ks, m["params"].get("version"), other)
            versions.setdefault(f, []).append(m["params"].get("version"))
        elif "id" in m and "method" not in m:
            resp[m["id"]] = m.get("result", m.get("error"))
    return view, versions, resp, data
