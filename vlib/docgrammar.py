"""The documented grammar (regenerated from /repo/syntax.md + rule comments by
translator/extract_grammar.py) as data, the listed deviations of the parser from it, an Earley
recogniser and a sentence generator that work on any such grammar.

A deviation is a named grammar patch.  `restrict` deviations remove documented sentences (the
parser rejects them), `extend` deviations add sentences the documentation does not have (the
parser accepts them).  The C04 check attributes every disagreement between the documented grammar
and the parser to the deviations below; a disagreement none of them explains is a violation.
"""
import copy
import json
import os
import subprocess
import sys

from . import core

JSON = os.path.join(core.BUILD, "docgrammar.json")


def T(k):
    return ["tok", k]


def N(n):
    return ["nt", n]


def S(*xs):
    return ["seq"] + list(xs)


def A(*xs):
    return ["alt"] + list(xs)


def O(x):
    return ["opt", x]


def R(x):
    return ["star", x]


def P(x):
    return ["plus", x]


def regen():
    """run the translator (part of the tie: fails loudly when the documented text cannot be read)"""
    r = subprocess.run([sys.executable, os.path.join(core.ROOT, "translator", "extract_grammar.py"),
                        os.path.join(core.BUILD, "tables.json"),
                        os.path.join(core.ROOT, "lean", "TgModel", "Generated", "DocGrammar.lean"), JSON],
                       capture_output=True, text=True)
    return r.returncode == 0, (r.stdout + r.stderr).strip()


def load():
    with open(JSON) as f:
        d = json.load(f)
    return d


class Grammar:
    def __init__(self, rules, classes, relaxed=()):
        self.rules = rules          # nt -> expr (nested lists)
        self.classes = classes      # terminal class -> kinds
        self.relaxed = tuple(relaxed)
        self._cfg = None
        self._nullable = None
        self._cost = None

    def copy(self):
        return Grammar(copy.deepcopy(self.rules), self.classes, self.relaxed)

    # ---- Earley ---------------------------------------------------------------------------
    def cfg(self):
        if self._cfg is not None:
            return self._cfg
        rules = {}
        counter = [0]

        def fresh(prefix):
            counter[0] += 1
            return "%s#%d" % (prefix, counter[0])

        def conv(e, owner):
            t = e[0]
            if t == "tok":
                return ("t", e[1])
            if t == "nt":
                return e[1]
            n = fresh(owner)
            if t == "seq":
                rules[n] = [tuple(conv(x, owner) for x in e[1:])]
            elif t == "alt":
                rules[n] = [(conv(x, owner),) for x in e[1:]]
            elif t == "opt":
                rules[n] = [(), (conv(e[1], owner),)]
            elif t == "star":
                x = conv(e[1], owner)
                rules[n] = [(), (x, n)]
            elif t == "plus":
                x = conv(e[1], owner)
                rules[n] = [(x,), (x, n)]
            return n
        for nt, e in self.rules.items():
            rules[nt] = [(conv(e, nt),)]
        self._cfg = rules
        return rules

    def nullable(self):
        if self._nullable is None:
            Rl = self.cfg()
            nl = set()
            changed = True
            while changed:
                changed = False
                for nt, alts in Rl.items():
                    if nt in nl:
                        continue
                    for rhs in alts:
                        if all((not isinstance(x, tuple)) and x in nl for x in rhs):
                            nl.add(nt)
                            changed = True
                            break
            self._nullable = nl
        return self._nullable

    def tok_match(self, k, kind):
        if k in self.classes:
            return kind in self.classes[k]
        return kind == k

    def accepts(self, kinds, start="SourceFile"):
        Rl = self.cfg()
        NL = self.nullable()
        n = len(kinds)
        chart = [set() for _ in range(n + 1)]
        for rhs in Rl[start]:
            chart[0].add((start, rhs, 0, 0))
        for i in range(n + 1):
            work = list(chart[i])
            while work:
                lhs, rhs, dot, org = work.pop()
                if dot < len(rhs):
                    sym = rhs[dot]
                    if isinstance(sym, tuple):
                        if i < n and self.tok_match(sym[1], kinds[i]):
                            chart[i + 1].add((lhs, rhs, dot + 1, org))
                    else:
                        for r2 in Rl[sym]:
                            it = (sym, r2, 0, i)
                            if it not in chart[i]:
                                chart[i].add(it)
                                work.append(it)
                        if sym in NL:
                            it = (lhs, rhs, dot + 1, org)
                            if it not in chart[i]:
                                chart[i].add(it)
                                work.append(it)
                else:
                    for (l2, r2, d2, o2) in list(chart[org]):
                        if d2 < len(r2) and r2[d2] == lhs:
                            it = (l2, r2, d2 + 1, o2)
                            if it not in chart[i]:
                                chart[i].add(it)
                                work.append(it)
            if i < n and not chart[i + 1]:
                return False
        return any(l == start and d == len(r) and o == 0 for (l, r, d, o) in chart[n])

    # ---- generation -----------------------------------------------------------------------
    def costs(self):
        if self._cost is not None:
            return self._cost
        INF = 10 ** 9
        cost = {n: INF for n in self.rules}

        def c(e):
            t = e[0]
            if t == "tok":
                return 1
            if t == "nt":
                return cost[e[1]]
            if t == "seq":
                return sum(c(x) for x in e[1:])
            if t == "alt":
                return min(c(x) for x in e[1:])
            if t in ("opt", "star"):
                return 0
            if t == "plus":
                return c(e[1])
        changed = True
        while changed:
            changed = False
            for n, e in self.rules.items():
                v = c(e)
                if v < cost[n]:
                    cost[n] = v
                    changed = True
        self._cost = (cost, c)
        return self._cost

    def gen(self, rng, expr, budget, out, cover=None, path=()):
        t = expr[0]
        _, ecost = self.costs()
        if t == "tok":
            kind = expr[1]
            if kind in self.classes:
                kind = rng.choice(self.classes[kind])
            out.append(kind)
        elif t == "nt":
            self.gen(rng, self.rules[expr[1]], budget - 1, out, cover, (expr[1],))
        elif t == "seq":
            for i, x in enumerate(expr[1:]):
                self.gen(rng, x, budget, out, cover, path + (i,))
        elif t == "alt":
            idx = list(range(1, len(expr)))
            if budget <= 0:
                m = min(ecost(expr[i]) for i in idx)
                idx = [i for i in idx if ecost(expr[i]) == m]
            i = rng.choice(idx)
            if cover is not None:
                cover.add(path + ("alt", i))
            self.gen(rng, expr[i], budget, out, cover, path + ("a%d" % i,))
        elif t == "opt":
            take = budget > 0 and rng.random() < 0.5
            if cover is not None:
                cover.add(path + ("opt", take))
            if take:
                self.gen(rng, expr[1], budget, out, cover, path + ("o",))
        elif t == "star":
            n = 0 if budget <= 0 else rng.choice([0, 1, 1, 2, 3])
            if cover is not None:
                cover.add(path + ("star", min(n, 2)))
            for _ in range(n):
                self.gen(rng, expr[1], budget - 1, out, cover, path + ("s",))
        elif t == "plus":
            n = 1 if budget <= 0 else rng.choice([1, 1, 2, 3])
            if getattr(self, "_zero_plus", None) == path:
                n = 0        # deliberately below the lower bound of the repetition (a non-sentence unless derivable otherwise)
            if cover is not None:
                cover.add(path + ("plus", min(n, 2)))
            for _ in range(n):
                self.gen(rng, expr[1], budget - 1, out, cover, path + ("p",))

    def plus_paths(self):
        return sorted({p[:-2] for p in self.choice_points() if len(p) >= 2 and p[-2] == "plus"})

    def sentence_without(self, rng, plus_path, budget=6):
        """a sentence in which the repetition at `plus_path` (an `X+`) is expanded zero times, wrapped so that the rule is reached"""
        self._zero_plus = plus_path
        try:
            for _ in range(200):
                cover = set()
                out = self.sentence(rng, "SourceFile", budget, cover)
                # the forced repetition was reached iff its path shows up in the cover set with count key
                if any(c[:-2] == plus_path for c in cover if len(c) >= 2 and c[-2] == "plus"):
                    return out
            return None
        finally:
            self._zero_plus = None

    def sentence(self, rng, nt="SourceFile", budget=8, cover=None):
        out = []
        self.gen(rng, N(nt), budget, out, cover, (nt,))
        return out

    def choice_points(self):
        """all (path, outcome) pairs `cover` can contain: every alternative of every rule, every option taken and not
        taken, every repetition 0 / 1 / many times"""
        pts = set()

        def walk(e, path):
            t = e[0]
            if t == "seq":
                for i, x in enumerate(e[1:]):
                    walk(x, path + (i,))
            elif t == "alt":
                for i in range(1, len(e)):
                    pts.add(path + ("alt", i))
                    walk(e[i], path + ("a%d" % i,))
            elif t == "opt":
                pts.add(path + ("opt", True))
                pts.add(path + ("opt", False))
                walk(e[1], path + ("o",))
            elif t == "star":
                for n in (0, 1, 2):
                    pts.add(path + ("star", n))
                walk(e[1], path + ("s",))
            elif t == "plus":
                for n in (1, 2):
                    pts.add(path + ("plus", n))
                walk(e[1], path + ("p",))
        for nt, e in self.rules.items():
            walk(e, (nt,))
        return pts


def relax_trailing(g):
    """the property's relaxation: a trailing separator is allowed in bracketed lists — every `X ( "," X )*` directly
    followed by a closing bracket may be followed by one more ","."""
    g = g.copy()
    closers = ("RSquare", "RBrace", "RParen", "Greater")

    def is_list(e):
        return (e[0] == "seq" and len(e) == 3 and e[2][0] == "star" and e[2][1][0] == "seq" and len(e[2][1]) == 3
                and e[2][1][1] == T("Comma") and e[2][1][2] == e[1])

    list_nts = set()
    for nt, e in g.rules.items():
        body = e[1] if e[0] == "opt" else e
        if is_list(body):
            list_nts.add(nt)

    def walk(e):
        if e[0] == "seq":
            xs = e[1:]
            out = []
            for i, x in enumerate(xs):
                nxt = xs[i + 1] if i + 1 < len(xs) else None
                inner = x[1] if x[0] == "opt" else x
                listy = is_list(inner) or (inner[0] == "nt" and inner[1] in list_nts)
                # the same list written inline in a longer sequence: `... X ( "," X )* ")"`
                inline = (i > 0 and x[0] == "star" and x[1][0] == "seq" and len(x[1]) == 3 and x[1][1] == T("Comma") and x[1][2] == xs[i - 1])
                if (listy or inline) and nxt is not None and nxt[0] == "tok" and nxt[1] in closers:
                    out.append(walk(x))
                    out.append(O(T("Comma")))
                else:
                    out.append(walk(x))
            return ["seq"] + out
        if e[0] in ("alt",):
            return [e[0]] + [walk(x) for x in e[1:]]
        if e[0] in ("opt", "star", "plus"):
            return [e[0], walk(e[1])]
        return e
    g.rules = {nt: walk(e) for nt, e in g.rules.items()}
    return g


# ------------------------------------------------------------------------------- deviations
def _set(g, nt, e):
    g.rules[nt] = e


def _replace(e, old, new):
    if e == old:
        return copy.deepcopy(new)
    if e[0] in ("tok", "nt"):
        return e
    return [e[0]] + [_replace(x, old, new) for x in e[1:]]


def dev_dag_operator(g):
    # dag(): the token after "(" must be Id, !cast, ? or !getdagop
    cast = S(T("CASTOP"), O(S(T("Less"), N("Type"), T("Greater"))), T("LParen"), N("ValueList"), T("RParen"))
    g.classes = dict(g.classes, CASTOP=["XCast", "XGetDagOp"])
    _set(g, "DagOpSimple", A(N("Identifier"), N("ClassValue"), N("Uninitialized"), cast))
    _set(g, "DagOpValue", S(S(N("DagOpSimple"), R(N("ValueSuffix"))), R(S(T("Paste"), N("InnerValue")))))
    _set(g, "DagOp", S(N("DagOpValue"), O(S(T("Colon"), T("VarName")))))
    g.rules["Dag"] = _replace(g.rules["Dag"], S(T("LParen"), N("DagArg"), O(N("DagArgList")), T("RParen")),
                              S(T("LParen"), N("DagOp"), O(N("DagArgList")), T("RParen")))


def dev_name_brace(g):
    # object_name(): a '{' after "def"/"defm" starts the body; inner_name_value(): no '{' suffix on a name
    sv = g.rules["SimpleValue"]
    assert sv[0] == "alt" and N("Bits") in sv
    _set(g, "SimpleValueNoBits", ["alt"] + [x for x in sv[1:] if x != N("Bits")])
    name_suffix = A(N("SliceSuffix"), N("FieldSuffix"))
    _set(g, "InnerValue_NameMode", S(N("SimpleValue"), R(name_suffix)))
    _set(g, "InnerValue_NameFirst", S(N("SimpleValueNoBits"), R(name_suffix)))
    _set(g, "Value_NameMode", S(N("InnerValue_NameFirst"), R(S(T("Paste"), N("InnerValue_NameMode")))))


def dev_range_second_int(g):
    # range_piece(): `Integer Integer` (the lexed form of "1-2") only when the second token is IntVal
    g.rules["RangePiece"] = _replace(g.rules["RangePiece"], S(N("Integer"), N("Integer")), S(N("Integer"), T("IntVal")))


def dev_slice_second_int(g):
    g.rules["SliceElement"] = _replace(g.rules["SliceElement"], S(N("Value"), N("Integer")), S(N("Value"), T("IntVal")))


def dev_foreach_init(g):
    # foreach_iterator_init(): '{' always starts a range list, IntVal always a range piece; everything else is a value
    sv = g.rules["SimpleValue"]
    _set(g, "SimpleValueFI", ["alt"] + [x for x in sv[1:] if x not in (N("Bits"), N("Integer"))] + [T("BinaryIntVal")])
    _set(g, "ValueFI", S(S(N("SimpleValueFI"), R(N("ValueSuffix"))), R(S(T("Paste"), N("InnerValue")))))
    _set(g, "RangePieceFI", A(T("IntVal"), S(T("IntVal"), T("DotDotDot"), N("Integer")), S(T("IntVal"), T("Minus"), N("Integer")),
                              S(T("IntVal"), T("IntVal"))))
    _set(g, "ForeachIteratorInit", A(S(T("LBrace"), N("RangeList"), T("RBrace")), N("RangePieceFI"), N("ValueFI")))


def dev_multiclass_empty(g):
    g.rules["MultiClass"] = _replace(g.rules["MultiClass"], P(N("MultiClassStatement")), R(N("MultiClassStatement")))


def dev_list_type_suffix(g):
    g.rules["List"] = S(g.rules["List"], O(S(T("Less"), N("Type"), T("Greater"))))


def dev_string_concat(g):
    g.rules["String"] = P(T("StrVal"))


def dev_type_code(g):
    g.rules["Type"] = A(g.rules["Type"], N("CodeType"))


def dev_empty_value_list(g):
    g.rules["ValueList"] = O(g.rules["ValueList"])


def dev_positional_after_named(g):
    pos, named = N("PositionalArgValue"), N("NamedArgValue")
    g.rules["ArgValueList"] = O(A(S(pos, R(S(T("Comma"), pos)), R(S(T("Comma"), named))), S(named, R(S(T("Comma"), named)))))


RESTRICT = "restrict"
EXTEND = "extend"
WITNESS = {
    "dag-operator": "def d { dag a = (1 2); }",
    "def-name-brace": "def x{1};",
    "range-second-integer": "def d { int a = x{1 0b1}; }",
    "slice-second-integer": "def d { int a = x[1 0b1]; }",
    "foreach-init-lookahead": "foreach i = {a, b} in def d;",
    "positional-after-named": "def d : A<x = 1, 2>;",
    "list-type-suffix": "def d { list<int> a = [1, 2]<int>; }",
    "string-concat": "def d { string a = \"a\" \"b\"; }",
    "type-code": "class A<code c>;",
    "empty-value-list": "def d { list<int> a = []; }"
}
DEVIATIONS = [
    ("dag-operator", RESTRICT, dev_dag_operator,
     "the documented Dag rule allows any DagArg as operator; the parser (like llvm-tblgen) requires the token after '(' to be an identifier, !cast, ? or !getdagop: `(1 2)` and `($a $b)` are rejected"),
    ("def-name-brace", RESTRICT, dev_name_brace,
     "`def`/`defm` names are documented as Value; the parser treats '{' after the keyword or after a name as the start of the body, so a name can neither be nor end in a bit-range `{...}`: `def x{1};` is rejected"),
    ("range-second-integer", RESTRICT, dev_range_second_int,
     "`RangePiece ::= Integer Integer` (the lexed form of `1-2`): the parser only continues when the second token is a decimal/hex integer, `{1 0b1}` is rejected"),
    ("slice-second-integer", RESTRICT, dev_slice_second_int,
     "`SliceElement ::= Value Integer`: the parser only continues when the second token is a decimal/hex integer, `x[1 0b1]` is rejected"),
    ("foreach-init-lookahead", RESTRICT, dev_foreach_init,
     "ForeachIteratorInit is decided on one token: '{' always starts a range list and a decimal/hex integer a range piece, so `foreach i = {a, b} in` (a bits value), `foreach i = 1 # 2 in` and `foreach i = 0b1...3 in` are rejected"),
    ("positional-after-named", RESTRICT, dev_positional_after_named,
     "ArgValueList is documented as any mix of positional and named arguments; the parser (like llvm-tblgen) reports a positional argument that follows a named one: `A<x = 1, 2>`"),
    ("list-type-suffix", EXTEND, dev_list_type_suffix,
     "the parser accepts an element type after a list literal, `[1, 2]<int>` (valid TableGen, missing from the documented List rule)"),
    ("string-concat", EXTEND, dev_string_concat,
     "the parser accepts adjacent string literals as one String, `\"a\" \"b\"` (valid TableGen, missing from the documented String rule)"),
    ("type-code", EXTEND, dev_type_code,
     "`code` is documented only as a whole field type (CodeType); the parser accepts it wherever a Type is expected, e.g. `list<code>` or `class A<code c>`"),
    ("empty-value-list", EXTEND, dev_empty_value_list,
     "`ValueList ::= Value ( \",\" Value )*` is never empty; the parser accepts `[]`, `{}` and `!op()`"),
]


def doc_grammar():
    d = load()
    return Grammar(d["rules"], d["classes"]), d


def with_deviations(g, names):
    g2 = g.copy()
    g2.classes = dict(g.classes)
    for name, _kind, fn, _desc in DEVIATIONS:
        if name in names:
            fn(g2)
    g2._cfg = g2._nullable = g2._cost = None
    return g2
