"""Drives the repository's own `lsp` binary over stdio: initialize, open one document, send a
burst of requests back to back, count the responses that arrive within the timeout."""
import json
import os
import select
import shutil
import subprocess
import time


def burst(binary, n, cpus=None, timeout=6.0):
    cmd = [binary]
    if cpus is not None and shutil.which("taskset"):
        cmd = ["taskset", "-c", cpus] + cmd
    p = subprocess.Popen(cmd, stdin=subprocess.PIPE, stdout=subprocess.PIPE, stderr=subprocess.DEVNULL)

    def frame(v):
        s = json.dumps(v).encode()
        return b"Content-Length: %d\r\n\r\n" % len(s) + s
    try:
        p.stdin.write(frame({"jsonrpc": "2.0", "id": 0, "method": "initialize", "params": {"capabilities": {}, "processId": None}}))
        p.stdin.write(frame({"jsonrpc": "2.0", "method": "initialized", "params": {}}))
        p.stdin.write(frame({"jsonrpc": "2.0", "method": "textDocument/didOpen", "params": {"textDocument": {
            "uri": "file:///nonexistent-verif/a.td", "languageId": "tablegen", "version": 1, "text": "class A;\ndef d : A;\n"}}}))
        p.stdin.flush()
        time.sleep(0.3)
        msgs = b"".join(frame({"jsonrpc": "2.0", "id": i, "method": "textDocument/hover", "params": {
            "textDocument": {"uri": "file:///nonexistent-verif/a.td"}, "position": {"line": 1, "character": 8}}}) for i in range(1, n + 1))
    except BrokenPipeError:
        p.kill()
        return -1
    # write the burst and read the answers concurrently (a client that stops reading while it writes would
    # fill both pipes and block itself)
    wfd = p.stdin.fileno()
    fd = p.stdout.fileno()
    os.set_blocking(fd, False)
    os.set_blocking(wfd, False)
    data = b""
    t0 = time.time()
    got = 0
    sent = 0
    while time.time() - t0 < timeout:
        r, w, _ = select.select([fd], [wfd] if sent < len(msgs) else [], [], 0.1)
        if w:
            try:
                sent += os.write(wfd, msgs[sent:sent + (1 << 16)])
            except BlockingIOError:
                pass
            except BrokenPipeError:
                break
        if r:
            try:
                chunk = os.read(fd, 1 << 20)
            except BlockingIOError:
                chunk = b""
            data += chunk
        got = data.count(b'"result"') - 1   # minus the initialize response
        if got >= n:
            break
    p.kill()
    return got
