"""Hand-written well-formed TableGen programs for C13's first sentence ("a well-formed program of the supported core
produces no diagnostics at all"), covering idioms outside what the scope-tracking generator writes: bit ranges, encodings,
defm with class parents, records created by defm, forward declarations, paste, casts, dags, list and string operators.

Every program is audited with llvm-tblgen (LLVM 14) when it is installed: a program llvm-tblgen rejects is not used as an
oracle (it is counted as `rejected_by_tblgen` in the evidence).  For the others: the implementation must report nothing,
and model and implementation must agree.  Programs that currently draw a false diagnostic are listed findings
(signature C13|false-diagnostic|<name>)."""
import json
import os
import subprocess

from . import core

PROGRAMS = {
    # --- records created by a defm (known finding: the indexer does not instantiate them)
    "defm_record_use": 'class B0; multiclass M { def _x : B0; } defm dm : M; def u { B0 r = dm_x; }',
    "defm_in_multiclass": 'class B0; multiclass M1 { def _a : B0; } multiclass M2 { defm _i : M1; def _b : B0; } defm top : M2; def u { B0 r = top_i_a; B0 s = top_b; }',
    # --- a class declared first and defined later (known finding: two distinct class symbols)
    "forward_class": 'class B; class A { B b; } class B { int x = 1; } def bb : B; def aa : A { let b = bb; }',
    # --- bit ranges and encodings
    "bit_ops": 'def u { bits<4> b = {1,0,1,0}; bit x = b{0}; bits<2> y = b{1...0}; bits<3> z = b{3, 1-0}; int s = !shl(1, 2); bit q = !and(1, 0); }',
    "bits_init": 'class I { bits<16> Inst; bits<4> rd; let Inst{3-0} = rd; let Inst{15-4} = 0; } def i : I { let rd = 3; }',
    "let_bits": 'class I { bits<8> enc; } def i1 : I { let enc{3-0} = 5; let enc{7...4} = 0b1010; let enc{0} = 1; }',
    "encoding": ('class Inst<bits<4> opc, string asm> { bits<16> Enc; bits<4> rd; bits<4> rs; let Enc{15-12} = opc; let Enc{11-8} = rd; '
                 'let Enc{7-4} = rs; let Enc{3-0} = 0; string Asm = asm; }\ndef ADD : Inst<0b0001, "add">; def SUB : Inst<2, "sub"> { let rd = 1; }'),
    "range_let_inherited": ('class Inst { bits<8> Encoding; bits<4> Low; }\nclass RR : Inst { let Encoding{7-6} = 0b11; let Encoding{0} = 1; }\n'
                            'def ADD : RR { let Encoding = {1,1,0,0,0,0,0,1}; }\nclass Alias : RR { bits<8> Copy = Encoding; }\nclass RRI : RR; def SUB : RRI { let Encoding{3-0} = Low; }'),
    "def_typed_join": ('class Base; class A : Base; class B : Base; def a1 : A; def a2 : A; def b1 : B;\ndef u { A r = !if(1, a1, a2); list<A> l = !listconcat([a1], [a2]); '
                       'list<Base> m = !listconcat([a1], [b1]); Base v = !if(0, a1, Base<>); list<Base> n = !listconcat([a1], [Base<>]); }'),
    "bits_concat": 'class E<bits<2> x, bits<3> y> { bits<4> b = { x{1-0}, 1, 0 }; bits<4> c = { x, 0b10 }; bits<8> d = { y, x, 0b101 }; bits<2> e = { 0b1, 0 }; } def e : E<1, 2>;',
    "list_paste": 'def u { list<int> lp = [1] # [2, 3]; list<string> ls = ["a"] # ["b"]; string s = "a" # "b"; }',
    "bits_of_bits": 'class E<bits<8> v> { bits<8> val = v; bits<4> hi = v{7-4}; bits<4> lo = v{3...0}; bit top = v{7}; } def e : E<0xa5>;',
    "bits_literal_fields": 'class R<bits<3> n> { bits<5> HWEncoding; let HWEncoding{2-0} = n; let HWEncoding{4-3} = 0b11; } def r0 : R<0>;',
    # --- defm with classes after the multiclasses
    "defm_multi_parent": 'class A { int f = 0; } class Tag { int t = 1; } multiclass M { def _a : A; } defm m : M, Tag;',
    "defm_class_targs": 'class A; class Sched<int lat> { int Latency = lat; } multiclass M<int p> { def _a : A; } defm m : M<1>, Sched<3>; multiclass N { def _n : A; } defm n : M<2>, N, Sched<4>;',
    # --- the rest of the core
    "field_access_def": 'class C<int n> { int v = n; } def X : C<3>; def u { int w = X.v; }',
    "field_access_targ": 'class A { int f = 1; } class B<A a> { int g = a.f; } def x : A; def y : B<x>;',
    "foreach_range": 'foreach i = {1-3} in def r#i; foreach j = 0...2 in def s#j { int v = j; }',
    "defset_use": 'class A; defset list<A> S = { def a1 : A; def a2 : A; } def u { list<A> l = S; int n = !size(S); }',
    "multiclass_inherit": 'class A<int n> { int v = n; } multiclass M1<int p> { def _a : A<p>; } multiclass M2<int q> : M1<q> { def _b : A<!add(q, 1)>; } defm d : M2<1>;',
    "NAME_use": 'class A<string s> { string t = s; } multiclass M { def _x : A<NAME>; def NAME#_y : A<"k">; } defm foo : M;',
    "cast": 'class A { int f = 1; } def a : A; def u { A r = !cast<A>("a"); int g = !cast<A>("a").f; }',
    "paste": 'class A<string s> { string t = s; } def pre_post : A<"a" # "b">; defvar n = "x"; def u { string z = n # "_" # n; }',
    "list_ops": 'def u { list<int> l = [1,2,3]; int h = !head(l); list<int> t = !tail(l); list<int> c = !listconcat(l, [4]); int e = l[0]; list<int> sl = l[0...1]; }',
    "dag": 'def ins; def outs; class I { dag i = (ins); dag o = (outs); } def R; def x : I { let i = (ins R:$a, R:$b); let o = !con((outs), (outs R:$d)); }',
    "if_stmt": 'defvar c = 1; if !eq(c, 1) then { def yes; } else { def no; } if c then def t1;',
    "cond": 'class A<int n> { string s = !cond(!lt(n, 0): "neg", !eq(n, 0): "zero", true: "pos"); } def a : A<1>;',
    "foldl": 'def u { list<int> l = [1,2]; int s = !foldl(0, l, acc, x, !add(acc, x)); list<string> m = !foreach(x, l, !cast<string>(x)); list<int> f = !filter(x, l, !gt(x, 1)); }',
    "class_value": 'class P<int a, int b = 2> { int s = !add(a, b); } def u { P p = P<1>; int r = P<1, 3>.s; }',
    "let_in": 'class A { int f = 0; string g = ""; } let f = 1 in { def a : A; let g = "x" in def b : A; }',
    "multi_parent": 'class A { int a = 1; } class B { int b = 2; } class C : A, B { int c = !add(a, b); } def d : C { let a = 3; }',
    "assert": 'class A<int n> { assert !gt(n, 0), "pos"; int v = n; } def a : A<1>; assert !eq(1, 1), "ok";',
    "dot_name": 'class A; def a_b : A; def "quoted" : A; def u { A x = a_b; }',
    "isa_ops": 'class A; class B : A; def b : B; def u { bit i = !isa<A>(b); string e = !empty([]<int>) # ""; int sz = !size("abc"); string sub = !substr("abcd", 1, 2); }',
    "multiclass_let": 'class A { int f = 0; } multiclass M<int p> { let f = p in def _a : A; def _b : A { let f = !add(p, 1); } } defm m : M<1>;',
    "def_inherit_targs": 'class A<int x, string s = "d"> { int v = x; string w = s; } class B<int y> : A<y, "b">; def d : B<1> { let v = 2; }',
    "list_of_class": 'class A { int f = 1; } def a1 : A; def a2 : A; def u { list<A> l = [a1, a2]; int g = l[0].f; list<int> fs = !foreach(x, l, x.f); }',
    "string_ops": 'def u { string a = !strconcat("a", "b"); int f = !find("abc", "b"); string i = !interleave(["a","b"], ","); }',
    "regclass": ('class Register<string n> { string Name = n; int Cost = 1; }\nclass RegisterClass<list<Register> regs> { list<Register> Members = regs; int Size = !size(regs); }\n'
                 'def R0 : Register<"r0">; def R1 : Register<"r1">;\ndef GPR : RegisterClass<[R0, R1]>;\ndef u { Register first = !head(GPR.Members); string nm = GPR.Members[1].Name; }'),
    "pattern": ('def add; def set; class ValueType<int s> { int Size = s; } def i32 : ValueType<32>; class RC { ValueType vt = i32; } def GPR : RC;\n'
                'class Pat<dag p, dag r> { dag Pattern = p; dag Result = r; }\ndef : Pat<(set GPR:$d, (add GPR:$a, GPR:$b)), (add GPR:$a, GPR:$b)>;'),
    # an `!if` / `!cond` whose other branch is "nothing" (`?`, `[]`): the result has the type of the branch that says something
    "if_or_nothing": ('class Reg<int n> { int Num = n; }\ndef R0 : Reg<0>; def R1 : Reg<1>;\ndefvar enabled = 1;\n'
                      'def u { Reg first = !if(enabled, R0, ?); Reg second = !if(enabled, ?, R1); list<int> l = !if(enabled, [1, 2], []); list<int> m = !if(enabled, [], [3]); '
                      'string s = !if(enabled, "a", ?); }\n'
                      'defvar pick = !if(enabled, R1, R0);\ndef Alias : Reg<pick.Num>;\ndefvar chosen = !if(enabled, [R0, R1], []<Reg>);\nforeach r = chosen in { def X#r.Num : Reg<r.Num>; }'),
    # two records meet in the first DIRECT parent of the first that the second derives from, before any ancestor of an earlier
    # parent is considered (no class is inherited twice: llvm-tblgen rejects diamonds)
    "common_class_second_parent": ('class R1; class P1 : R1; class P2 { int p = 2; } class P3 : R1;\ndef A : P1, P2;\ndef B : P2, P3;\n'
                                   'class Use<bit c> { P2 x = !if(c, A, B); P2 y = !if(c, B, A); int z = !if(c, A, B).p; }\n'
                                   'def L { list<P2> l = [A, B]; list<P2> m = [B, A]; list<P2> n = !listconcat([A], [B]); }\n'
                                   'class Hold<int v> { int h = v; }\nforeach d = [A, B] in def : Hold<d.p>;'),
    "common_class_two_levels": ('class R1; class M1 : R1; class L1 : M1; class Q { int q = 1; } class M3 : R1;\ndef a : L1, Q; def b : Q, M3;\n'
                                'def u { Q x = !if(1, a, b); int y = !if(1, a, b).q; list<Q> l = [a, b]; }'),
    # the type of `!cast<T>(x)` is T, whatever x was
    "cast_is_its_annotation": ('class Enc<bits<4> lo, int i> { bits<8> wide = !cast<int>(lo); int back = !cast<int>(wide); }\n'
                               'class Two<bits<4> a, bits<8> b> { list<int> l = [!cast<int>(a), !cast<int>(b)]; int s = !add(!cast<int>(a), !cast<int>(b)); }\n'
                               'def e : Enc<3, 2>; def t : Two<1, 2>;'),
    "named_targs": 'class A<int x, int y = 2, string z = "q"> { int s = !add(x, y); string t = z; } def a : A<1>; def b : A<1, 3>; def c : A<1, 3, "w">;',
    "nested_foreach": 'class A<int i, int j> { int s = !mul(i, j); } foreach i = [1, 2] in foreach j = [3, 4] in def p#i#_#j : A<i, j>;',
    "defvar_scopes": 'defvar base = 10; class A<int n> { int v = !add(n, base); } foreach i = [1,2] in { defvar k = !add(i, base); def d#i : A<k>; }',
    "bit_bool": 'class F { bit isX = false; bit isY = 0; } def f : F { let isX = true; let isY = 1; } def g : F { let isX = !not(f.isX); }',
    "code_field": 'class C { code body = [{ return 1; }]; string s = [{ text }]; } def c : C { let body = "x"; }',
    "list_of_list": 'def u { list<list<int>> ll = [[1, 2], [3]]; list<int> first = ll[0]; int x = ll[1][0]; list<list<int>> e = [[]<int>]; }',
    "uninit": 'class A { int x = ?; string s = ?; bits<4> b = ?; list<int> l = ?; } def a : A { let x = 1; let b{1-0} = ?; }',
    "multiclass_defvar": 'class A<int v> { int val = v; } multiclass M<int p> { defvar twice = !mul(p, 2); def _a : A<twice>; foreach i = [1] in def _b#i : A<!add(twice, i)>; } defm m : M<3>;',
    "if_in_multiclass": 'class A; multiclass M<bit c> { if c then { def _yes : A; } else { def _no : A; } } defm t : M<1>; defm f : M<0>;',
    "include_free_mix": 'class Base<string n> { string Name = n; } class Mid<string n, int w = 8> : Base<n> { int Width = w; } def leaf : Mid<"l"> { let Width = 16; let Name = "leaf"; }',
    "dag_names": 'def op; class D { dag d = (op 1:$a, "s":$b, [1]:$c, ?:$u); } def dd : D { let d = (op); }',
    "getdagop": 'def op; def x { dag d = (op 1, 2); int n = !size(d); }',
    "tail_comma": 'class A<int a, int b> { list<int> l = [a, b,]; } def a : A<1, 2>;',
    "hex_bin": 'def n { int h = 0x1F; int b = 0b101; int neg = -5; int pos = +7; bits<8> by = 0xff; }',
    "strings": 'def s { string a = "plain"; string e = "a\\"b\\\\c\\n\\t"; string multi = "a" "b"; string u = "café \U0001F600"; }',
}
KNOWN_FALSE = {"defm_record_use", "defm_in_multiclass", "forward_class"}

# programs with exactly one fault that llvm-tblgen rejects: at least one diagnostic must cover the marked site «…»
FAULTY = {
    "range_let_then_narrow_whole_let": 'class Inst { bits<8> Encoding; }\nclass RR : Inst { let Encoding{3-0} = 0b1111; }\ndef ADD : RR { let Encoding = «{1,0,1,0}»; }',
    "range_let_two_levels_down": 'class Inst { bits<8> Encoding; bits<4> Low; }\nclass RR : Inst { let Encoding{3-0} = Low; }\nclass RRI : RR;\ndef ADD : RRI { let Encoding = «Low»; }',
    "bits_literal_too_wide": 'class A<bits<2> x> { bits<3> bad = «{ x, 0b10 }»; }\ndef a : A<1>;',
    "list_paste_wrong_element": 'def u { list<string> bad = «[1] # [2]»; }',
    "if_unrelated_records": 'class B; class Z; def b1 : B; def z1 : Z; def u { B bad = !if(1, b1, «z1»); }',
    "defm_class_argument_type": 'class A; class Tag<int n> { int t = n; } multiclass M { def _a : A; } defm k : M, Tag<«"s"»>;',
    "defm_first_parent_is_a_class": 'class A; class Tag<int n> { int t = n; } defm q : «Tag»<1>;',
    "range_let_wrong_type": 'class I { bits<16> Inst; let Inst{3...0} = «"s"»; }',
    "if_or_nothing_list_type": 'defvar c = 1; def u { list<string> xs = !if(c, «[1, 2]», []); }',
    "if_or_nothing_scalar_type": 'defvar c = 1; def u { string n = !if(c, «3», ?); }',
    "nothing_or_if_list_type": 'defvar c = 1; def u { list<string> xs = !if(c, [], «[1, 2]»); }',
    "if_or_nothing_template_argument": 'defvar c = 1; class Takes<list<int> xs> { list<int> v = xs; } def t : Takes<!if(c, «["a", "b"]», [])>;',
    "if_derived_or_base": 'class B; class D : B; def d1 : D; def b1 : B; def u { D bad = «!if(1, d1, b1)»; }',
    "if_base_or_derived": 'class B; class D : B; def d1 : D; def b1 : B; def u { D bad = «!if(1, b1, d1)»; }',
    "cast_narrower_bits": 'class F<int i> { bits<8> g = «!cast<bits<4> >(i)»; } def f : F<1>;',
    "cast_list_of_other_element": 'def u { list<string> names = «!cast<list<int> >([]<int>)»; }',
    "named_argument_hides_a_missing_one": 'class C<int a, int b = 0> { int x = a; } def d : «C<b = 1>»;',
    "named_argument_behind_a_gap": 'class C<int a, int b, int c = 0> { int x = a; int y = b; } def d : «C<1, c = 2>»;',
    "named_argument_hides_a_missing_one_in_defm": 'multiclass M<int a, int b = 0> { def _x { int v = a; } } defm m : «M<b = 3>»;',
    "bit_range_too_narrow": 'def u { bits<4> b = {1,0,1,0}; bits<2> w = «b{3...0}»; }',
}


def tblgen_accepts(text, name):
    exe = "/usr/bin/llvm-tblgen"
    if not os.path.exists(exe):
        return None
    d = os.path.join(core.BUILD, "tmp", "validcorpus")
    os.makedirs(d, exist_ok=True)
    p = os.path.join(d, name + ".td")
    with open(p, "w", encoding="utf-8") as f:
        f.write(text + "\n")
    try:
        r = subprocess.run([exe, p], stdout=subprocess.DEVNULL, stderr=subprocess.PIPE, timeout=30)
    except Exception:
        return None
    return r.returncode == 0


def check(ck):
    names = sorted(PROGRAMS)
    audit = {n: tblgen_accepts(PROGRAMS[n], n) for n in names}
    used = [n for n in names if audit[n] is not False]
    lines = ["ws " + json.dumps({"files": {"/main.td": PROGRAMS[n] + "\n"}, "root": "/main.td", "queries": [["diagnostics"]]}) for n in used]
    a = core.impl(lines, tag="vci")
    b = core.model(lines, tag="vcm")
    ndiff = 0
    for n, x, y in zip(used, a, b):
        if x != y:
            ndiff += 1
            if ndiff <= 3:
                ck.broke("correspondence", {"stream": "valid_corpus", "case": n, "impl": x[:400], "model": y[:400]})
        try:
            ds = [d for _, l in json.loads(x)[0] for d in l]
        except Exception:
            ck.fail(["C13", "false-diagnostic", n, "crash"], "query failed on a well-formed program: %s" % x[:100], {"name": n, "text": PROGRAMS[n]}, x[:200], "[]")
            continue
        if ds:
            ck.fail(["C13", "false-diagnostic", n], "well-formed program %r (accepted by llvm-tblgen) draws a diagnostic: %s" % (n, ds[0][3][:90]),
                    {"name": n, "text": PROGRAMS[n]}, json.dumps(ds)[:300], "[]")
    # faulty programs: rejected by llvm-tblgen (audited), at least one diagnostic covers the marked site
    fnames = sorted(FAULTY)
    ftexts = {n: FAULTY[n].replace("\u00ab", "").replace("\u00bb", "") for n in fnames}
    sites = {}
    for n in fnames:
        raw = FAULTY[n]
        lo = len(raw[: raw.index("\u00ab")].encode())
        hi = lo + len(raw[raw.index("\u00ab") + 1: raw.index("\u00bb")].encode())
        sites[n] = (lo, hi)
    faudit = {n: tblgen_accepts(ftexts[n], "faulty_" + n) for n in fnames}
    fused = [n for n in fnames if faudit[n] is not True]
    flines = ["ws " + json.dumps({"files": {"/main.td": ftexts[n] + "\n"}, "root": "/main.td", "queries": [["diagnostics"]]}) for n in fused]
    fa = core.impl(flines, tag="vfi")
    fb = core.model(flines, tag="vfm")
    for n, x, y in zip(fused, fa, fb):
        if x != y:
            ndiff += 1
            if ndiff <= 3:
                ck.broke("correspondence", {"stream": "faulty_corpus", "case": n, "impl": x[:400], "model": y[:400]})
        try:
            ds = [d for _, l in json.loads(x)[0] for d in l]
        except Exception:
            continue
        lo, hi = sites[n]
        if not any((d[1] <= lo and hi <= d[2]) or (lo <= d[1] and d[2] <= hi) for d in ds):
            ck.fail(["C13", "missed-fault", n], "the fault of program %r (rejected by llvm-tblgen) is not reported at its site: %s" % (n, json.dumps(ds)[:120]),
                    {"name": n, "text": ftexts[n], "site": [lo, hi]}, json.dumps(ds)[:300], "a diagnostic covering %d..%d" % (lo, hi))
    ck.count("faulty_corpus", len(fused), set(fused), sample={"name": fused[0], "text": ftexts[fused[0]][:120]} if fused else None)
    ck.cov["streams"]["faulty_corpus"]["accepted_by_tblgen"] = [n for n in fnames if faudit[n] is True]
    ck.count("valid_corpus", len(used), set(used), sample={"name": used[0], "text": PROGRAMS[used[0]][:120]})
    st = ck.cov["streams"]["valid_corpus"]
    st["model_disagreements"] = ndiff
    st["audited_by_llvm_tblgen"] = sum(1 for n in names if audit[n] is True)
    st["rejected_by_tblgen"] = [n for n in names if audit[n] is False]
