"""Orchestrator core: builds, line-protocol runs, proof stage, evidence, verdicts.
stdlib only."""
import contextlib
import fcntl
import hashlib
import json
import os
import random
import re
import subprocess
import sys
import time

ROOT = os.path.dirname(os.path.dirname(os.path.abspath(__file__)))
BUILD = os.path.join(ROOT, ".build")
LEAN = os.path.join(ROOT, "lean")
HARNESS = os.path.join(ROOT, "harness")
REPO = os.environ.get("VERIF_REPO", "/repo")
TGVERIF = os.path.join(BUILD, "cargo", "release", "tgverif")
TGDRIVE = os.path.join(LEAN, ".lake", "build", "bin", "tgdrive")
NCPU = max(1, min(16, os.cpu_count() or 4))
ALLOWED_AXIOMS = {"propext", "Classical.choice", "Quot.sound"}
FORBIDDEN = ["sorry", "admit", "native_decide", "bv_decide", "implemented_by", "unsafe ", "maxHeartbeats 0"]

os.makedirs(BUILD, exist_ok=True)


def hexs(s):
    return s.encode("utf-8").hex()


def log(msg):
    sys.stderr.write(msg + "\n")
    sys.stderr.flush()


@contextlib.contextmanager
def flock(name):
    d = os.path.join(BUILD, "locks")
    os.makedirs(d, exist_ok=True)
    f = open(os.path.join(d, name), "w")
    try:
        fcntl.flock(f, fcntl.LOCK_EX)
        yield
    finally:
        fcntl.flock(f, fcntl.LOCK_UN)
        f.close()


def sh(cmd, cwd=None, timeout=None, env=None):
    e = dict(os.environ)
    e.update({"CARGO_NET_OFFLINE": "true"})
    if env:
        e.update(env)
    try:
        p = subprocess.run(cmd, cwd=cwd, env=e, stdout=subprocess.PIPE, stderr=subprocess.STDOUT,
                           timeout=timeout, shell=isinstance(cmd, str))
        return p.returncode, p.stdout.decode("utf-8", "replace")
    except subprocess.TimeoutExpired as ex:
        return 124, (ex.stdout or b"").decode("utf-8", "replace") + "\nTIMEOUT"


# --------------------------------------------------------------------------- builds

def regen_tables():
    """(T): regenerate Generated/Tables.lean from the current /repo tree."""
    with flock("tables"):
        rc, out = sh([sys.executable, os.path.join(ROOT, "translator", "extract.py"),
                      os.path.join(LEAN, "TgModel", "Generated", "Tables.lean"),
                      os.path.join(BUILD, "tables.json")], env={"VERIF_REPO": REPO})
        if rc == 0:
            # documented grammar (syntax.md + rule comments) and the asts! accessor table (also generates the Rust walker)
            for script, outs in (("extract_grammar.py", [os.path.join(BUILD, "tables.json"), os.path.join(LEAN, "TgModel", "Generated", "DocGrammar.lean"),
                                                         os.path.join(BUILD, "docgrammar.json")]),
                                 ("extract_ast.py", [os.path.join(LEAN, "TgModel", "Generated", "AstTable.lean"),
                                                     os.path.join(HARNESS, "src", "ast_walk_gen.rs"), os.path.join(BUILD, "asttable.json")])):
                rc2, out2 = sh([sys.executable, os.path.join(ROOT, "translator", script)] + outs, env={"VERIF_REPO": REPO})
                out += "\n" + out2
                if rc2 != 0:
                    rc = rc2
                    break
    return rc == 0, out.strip()


def tables():
    with open(os.path.join(BUILD, "tables.json")) as f:
        return json.load(f)


def build_harness():
    with flock("cargo"):
        rc, out = sh(["cargo", "build", "--release", "--features", "verif", "--offline"], cwd=HARNESS, timeout=1500)
    return rc == 0, out


def build_lsp_bin():
    """the repository's own server binary (guard off), for tests that must include main.rs"""
    with flock("cargo-repo"):
        rc, out = sh(["cargo", "build", "--release", "-p", "lsp", "--offline"], cwd=REPO, timeout=1500,
                     env={"CARGO_TARGET_DIR": os.path.join(BUILD, "cargo-repo")})
    return rc == 0, out, os.path.join(BUILD, "cargo-repo", "release", "lsp")


def build_lean(targets):
    with flock("lake"):
        rc, out = sh(["lake", "build"] + list(targets), cwd=LEAN, timeout=3000)
    return rc == 0, out


def strip_lean_comments(src):
    src = re.sub(r"/-.*?-/", "", src, flags=re.S)
    src = re.sub(r"--[^\n]*", "", src)
    return src


def lean_sources():
    out = []
    for d, _, fs in os.walk(os.path.join(LEAN, "TgModel")):
        for f in fs:
            if f.endswith(".lean"):
                out.append(os.path.join(d, f))
    out.append(os.path.join(LEAN, "Driver.lean"))
    return sorted(out)


def forbidden_scan():
    hits = []
    for p in lean_sources():
        with open(p, encoding="utf-8") as f:
            src = strip_lean_comments(f.read())
        for tok in FORBIDDEN:
            if tok in src:
                hits.append("%s: %s" % (os.path.relpath(p, ROOT), tok.strip()))
        if re.search(r"^\s*axiom\s", src, re.M):
            hits.append("%s: axiom" % os.path.relpath(p, ROOT))
    return hits


# property files that belong to a property besides Props/<prop>.lean
EXTRA_PROP_FILES = {"C06": ["C06Index", "C06RefStable"], "C02": ["C02Builder", "C02Fuel"], "C05": ["C05Files", "C05Foreach", "C05Parent"], "C20": ["C20Classes"], "C03": ["C03Sat"], "C13": ["C13If"], "C16": ["C16Ide"], "C07": ["C07Ide"], "C11": ["C11Ide"], "C12": ["C12Ide"]}


def prop_theorems(prop):
    out = _prop_theorems_of(prop)
    for extra in EXTRA_PROP_FILES.get(prop, []):
        out += _prop_theorems_of(extra)
    return out


def _prop_theorems_of(prop):
    p = os.path.join(LEAN, "TgModel", "Props", prop + ".lean")
    with open(p, encoding="utf-8") as f:
        src = strip_lean_comments(f.read())
    ns = re.search(r"^namespace\s+(\S+)", src, re.M)
    prefix = (ns.group(1) + ".") if ns else ""
    return [prefix + m.group(1) for m in re.finditer(r"^theorem\s+(\S+)", src, re.M)]


def proof_stage(prop):
    """Stage A. Returns dict(ok, obligations, discharged, theorems{name: axioms}, detail)."""
    res = {"ok": False, "obligations": 0, "discharged": 0, "theorems": {}, "detail": "", "tables": ""}
    if os.environ.get("VERIF_DEV_SKIP_PROOF"):   # authoring aid only; never set by registered commands
        res.update(ok=True, obligations=1, discharged=0, detail="DEV: proof stage skipped")
        return res
    ok, msg = regen_tables()
    res["tables"] = msg
    if not ok:
        res["detail"] = "translator failed: " + msg
        res["obligations"] = 1
        return res
    thms = prop_theorems(prop)
    res["obligations"] = len(thms)
    mod = "TgModel.Props." + prop
    mods = [mod] + ["TgModel.Props." + e for e in EXTRA_PROP_FILES.get(prop, [])]
    ok, out = build_lean(mods)
    if not ok:
        errs = [l for l in out.splitlines() if "error" in l.lower()]
        res["detail"] = "lake build %s failed: %s" % (mod, " | ".join(errs[:6]))
        res["failed_theorems"] = sorted(set(re.findall(r"Props/%s\.lean:(\d+)" % prop, out)))
        res["build_log"] = out[-4000:]
        return res
    os.makedirs(os.path.join(BUILD, "audit"), exist_ok=True)
    af = os.path.join(BUILD, "audit", prop + ".lean")
    with open(af, "w") as f:
        for m_ in mods:
            f.write("import %s\n" % m_)
        for t in thms:
            f.write("#print axioms %s\n" % t)
    with flock("lake"):
        rc, out = sh(["lake", "env", "lean", af], cwd=LEAN, timeout=900)
    if rc != 0:
        res["detail"] = "audit failed: " + out[-800:]
        return res
    out1 = out.replace("\n  ", " ")
    for t in thms:
        m = re.search(r"'%s' depends on axioms: \[([^\]]*)\]" % re.escape(t), out1)
        if m:
            ax = [a.strip() for a in m.group(1).replace("\n", " ").split(",") if a.strip()]
        elif re.search(r"'%s' does not depend on any axioms" % re.escape(t), out1):
            ax = []
        else:
            ax = ["<unparsed>"]
        res["theorems"][t] = ax
    bad = {t: a for t, a in res["theorems"].items() if not set(a) <= ALLOWED_AXIOMS}
    hits = forbidden_scan()
    res["discharged"] = len(thms) - len(bad)
    if bad:
        res["detail"] = "unaccepted axioms: %s" % bad
    elif hits:
        res["detail"] = "forbidden tokens: %s" % hits
        res["discharged"] = 0
    else:
        res["ok"] = True
    if res["ok"] and TIER == "thorough":
        okc, n, detail = leancheck(mods)
        res["leanchecker"] = {"modules_rechecked": n, "ok": okc}
        if not okc:
            res["ok"] = False
            res["discharged"] = 0
            res["detail"] = "leanchecker rejected a compiled module: " + detail
    return res


TIER = "quick"   # set by ./check


def lean_closure(mods):
    """the modules of this project that `mods` import, transitively (the proofs live in Lemmas/*)"""
    seen, todo = [], list(mods)
    while todo:
        m = todo.pop()
        if m in seen or not m.startswith("TgModel"):
            continue
        path = os.path.join(LEAN, *m.split(".")) + ".lean"
        if not os.path.exists(path):
            continue
        seen.append(m)
        with open(path) as f:
            for line in f:
                mm = re.match(r"\s*(?:public\s+)?import\s+(TgModel[\w.]*)", line)
                if mm:
                    todo.append(mm.group(1))
    return sorted(seen)


def leancheck(mods):
    """thorough tier: Lean's independent re-checker over the compiled property modules and every
    project module they import"""
    import concurrent.futures
    allm = lean_closure(mods)
    chunks = [allm[i::8] for i in range(8) if allm[i::8]]

    def one(ch):
        rc, out = sh(["lake", "env", "leanchecker"] + ch, cwd=LEAN, timeout=3000)
        return rc, out
    with flock("lake"):
        with concurrent.futures.ThreadPoolExecutor(8) as ex:
            results = list(ex.map(one, chunks))
    bad = [out[-400:] for rc, out in results if rc != 0 or "exception" in out.lower() or "error" in out.lower()]
    return (not bad), len(allm), " | ".join(bad)[:1200]


# --------------------------------------------------------------------------- line protocol

def _run_chunk(binary, lines, timeout, tag, env=None):
    """Runs one process over lines; returns list of outputs, with CRASH/HANG markers for lines
    that killed or hung the process (the process is restarted after such a line)."""
    tmp = os.path.join(BUILD, "tmp")
    os.makedirs(tmp, exist_ok=True)
    outs = []
    pos = 0
    rounds = 0
    hangs = 0
    while pos < len(lines):
        rounds += 1
        if hangs >= 2:   # do not burn a timeout per remaining case once the process keeps hanging
            outs.extend(["SKIPPED after repeated hangs"] * (len(lines) - pos))
            break
        inp = os.path.join(tmp, "%s.%d.in" % (tag, os.getpid()))
        outp = os.path.join(tmp, "%s.%d.out" % (tag, os.getpid()))
        with open(inp, "w") as f:
            f.write("\n".join(lines[pos:]) + "\n")
        status = "ok"
        e = dict(os.environ)
        if env:
            e.update(env)
        with open(inp) as fi, open(outp, "w") as fo:
            try:
                p = subprocess.run([binary], stdin=fi, stdout=fo, stderr=subprocess.DEVNULL, timeout=timeout, env=e)
                rc = p.returncode
            except subprocess.TimeoutExpired:
                rc = None
                status = "HANG"
        with open(outp, encoding="utf-8", errors="replace") as f:
            got = f.read().split("\n")
        if got and got[-1] == "":
            got.pop()
        need = len(lines) - pos
        if len(got) >= need:
            outs.extend(got[:need])
            pos = len(lines)
        else:
            outs.extend(got)
            pos += len(got)
            if status == "HANG":
                # the time limit is meant per request, but it was applied to the whole batch: the request that was being
                # served when the batch ran out of time is only a suspect. Serve it alone; it hangs only if it alone does.
                single = _run_single(binary, lines[pos], timeout, tag, e)
                if single is not None:
                    outs.append(single)
                    pos += 1
                    continue
            outs.append("HANG" if status == "HANG" else "CRASH rc=%s" % rc)
            if status == "HANG":
                hangs += 1
            pos += 1
        try:
            os.unlink(inp)
            os.unlink(outp)
        except OSError:
            pass
        if rounds > 2000:
            outs.extend(["ABORTED"] * (len(lines) - pos))
            break
    return outs


def _run_single(binary, line, timeout, tag, env):
    """one request in a process of its own; None if it does not answer within the limit (or the process dies)"""
    try:
        p = subprocess.run([binary], input=(line + "\n").encode(), stdout=subprocess.PIPE, stderr=subprocess.DEVNULL, timeout=timeout, env=env)
    except subprocess.TimeoutExpired:
        return None
    got = p.stdout.decode("utf-8", "replace").split("\n")
    return got[0] if got and got[0] != "" else None


def run_lines(binary, lines, timeout=120, jobs=None, tag="run", env=None):
    """Run the line protocol over `lines` in parallel chunks; order preserved."""
    if not lines:
        return []
    jobs = jobs or NCPU
    jobs = max(1, min(jobs, (len(lines) + 49) // 50))
    if jobs == 1:
        return _run_chunk(binary, lines, timeout, tag, env)
    import concurrent.futures as cf
    n = len(lines)
    size = (n + jobs - 1) // jobs
    chunks = [lines[i:i + size] for i in range(0, n, size)]
    with cf.ThreadPoolExecutor(max_workers=jobs) as ex:
        futs = [ex.submit(_run_chunk, binary, ch, timeout, "%s%d" % (tag, i), env) for i, ch in enumerate(chunks)]
        res = []
        for f in futs:
            res.extend(f.result())
    return res


def _canon_messages(outs):
    """reworded diagnostic messages are mapped back to the wording the models carry (identity on an unchanged tree: vlib/msgmap.py)"""
    from . import msgmap
    if not msgmap.active():
        return outs
    return [msgmap.canon_line(o) for o in outs]


def impl(lines, **kw):
    return _canon_messages(run_lines(TGVERIF, lines, tag=kw.pop("tag", "impl"), **kw))


def model(lines, **kw):
    return _canon_messages(run_lines(TGDRIVE, lines, tag=kw.pop("tag", "model"), **kw))


# --------------------------------------------------------------------------- findings / evidence / verdict

def load_findings():
    p = os.path.join(ROOT, "known_findings.json")
    if not os.path.exists(p):
        return []
    with open(p) as f:
        return json.load(f)


def sig_hash(obj):
    return hashlib.sha256(json.dumps(obj, sort_keys=True).encode()).hexdigest()[:12]


class Check:
    """Accumulates what one `./check Cnn` run did and renders verdict + evidence."""

    def __init__(self, prop, tier, seed):
        self.prop = prop
        self.tier = tier
        self.seed = seed
        self.t0 = time.time()
        self.rng = random.Random((seed << 8) ^ int(prop[1:]))
        self.proof = None
        self.broken = []        # (stage, detail dict)
        self.failures = []      # concrete property violations: dict(signature, what, case, observed, expected)
        self.cov = {"evaluations": 0, "distinct_nontrivial": 0, "samples": [], "streams": {}}
        self.assumptions = []
        self.distinct = set()
        self.notes = []

    # ---- coverage bookkeeping
    def count(self, stream, n_eval, nontrivial_keys, sample=None, **extra):
        st = self.cov["streams"].setdefault(stream, {"evaluations": 0, "distinct_nontrivial": 0})
        st["evaluations"] += n_eval
        before = len(self.distinct)
        for k in nontrivial_keys:
            self.distinct.add((stream, k))
        st["distinct_nontrivial"] += len(self.distinct) - before
        st.update(extra)
        self.cov["evaluations"] += n_eval
        if sample is not None and len(self.cov["samples"]) < 12:
            self.cov["samples"].append(sample)

    def fail(self, signature, what, case, observed=None, expected=None, stage="oracle"):
        if not isinstance(signature, str):
            signature = "|".join(str(x) for x in signature)
        self.failures.append({"signature": signature, "what": what, "case": case,
                              "observed": observed, "expected": expected, "stage": stage})

    def broke(self, stage, detail):
        self.broken.append((stage, detail))

    # ---- verdict
    def finish(self, level="proof", trusted_base=None, rule="", checker_cmd=None, extra_cov=None):
        findings = [f for f in load_findings() if f.get("property") == self.prop]
        known_sigs = {f["signature"]: f for f in findings if f.get("status") == "known"}
        known_hits, new = {}, []
        for fl in self.failures:
            if fl["signature"] in known_sigs:
                known_hits.setdefault(fl["signature"], fl)
            else:
                new.append(fl)
        lines = []
        rc = 0
        os.makedirs(os.path.join(ROOT, "replays"), exist_ok=True)
        for sig, fl in sorted(known_hits.items()):
            lines.append("KNOWN-FINDING: property=%s %s" % (self.prop, known_sigs[sig]["what"]))
        seen = set()
        for fl in new:
            if fl["signature"] in seen:
                continue
            seen.add(fl["signature"])
            rp = os.path.join(ROOT, "replays", "%s-%s.json" % (self.prop, sig_hash(fl["signature"])))
            with open(rp, "w") as f:
                json.dump({"property": self.prop, "kind": "input", "stage": fl["stage"], "what": fl["what"],
                           "signature": fl["signature"], "case": fl["case"], "observed": fl["observed"],
                           "expected": fl["expected"], "seed": self.seed,
                           "cmd": "./check %s --replay %s" % (self.prop, rp)}, f, indent=1)
            lines.append("VIOLATION property=%s replay=%s" % (self.prop, rp))
            rc = 1
            if len(seen) >= 5:
                break
        if not new and self.broken:
            stage, detail = self.broken[0]
            rp = os.path.join(ROOT, "replays", "%s-obligation-%s.json" % (self.prop, sig_hash([stage, str(detail)[:200]])))
            with open(rp, "w") as f:
                json.dump({"property": self.prop, "kind": "obligation", "stage": stage, "detail": detail,
                           "all_broken": [[s, d] for s, d in self.broken][:10], "seed": self.seed,
                           "note": "the proof obligation / correspondence named here no longer checks and the "
                                   "search found no concrete failing input"}, f, indent=1, default=str)
            lines.append("VIOLATION property=%s replay=%s no-failing-input-found" % (self.prop, rp))
            rc = 1
        self.write_evidence(level, trusted_base or [], rule, checker_cmd, extra_cov, len(new) + (1 if (not new and self.broken) else 0))
        for l in lines:
            print(l)
        summary = "%s %s: %s; evaluations=%d distinct_nontrivial=%d proof=%s wall=%.1fs" % (
            self.prop, self.tier, "OK" if rc == 0 else "VIOLATION", self.cov["evaluations"], len(self.distinct),
            ("%d/%d" % (self.proof["discharged"], self.proof["obligations"])) if self.proof else "-", time.time() - self.t0)
        print(summary)
        sys.stdout.flush()
        return rc

    def write_evidence(self, level, trusted_base, rule, checker_cmd, extra_cov, nviol):
        cov = dict(self.cov)
        cov["distinct_nontrivial"] = len(self.distinct)
        cov["rule"] = rule
        if self.proof:
            cov["obligations"] = max(1, self.proof["obligations"])
            cov["discharged"] = self.proof["discharged"]
            cov["theorems"] = self.proof["theorems"]
            cov["proof_detail"] = self.proof["detail"]
            cov["tables"] = self.proof.get("tables", "")
        cov["checker_cmd"] = checker_cmd or ("cd /verif/lean && lake build TgModel.Props.%s && lake env lean /verif/.build/audit/%s.lean  (# print axioms)" % (self.prop, self.prop))
        cov["trusted_base"] = trusted_base
        if not cov["samples"]:
            cov["samples"] = ["(no case stream in this run)"]
        cov["oracle_failures"] = [{"signature": f["signature"], "what": f["what"]} for f in self.failures[:20]]
        cov["model_disagreements"] = [d for s, d in self.broken if s == "correspondence"][:5]
        cov["notes"] = self.notes
        if extra_cov:
            cov.update(extra_cov)
        ev = {"property_id": self.prop, "tier": self.tier, "seed": self.seed, "level": level, "coverage": cov,
              "assumptions": self.assumptions, "wall_s": round(time.time() - self.t0, 2), "violations": nviol}
        os.makedirs(os.path.join(ROOT, "evidence"), exist_ok=True)
        with open(os.path.join(ROOT, "evidence", self.prop + ".json"), "w") as f:
            json.dump(ev, f, indent=1, default=str)


def ensure_built(ck, lean_targets=("tgdrive",)):
    """Rebuild harness and driver from the current tree; a failure breaks the tie."""
    ok, msg = regen_tables()
    if not ok:
        # the tie is broken; keep going with the last tables that could be generated so that the search for a
        # failing input on the implementation (and against the last good model) still runs
        ck.broke("translator", {"error": msg, "note": "continuing the search with the previously generated tables"})
        if not (os.path.exists(os.path.join(BUILD, "tables.json")) and os.path.exists(os.path.join(BUILD, "docgrammar.json"))
                and os.path.exists(os.path.join(BUILD, "asttable.json"))):
            return False
    ok, out = build_harness()
    if not ok:
        errs = [l for l in out.splitlines() if l.startswith("error")]
        ck.broke("harness-build", {"error": "harness no longer compiles against /repo", "log": errs[:10] or out[-1500:]})
        return False
    ok, out = build_lean(list(lean_targets))
    if not ok:
        errs = [l for l in out.splitlines() if "error" in l]
        ck.broke("model-build", {"error": "Lean driver does not build", "log": errs[:10]})
        return False
    return True


def compare(ck, stream, cases, cmd_of, key_of=None, timeout=300, counted=False):
    """Correspondence (B): same lines to implementation and model; returns (impl_out, model_out).
    Any difference is recorded as a broken correspondence with the first differing cases."""
    lines = [cmd_of(c) for c in cases]
    a = impl(lines, timeout=timeout, tag="i" + stream)
    b = model(lines, timeout=timeout, tag="m" + stream)
    ndiff = 0
    for c, x, y in zip(cases, a, b):
        if x != y:
            ndiff += 1
            if ndiff <= 3:
                ck.broke("correspondence", {"stream": stream, "case": c if len(str(c)) < 2000 else str(c)[:2000] + "...",
                                            "impl": x[:600], "model": y[:600]})
    st = ck.cov["streams"].setdefault(stream, {"evaluations": 0, "distinct_nontrivial": 0})
    st["model_disagreements"] = st.get("model_disagreements", 0) + ndiff
    if counted:
        st["evaluations"] += len(cases)
        ck.cov["evaluations"] += len(cases)
    return a, b
