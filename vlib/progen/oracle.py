#!/usr/bin/env python3
"""Oracles for C05 / C18 / C19 / C13 over programs produced by progen.

    import progen, oracle
    p  = progen.generate(seed, size)
    h  = oracle.Harness()                       # harness I/O (tgverif line protocol)
    a  = oracle.ask(h, p.files, p.root, oracle.queries_for(p))
    ds = oracle.check_program(p, a)             # pure: expectations vs answers -> [discrepancy]
    fp = progen.seed_fault(p, rng); fa = oracle.ask(h, fp.files, fp.root, [["diagnostics"]])
    ds = oracle.check_fault(fp, fa)

A discrepancy is a dict(prop, clause, construct, sig, detail).  `sig` = "prop | clause | construct"
is the stable signature used for grouping.

Command line:  python3 oracle.py [-n N] [--size S] [--start SEED] [--faults K] [--no-shrink]
"""
import argparse
import json
import os
import random
import re
import subprocess
import sys
import time

import progen
import audit

HERE = os.path.dirname(os.path.abspath(__file__))
TGVERIF = os.path.join(HERE, "tgverif")


# --------------------------------------------------------------------------------------------
# harness I/O
# --------------------------------------------------------------------------------------------


class Harness:
    def __init__(self, path=TGVERIF):
        self.path = path
        self.proc = None
        self.crashes = 0

    def start(self):
        self.proc = subprocess.Popen([self.path], stdin=subprocess.PIPE, stdout=subprocess.PIPE,
                                     stderr=subprocess.DEVNULL, text=True, bufsize=1)

    def request(self, files, root, queries):
        """-> list of answers (one per query) or {"crash": ...}"""
        if self.proc is None or self.proc.poll() is not None:
            self.start()
        line = "ws " + json.dumps({"files": files, "root": root, "queries": queries}) + "\n"
        try:
            self.proc.stdin.write(line)
            self.proc.stdin.flush()
            out = self.proc.stdout.readline()
        except (BrokenPipeError, OSError):
            out = ""
        if not out:
            self.crashes += 1
            try:
                self.proc.kill()
            except Exception:
                pass
            self.proc = None
            return {"crash": True}
        try:
            return json.loads(out)
        except ValueError:
            return {"crash": out[:200]}

    def close(self):
        if self.proc is not None:
            try:
                self.proc.stdin.close()
                self.proc.wait(timeout=2)
            except Exception:
                self.proc.kill()
            self.proc = None


def queries_for(p, rng=None):
    """The query list for one program (and nothing else: no expectations leak into it)."""
    rng = rng or random.Random(p.seed if p.seed is not None else 0)
    qs = [["diagnostics"]]
    for f in sorted(p.files):
        if f not in p.outline:
            continue
        qs.append(["document_symbol", f])
        qs.append(["folding_range", f])
        n = len(p.files[f].encode("utf-8"))
        qs.append(["inlay_hint", f, 0, n])
        # ranges around the places where hints can sit (ends of identifiers, starts of arguments)
        pts = sorted({h["pos"] for h in p.hints.get(f, [])} | {o["end"] for o in p.writer.overrides if o["file"] == f})
        if len(pts) > 8:
            pts = sorted(rng.sample(pts, 8))
        for c in pts:
            if c - 1 > 0:
                qs.append(["inlay_hint", f, 0, c - 1])
            if c + 1 < n:
                qs.append(["inlay_hint", f, c + 1, n])
            qs.append(["inlay_hint", f, max(0, c - 2), min(n, c + 2)])
        for _ in range(2):
            a, b = sorted((rng.randint(0, n), rng.randint(0, n)))
            if a < b:
                qs.append(["inlay_hint", f, a, b])
    seen = set()
    for u in p.uses:
        k = (u["file"], u["start"])
        if k not in seen:
            seen.add(k)
            qs.append(["goto", u["file"], u["start"]])
            qs.append(["hover", u["file"], u["start"]])
            if u["end"] - u["start"] > 1:
                qs.append(["goto", u["file"], u["end"] - 1])
    for d in p.decls:
        f, s, e = d["loc"]
        if (f, s) not in seen:
            seen.add((f, s))
            qs.append(["goto", f, s])
            qs.append(["hover", f, s])
        qs.append(["references", f, s])
    return qs


def ask(h, files, root, queries):
    """Run the queries; -> answers dict keyed by query, or {"crash": ...}."""
    return answers_from(queries, h.request(files, root, queries))


def answers_from(queries, res):
    """Raw reply of the harness (list, one entry per query) -> the answers dict the checkers take.
    A dict reply ({"crash": ...}) is passed through."""
    if isinstance(res, dict):
        return res
    a = {"diagnostics": None, "document_symbol": {}, "folding_range": {}, "inlay_hint": {}, "goto": {},
         "hover": {}, "references": {}}
    for q, r in zip(queries, res):
        k = q[0]
        if k == "diagnostics":
            a[k] = r
        elif k in ("document_symbol", "folding_range"):
            a[k][q[1]] = r
        elif k == "inlay_hint":
            a[k][(q[1], q[2], q[3])] = r
        else:
            a[k][(q[1], q[2])] = r
    return a


# --------------------------------------------------------------------------------------------
# discrepancies
# --------------------------------------------------------------------------------------------


CLAUSES = {
    # C05
    "panic": "panic",
    "out-of-scope name resolves": "oos-resolves",
    "out-of-scope name not reported": "oos-unreported",
    "goto": "goto",
    "goto (position not walked by the indexer)": "goto-unvisited",
    "goto at last character differs": "goto-last-char",
    "references: declaration not known": "references-unknown-declaration",
    "references: use missing": "references-missing",
    "references: use missing (position not walked by the indexer)": "references-missing-unvisited",
    "references: surplus": "references-surplus",
    # C18
    "outline: symbol missing": "outline-missing",
    "outline: surplus symbol": "outline-surplus",
    "outline: symbol listed twice": "outline-duplicate",
    "outline: not in source order": "outline-order",
    "outline: wrong name": "outline-name",
    "outline: file unknown to the server": "outline-unknown-file",
    "outline: no answer for a file with symbols": "outline-no-answer",
    "folding: no answer": "fold-no-answer",
    "folding: range missing or wrong end": "fold-wrong-end",
    "folding: range missing": "fold-missing",
    "folding: surplus range": "fold-surplus",
    "folding: duplicate range": "fold-duplicate",
    "folding: ranges overlap without nesting": "fold-overlap",
    # C19
    "hover: nothing shown for a resolved identifier": "hover-null",
    "hover: signature": "hover-signature",
    "hover: doc comment": "hover-doc",
    "inlay: no answer": "inlay-no-answer",
    "inlay: wrong hint": "inlay-wrong",
    "inlay: hint missing": "inlay-missing",
    "inlay: surplus hint": "inlay-surplus",
    "inlay: duplicate hint": "inlay-duplicate",
    "inlay: hint outside the requested range": "inlay-outside-range",
    "inlay: hint inside the requested range not returned": "inlay-inside-range-dropped",
    # C13
    "false diagnostic": "false-diagnostic",
    "fault not reported": "missed-fault",
    "diagnostic in a file the fault does not touch": "untouched-file-diagnostic",
    "crash": "crash",
}

# constructs with a fixed name (the defects that are known to stay)
MISSED_FAULT_NAMES = {
    ("undefined-identifier", "let-in-field-name"): "let-in-unknown-field",
    ("type-incompatible-initialiser", "let-in-value"): "let-in-value-type",
}


def slug(s):
    s = re.sub(r"[`'\"]", "", str(s))
    s = re.sub(r"\s+", "-", s.strip())
    return s


def disc(prop, clause, construct, detail):
    """One discrepancy.  sig = "prop|clause|construct": fixed vocabulary for the clause (CLAUSES), the
    construct is a tag of the generator (declaration kind @ syntactic position, statement kind, fault
    class ...).  No offsets, names or seeds ever enter the signature; they are in `detail`."""
    c = CLAUSES[clause]
    k = slug(construct)
    return dict(prop=prop, clause=c, construct=k, sig="%s|%s|%s" % (prop, c, k), detail=detail)


def is_panic(x):
    return isinstance(x, dict) and "panic" in x


_TYPE = r"(?:bit|int|string|code|dag|unknown|any|uninitialized|bits<\d+>|list<[^' ;]*>)"


def _norm_type(t):
    """bits<4> -> bits<N>; class names -> C (inside list<> too)"""
    t = re.sub(r"\d+", "N", t)
    return re.sub(r"\b(?!bits\b|bit\b|int\b|string\b|code\b|dag\b|list\b|unknown\b|any\b|uninitialized\b|N\b)[A-Za-z_][A-Za-z_0-9]*", "C", t)


def norm_msg(m):
    """Message template: names dropped, types kept by kind (`bits<N>`, `list<C>`), numbers -> N."""
    # quoted types stay, other quoted text is a name
    m = re.sub(r"'([^']*)'", lambda q: "'%s'" % _norm_type(q.group(1)) if re.search(r"type '$", m[:q.start() + 1]) else "'_'", m)
    m = re.sub(r": [A-Za-z_][A-Za-z_0-9.]*$", ": _", m)
    m = re.sub(r"\b(found|type of|and|expected type|expected) (list<[^ ;]*>|bits<\d+>|[A-Za-z_][A-Za-z0-9_]*)", lambda q: "%s %s" % (q.group(1), _norm_type(q.group(2))), m)
    m = re.sub(r"\d+", "N", m)
    return m


def strip_tag(t):
    return t


def all_diags(a):
    out = []
    for f, ds in a["diagnostics"] or []:
        for d in ds:
            out.append((d[0], d[1], d[2], d[3]))
    return out


def site_context(p, file, s, e):
    """Describe what sits at a diagnostic range: the tag of a use at that range or the kind of the
    innermost construct covering it."""
    for u in p.uses:
        if u["file"] == file and u["start"] == s and u["end"] == e:
            return "use:" + u["tag"]
    w = p.writer
    best = None
    for c in w.classrefs:
        if c["file"] == file and c["span"][0] <= s and e <= c["span"][1]:
            size = c["span"][1] - c["span"][0]
            named = any(a["name"] and a["span"][0] <= s and e <= a["span"][1] for a in c["args"])
            k = "classref:%s%s" % ("multiclass" if c["target"].kind == "multiclass" else c["ctx"], ":named-arg" if named else "")
            if best is None or size < best[0]:
                best = (size, k)
    for b in w.bangs:
        if b["file"] == file and b["span"][0] <= s and e <= b["span"][1]:
            size = b["span"][1] - b["span"][0]
            if best is None or size < best[0]:
                best = (size, "bang:!" + b["op"])
    for v in w.values:
        if v["file"] == file and v["span"] == (s, e):
            return "value:" + v["ctx"]
    if best:
        return best[1]
    return "other"


# --------------------------------------------------------------------------------------------
# C05
# --------------------------------------------------------------------------------------------


def check_c05(p, a, informational=True):
    out = []
    diags = all_diags(a)
    decl_at = {d["loc"]: d for d in p.decls}
    override_at = {(o["file"], o["start"], o["end"]) for o in p.writer.overrides}
    lands = {}
    for u in p.uses:
        g = a["goto"].get((u["file"], u["start"]))
        if is_panic(g):
            out.append(disc("C05", "panic", "goto", dict(use=u_brief(u), panic=g)))
            continue
        got = tuple(g) if g else None
        lands[(u["file"], u["start"], u["end"])] = got
        if u["target"] is None:
            why = u["tag"]
            if got is not None:
                out.append(disc("C05", "out-of-scope name resolves", why, dict(use=u_brief(u), got=got)))
            if not any(f == u["file"] and s <= u["start"] and u["end"] <= e for f, s, e, m in diags):
                out.append(disc("C05", "out-of-scope name not reported", why, dict(use=u_brief(u))))
            continue
        if u["visited"] is None or (not u["visited"] and not informational):
            continue
        clause = "goto" if u["visited"] else "goto (position not walked by the indexer)"
        if got != u["target"]:
            how = "unresolved" if got is None else ("lands on another declaration" if got in decl_at else
                                                     ("lands on itself" if got == (u["file"], u["start"], u["end"]) else
                                                      ("lands on a let override" if got in override_at else "lands on a non-declaration")))
            construct = "let-override-target" if got in override_at else u["tag"]
            out.append(disc("C05", clause, construct, dict(use=u_brief(u), want=u["target"], got=got, how=how)))
        elif u["end"] - u["start"] > 1:
            g2 = a["goto"].get((u["file"], u["end"] - 1))
            if (tuple(g2) if g2 and not is_panic(g2) else None) != u["target"]:
                out.append(disc("C05", "goto at last character differs", u["tag"], dict(use=u_brief(u), got=g2)))
    for d in p.decls:
        if d["decl"].info.get("unchecked"):
            continue
        f, s, e = d["loc"]
        r = a["references"].get((f, s))
        if is_panic(r):
            out.append(disc("C05", "panic", "references", dict(decl=d_brief(d), panic=r)))
            continue
        where = d["kind"]
        if r is None:
            out.append(disc("C05", "references: declaration not known", where + "@" + d["where"].split("/")[-1], dict(decl=d_brief(d))))
            continue
        got = {tuple(x) for x in r}
        want_req = {(x[0], x[1], x[2]) for x in d["uses"] if x[3]}
        want_opt = {(x[0], x[1], x[2]) for x in d["uses"] if x[3] is False}
        silent = {(x[0], x[1], x[2]) for x in d["uses"] if x[3] is None}     # may or may not be listed
        tags = {(x[0], x[1], x[2]): x[4] for x in d["uses"]}
        for m in sorted(want_req - got):
            construct = "let-override-target" if lands.get(m) in override_at else tags[m]
            out.append(disc("C05", "references: use missing", construct, dict(decl=d_brief(d), missing=m, tag=tags[m])))
        if informational:
            for m in sorted(want_opt - got):
                out.append(disc("C05", "references: use missing (position not walked by the indexer)", tags[m], dict(decl=d_brief(d), missing=m)))
        for m in sorted(got - want_req - want_opt - silent):
            what = "the-declaration-itself" if m == d["loc"] else classify_site(p, m)
            out.append(disc("C05", "references: surplus", "%s<-%s" % (where, what), dict(decl=d_brief(d), surplus=m)))
    return out


def classify_site(p, m):
    for u in p.uses:
        if (u["file"], u["start"], u["end"]) == m:
            return "use:%s" % u["tag"]
    for d in p.decls:
        if d["loc"] == m:
            return "declaration:%s" % d["kind"]
    return "other"


def u_brief(u):
    return dict(file=u["file"], start=u["start"], end=u["end"], name=u["name"], tag=u["tag"])


def d_brief(d):
    return dict(kind=d["kind"], name=d["name"], loc=d["loc"], where=d["where"])


# --------------------------------------------------------------------------------------------
# C18
# --------------------------------------------------------------------------------------------


def flat(nodes, depth=0, parent=None):
    for n in nodes:
        yield n, depth, parent
        for x in flat(n["children"], depth + 1, n):
            yield x


def cmp_outline(exp, act, parent_kind, out, file):
    key = lambda n: (n["kind"], n["range"][0], n["range"][1])
    for n in exp:
        if n.get("within"):      # any range inside the expected token counts
            for m in act:
                if m["kind"] == n["kind"] and n["range"][0] <= m["range"][0] and m["range"][1] <= n["range"][1]:
                    n["range"] = list(m["range"])
                    break
    ek = [key(n) for n in exp]
    ak = [key(n) for n in act]
    eset, aset = set(ek), set(ak)
    relisted = False
    for n in exp:
        if key(n) not in aset and not n.get("optional"):
            construct = "%s@%s" % (n["kind"], n.get("where") or parent_kind) if n["kind"] not in ("Field", "TemplateArgument") else "%s-of-%s" % (n["kind"], parent_kind)
            # a field declared in this body and overridden by `let` in the same body: listed at the `let` instead?
            if n["kind"] == "Field" and any(x.get("optional") and x["name"] == n["name"] and key(x) in aset for x in exp):
                construct = "field-declared-and-let-in-the-same-body"
                relisted = True
            if n.get("cause"):
                construct = n["cause"]
            out.append(disc("C18", "outline: symbol missing", construct,
                            dict(file=file, want=dict(kind=n["kind"], name=n["name"], range=n["range"]))))
    for n in act:
        if key(n) not in eset:
            out.append(disc("C18", "outline: surplus symbol", "%s-in-%s" % (n["kind"], parent_kind),
                            dict(file=file, got=dict(kind=n["kind"], name=n["name"], range=n["range"]))))
    ce = [k for k in ek if k in aset]
    ca = [k for k in ak if k in eset]
    if len(set(ca)) != len(ca):
        out.append(disc("C18", "outline: symbol listed twice", parent_kind, dict(file=file, got=ca)))
    elif ce != ca and not relisted:
        out.append(disc("C18", "outline: not in source order", parent_kind, dict(file=file, want=ce, got=ca)))
    amap = {}
    for n in act:
        amap.setdefault(key(n), n)
    for n in exp:
        m = amap.get(key(n))
        if m is None:
            continue
        if m["name"] != n["name"] and not n.get("lenient_name"):
            out.append(disc("C18", "outline: wrong name", n["kind"], dict(file=file, want=n["name"], got=m["name"])))
        cmp_outline(n["children"], m["children"], n["kind"], out, file)


def check_c18(p, a):
    out = []
    for f in sorted(p.outline):
        act = a["document_symbol"].get(f)
        if isinstance(act, str):
            out.append(disc("C18", "outline: file unknown to the server", "file", dict(file=f, got=act)))
            continue
        if is_panic(act):
            out.append(disc("C18", "panic", "document_symbol", dict(file=f, panic=act)))
        elif act is None:
            req = [n for n in p.outline[f] if not n.get("optional")]
            if req:
                causes = {n.get("cause") for n in req}
                out.append(disc("C18", "outline: no answer for a file with symbols",
                                causes.pop() if len(causes) == 1 and None not in causes else "file", dict(file=f)))
        else:
            where = {(d["loc"][0], d["loc"][1]): d["where"] for d in p.decls}
            for n, _, _ in flat(p.outline[f]):
                n["where"] = where.get((f, n["range"][0]), "let-override")
            cmp_outline(p.outline[f], act, "file", out, f)
        fr = a["folding_range"].get(f)
        if isinstance(fr, str):
            continue
        if is_panic(fr) or fr is None:
            out.append(disc("C18", "panic" if fr else "folding: no answer", "folding_range", dict(file=f, got=fr)))
            continue
        exp = {(s, e): k for s, e, k in p.folds[f]}
        got = [tuple(x) for x in fr]
        for (s, e), k in sorted(exp.items()):
            if (s, e) not in got:
                near = [g for g in got if g[0] == s]
                out.append(disc("C18", "folding: range missing or wrong end" if near else "folding: range missing", k,
                                dict(file=f, want=(s, e), same_start=near)))
        for g in got:
            if g not in exp and not any(g[0] == s for s, e in exp):
                out.append(disc("C18", "folding: surplus range", "?", dict(file=f, got=g)))
        if len(set(got)) != len(got):
            out.append(disc("C18", "folding: duplicate range", "?", dict(file=f)))
        gs = sorted(set(got))
        for i, x in enumerate(gs):
            for y in gs[i + 1:]:
                if y[0] >= x[1]:
                    break
                if not (y[1] <= x[1]):
                    out.append(disc("C18", "folding: ranges overlap without nesting", "?", dict(file=f, a=x, b=y)))
    return out


# --------------------------------------------------------------------------------------------
# C19
# --------------------------------------------------------------------------------------------


def norm_doc(s):
    if s is None:
        return None
    return "\n".join(l.strip() for l in s.split("\n"))


def check_c19(p, a, informational=True):
    out = []
    decl_at = {d["loc"]: d["decl"] for d in p.decls}
    pasted = {d["loc"] for d in p.decls if False}
    seen = set()
    for h in p.hovers:
        k = (h["file"], h["start"])
        if k in seen:
            continue
        seen.add(k)
        if h.get("visited", True) is None:
            continue
        g = a["goto"].get(k)
        hv = a["hover"].get(k)
        if is_panic(hv):
            out.append(disc("C19", "panic", "hover", dict(at=k, panic=hv)))
            continue
        if not g or is_panic(g):
            continue            # unresolved: C05's business
        d = decl_at.get(tuple(g))
        if d is None:
            continue            # lands on something that is no declaration: C05's business
        pos = "%s-site" % h["site"]
        if hv is None:
            out.append(disc("C19", "hover: nothing shown for a resolved identifier", d.kind, dict(at=k)))
            continue
        want = d.signature()
        # (a single selected bit `v{0}` is bits<1> for TableGen and a bit for the server; the two convert into each other)
        if hv["signature"].replace("bits<1>", "bit") != want.replace("bits<1>", "bit"):
            ok = bool(d.info.get("type_any")) and hv["signature"].endswith(" " + d.name)
            if d.kind == "field" and d.owner.info.get("unchecked"):
                # `def NAME#_y` in a multiclass: what the owner is called is implementation defined
                ok = re.fullmatch(re.escape(d.ty.text()) + r" \w+::" + re.escape(d.name), hv["signature"]) is not None
            if d.kind == "field" and d.owner.name == "<anonymous>":
                # the name of an anonymous record is implementation defined
                ok = re.fullmatch(re.escape(d.ty.text()) + r" anonymous_\d+::" + re.escape(d.name), hv["signature"]) is not None
            if d.kind in ("def", "defm") and d.info.get("pasted"):
                ok = hv["signature"].startswith(want)
            if not ok:
                out.append(disc("C19", "hover: signature", d.kind + (":" + d.ty.k if d.ty is not None and d.kind != "field" else ""),
                                dict(at=k, want=want, got=hv["signature"])))
        if not d.doc_any:
            wd, gd = norm_doc(d.doc), norm_doc(hv["document"])
            if wd != gd and d.doc_amb and not informational:
                pass        # a trailing comment of the previous line directly above: either answer accepted
            elif wd != gd:
                construct = "%s:%s" % (d.kind, d.doc_tag)
                if d.doc_amb:
                    construct = "trailing-comment-above:%s" % d.doc_tag
                out.append(disc("C19", "hover: doc comment", construct, dict(at=k, want=wd, got=gd, decl=d.loc, kind=d.kind)))
    # inlay hints
    for (f, s, e), r in sorted(a["inlay_hint"].items()):
        if is_panic(r):
            out.append(disc("C19", "panic", "inlay_hint", dict(file=f, range=(s, e), panic=r)))
            continue
        if isinstance(r, str):
            continue        # file unknown to the server: reported once by the C18 check
        n = len(p.files[f].encode("utf-8"))
        full = (s == 0 and e == n)
        exp = p.hints.get(f, [])
        got = [(x[0], x[1], x[2]) for x in (r or [])]
        if full:
            if r is None and exp:
                out.append(disc("C19", "inlay: no answer", "file", dict(file=f)))
                continue
            gset = set(got)
            epos = {}
            for h in exp:
                epos[h["pos"]] = h
                if (h["pos"], h["label"], h["kind"]) not in gset:
                    at = [x for x in got if x[0] == h["pos"]]
                    out.append(disc("C19", "inlay: wrong hint" if at else "inlay: hint missing", h["tag"],
                                    dict(file=f, want=(h["pos"], h["label"], h["kind"]), got_at_position=at)))
            eset = {(h["pos"], h["label"], h["kind"]) for h in exp}
            for x in got:
                if x not in eset and x[0] not in epos:
                    out.append(disc("C19", "inlay: surplus hint", classify_hint(p, f, x), dict(file=f, got=x)))
            if len(got) != len(set(got)):
                out.append(disc("C19", "inlay: duplicate hint", "?", dict(file=f)))
        else:
            for x in got:
                if x[0] < s or x[0] > e:
                    out.append(disc("C19", "inlay: hint outside the requested range", x[2], dict(file=f, range=(s, e), got=x)))
            fullr = a["inlay_hint"].get((f, 0, n))
            if fullr and not is_panic(fullr):
                for x in fullr:
                    if s < x[0] < e and tuple(x) not in {tuple(y) for y in (r or [])}:
                        out.append(disc("C19", "inlay: hint inside the requested range not returned", x[2],
                                        dict(file=f, range=(s, e), missing=x)))
    return out


def classify_hint(p, f, x):
    for o in p.writer.overrides:
        if o["file"] == f and o["end"] == x[0]:
            return "at let override"
    for u in p.uses:
        if u["file"] == f and u["end"] == x[0]:
            return "after use:" + u["tag"]
    return x[2]


# --------------------------------------------------------------------------------------------
# C13
# --------------------------------------------------------------------------------------------


def check_c13_sound(p, a):
    """No diagnostics at all on a well-typed program; on a program with deliberate out-of-scope
    names only diagnostics at those names."""
    out = []
    oos = [(u["file"], u["start"], u["end"]) for u in p.uses if u["target"] is None]
    kf = getattr(p, "known_false_sites", [])
    for f, s, e, m in all_diags(a):
        if any(f == of and s <= os_ and oe <= e for of, os_, oe in oos):
            continue
        # constructs with a KNOWN false diagnostic: reported under the fixed signature of the finding
        hit = [k for k in kf if k["file"] == f and not (e <= k["start"] or k["end"] <= s)]
        if hit:
            out.append(disc("C13", "false diagnostic", hit[0]["kind"], dict(file=f, range=(s, e), message=m)))
            continue
        out.append(disc("C13", "false diagnostic", "%s@%s" % (norm_msg(m), site_context(p, f, s, e)),
                        dict(file=f, range=(s, e), message=m)))
    return out


def check_fault(fp, a, base_diags=()):
    """One seeded fault: >=1 diagnostic covering the site in the seeded file, none in untouched files."""
    out = []
    if "crash" in a:
        return [disc("C13", "crash", fp.cls, dict(fault=fault_brief(fp)))]
    ds = all_diags(a)
    f0, s0, e0 = fp.site
    base = set(base_diags)

    def hit(d):
        f, s, e, m = d
        if f != f0:
            return False
        if fp.check == "covers":
            return s <= s0 and e0 <= e
        if fp.check == "at-or-after":
            return e >= s0
        return s <= e0 and s0 <= e
    new = [d for d in ds if d not in base or hit(d)]
    name = MISSED_FAULT_NAMES.get((fp.cls, fp.sub), "%s:%s" % (fp.cls, fp.sub))
    if not any(hit(d) for d in ds):
        out.append(disc("C13", "fault not reported", name,
                        dict(fault=fault_brief(fp), diagnostics=new[:6],
                             elsewhere_in_the_seeded_file=any(d[0] == f0 for d in new))))
    for d in ds:
        if d[0] not in fp.touched and d not in base:
            out.append(disc("C13", "diagnostic in a file the fault does not touch", name,
                            dict(fault=fault_brief(fp), diagnostic=d)))
    return rename_causes(fp.base, out)


def fault_brief(fp):
    return dict(cls=fp.cls, sub=fp.sub, site=fp.site, edit=fp.fault["edit"], check=fp.check)


# constructs named after one cause (defects found with the widened generator; see ROUND5.md)
CAUSES = {
    "bit-vs-bits1": "bit and bits<1> are not interconvertible for the indexer (`bits<1> z = w{0};`, `bits<1> b = c;` with bit c, "
                    "`bit c = o;` with bits<1> o, lists of them, template arguments): false 'incompatible' diagnostics; llvm-tblgen accepts",
    "field-declared-and-let-in-the-same-body": "a field declared in a body and overridden by `let` in the same body (`bits<16> Inst; let Inst{15-12} = opc;`) "
                                               "is listed in the outline once, with the range of the LAST `let` identifier instead of the declaring identifier",
    "defm-class-in-multiclass": "`defm x : M<1>, C<2>;` INSIDE a multiclass: the class after the multiclasses is looked up as a multiclass "
                                "('multiclass not found: C'); its arguments are not indexed (no goto, no hints, faults in them unreported)",
    "bits-literal-with-multibit-elements": "a bits literal `{ x{1-0}, 0b10, y }` is typed by the NUMBER of its elements, not by the sum of their widths: "
                                           "false 'bits<4> is incompatible with bits<2>'",
    "list-paste": "`[1] # [2, 3]` (paste of two lists, a list in TableGen) is typed string: false 'incompatible' diagnostics",
    "def-typed-join": "!if / !listconcat over two different defs of one class (or a def and a class value): 'inconsistent types d1 and d2 for !if', "
                      "'expected list<d1>, found list<d2>' - the type of a def name is the def itself and two defs never fit each other",
}


CAUSES.update({
    "def-with-string-name": "a def / defm whose name is not a plain identifier (`def \"q\" : A<v> {..}`, `def !strconcat(..) : ..`, `defm \"\" : M<v>;`) is skipped "
                            "by the indexer: parents, arguments and body are not indexed (no goto / references / hints inside, declarations inside unknown), the "
                            "record is not listed in the outline, and faults inside are not reported",
    "typed-empty-list": "the element type written after a list literal (`[]<T>`, `[a, b]<T>`) is ignored: T is not resolved, `[]<T>` is list<any>, so the variables of "
                        "!foreach / !filter / !foldl over it have type any and `x.f` is 'cannot access field'",
})


def _types_in(msg):
    """The two types a type-mismatch message talks about (None if it is not one)."""
    for rx in (r"of type '([^']+)' is incompatible with type '([^']+)'", r"is type of ([^;]+); expected type (.+)$",
               r"expected ([^,]+), found (.+)$", r"inconsistent types (\S+) and (\S+) for"):
        m = re.search(rx, msg)
        if m:
            return m.group(1).strip(), m.group(2).strip()
    return None


def named_cause(p, d):
    """A fixed construct name for discrepancies whose cause is one of the defects found by this generator
    (every other discrepancy keeps its generic construct)."""
    det = d["detail"]
    # where is it?
    loc = None
    if "range" in det and "file" in det:
        loc = (det["file"], det["range"][0], det["range"][1])
    elif "use" in det:
        loc = (det["use"]["file"], det["use"]["start"], det["use"]["end"])
    elif "missing" in det and isinstance(det["missing"], (list, tuple)) and len(det["missing"]) == 3:
        loc = tuple(det["missing"])
    elif "want" in det and "file" in det and isinstance(det["want"], (list, tuple)) and det["want"] and isinstance(det["want"][0], int):
        loc = (det["file"], det["want"][0], det["want"][0])
    elif "at" in det:
        loc = (det["at"][0], det["at"][1], det["at"][1])
    elif "decl" in det and "loc" in det["decl"]:
        loc = tuple(det["decl"]["loc"])
    elif "fault" in det:
        f = det["fault"]
        loc = (f["site"][0], f["edit"][0], f["edit"][0])
    if loc is not None:
        for r in getattr(p, "regions", []):
            if r["file"] != loc[0]:
                continue
            if r.get("mode", "inside") == "inside" and r["start"] <= loc[1] and loc[2] <= r["end"]:
                return r["cause"]
            if r.get("mode") == "contains" and d["clause"] == "false-diagnostic" and loc[1] <= r["start"] and r["end"] <= loc[2]:
                return r["cause"]
    if d["clause"] == "false-diagnostic" and "message" in det:
        t = _types_in(det["message"])
        if t and t[0] != t[1] and t[0].replace("bits<1>", "bit") == t[1].replace("bits<1>", "bit"):
            return "bit-vs-bits1"
    if d["clause"] == "hover-signature" and isinstance(det.get("want"), str) and isinstance(det.get("got"), str) and \
            det["want"].replace("bits<1>", "bit") == det["got"].replace("bits<1>", "bit"):
        return "bit-vs-bits1"
    return None


def rename_causes(p, ds):
    for d in ds:
        if d["sig"] in KNOWN:
            continue
        c = named_cause(p, d)
        if c:
            d["construct"] = c
            d["sig"] = "%s|%s|%s" % (d["prop"], d["clause"], c)
    return ds


def check_program(p, a, informational=False):
    """All expectation checks for one (unfaulted) program.  Pure function of (program, answers).
    informational=True additionally reports what is outside the quantifiers / ambiguous:
    identifier positions the indexer does not walk (clauses *-unvisited) and doc comments made of a
    trailing comment of the previous line (construct trailing-comment-above:*)."""
    if "crash" in a:
        return [disc("C13", "crash", "process-died", dict())]
    out = []
    out += check_c05(p, a, informational)
    out += check_c18(p, a)
    out += check_c19(p, a, informational)
    out += check_c13_sound(p, a)
    return rename_causes(p, out)


# the signatures of the defects that are known to stay (exact strings)
KNOWN = {
    "C13|false-diagnostic|forward_class": "a class declared first (`class B;`) and defined later is two class symbols: a value of the defined B "
                                          "given to a field typed B before the definition is reported as incompatible",
    "C13|false-diagnostic|defm_record_use": "a record created by a defm (`dm_x`) is unknown to the indexer: 'symbol not found' on a well-formed program",
    "C13|false-diagnostic|foreach_record_use": "a record created by `foreach i = 0...3 in def R#i : ...;` (`R0`) is unknown to the indexer (it knows one def `R`): "
                                               "'symbol not found' on a well-formed program (same family as defm_record_use)",
    "C05|goto|let-override-target": "D06 go-to-definition of a field use lands on a `let` override identifier",
    "C05|references-missing|let-override-target": "D06 such a use is missing from find-references of the declaring identifier",
    "C13|missed-fault|let-in-unknown-field": "D12 `let nosuch = v in ...` is not reported",
    "C13|missed-fault|let-in-value-type": "D12 `let f = <value of the wrong type> in ...` is not reported",
}


def coverage(programs, faulted=()):
    """Coverage counters of a run as one dict: the generator's counters summed over the programs
    (keys 'decl:<kind>@<construct>', 'use:<decl kind>@<position>' / 'use:oos:...', 'stmt:<kind>@<construct>',
    'class:...', 'classref:...', 'doc:<kind>:<layout>', 'bang:<op>', 'hint:...', 'fold:...', 'files:<n>', ...),
    'shadow:<case>' and, for the faulted programs given, 'fault:<class>[<variant>]' and 'faultclass:<class>'."""
    total = {}
    for p in programs:
        merge_cov(total, p.cov)
        for k, v in getattr(p, "shadow", {}).items():
            total["shadow:" + k] = total.get("shadow:" + k, 0) + v
    for fp in faulted:
        k = "fault:%s[%s]" % (fp.cls, fp.fault["variant"])
        total[k] = total.get(k, 0) + 1
        total["faultclass:" + fp.cls] = total.get("faultclass:" + fp.cls, 0) + 1
    return total


# --------------------------------------------------------------------------------------------
# shrinking
# --------------------------------------------------------------------------------------------


def stmt_lists(tree):
    """Every mutable list of statements / body items in the tree."""
    out = []

    def walk(lst):
        out.append(lst)
        for st in lst:
            for sub in (st.substmts() if hasattr(st, "substmts") else []):
                walk(sub)
            items = getattr(st, "items", None)
            if isinstance(items, list) and items and not isinstance(items[0], tuple):
                out.append(items)
    for f in sorted(tree):
        walk(tree[f])
    return out


def simple_literal(ty):
    k = ty.k
    if k == "int":
        return progen.Lit("1", ty)
    if k == "string":
        return progen.Lit('"s"', ty)
    if k == "bit":
        return progen.Lit("true", ty)
    if k == "bits":
        return progen.Lit("{" + ", ".join("0" for _ in range(ty.n)) + "}", ty)
    if k == "list":
        e = simple_literal(ty.elem)
        return progen.ListLit([e], ty) if e is not None else None
    return None


def expr_slots(tree):
    """(getter, setter, type) for every expression that may be replaced by a literal."""
    slots = []

    def add_ref(r):
        for i, (n, e, param) in enumerate(r.args):
            slots.append((lambda r=r, i=i: r.args[i][1],
                          lambda v, r=r, i=i: r.args.__setitem__(i, (r.args[i][0], v, r.args[i][2])), param.ty))
            add_expr(e)

    def add_expr(e):
        if e is None:
            return
        if isinstance(e, progen.ClassValue):
            add_ref(e.ref)
        for c in e.children():
            add_expr(c)

    def attr(o, name, ty):
        if getattr(o, name, None) is not None and isinstance(getattr(o, name), progen.Expr):
            slots.append((lambda o=o: getattr(o, name), lambda v, o=o: setattr(o, name, v), ty))
            add_expr(getattr(o, name))

    def walk(lst):
        for st in lst:
            for sub in (st.substmts() if hasattr(st, "substmts") else []):
                walk(sub)
            for a in getattr(st, "targs", []) or []:
                attr(a, "default", a.decl.ty)
            for r in (getattr(st, "parents", None) or []) + (getattr(st, "refs", None) or []):
                add_ref(r)
            if isinstance(st, progen.DefvarStmt):
                attr(st, "expr", st.expr.ty)
            if isinstance(st, progen.IfStmt):
                attr(st, "cond", st.cond.ty)
            if isinstance(st, progen.ForeachStmt) and isinstance(st.init, progen.Expr):
                attr(st, "init", st.init.ty)
            if isinstance(st, progen.LetStmt):
                for i, (f, e) in enumerate(st.items):
                    slots.append((lambda st=st, i=i: st.items[i][1],
                                  lambda v, st=st, i=i: st.items.__setitem__(i, (st.items[i][0], v)), f.ty))
                    add_expr(e)
            items = getattr(st, "items", None)
            if isinstance(items, list) and not isinstance(st, progen.LetStmt):
                for it in items:
                    if isinstance(it, progen.FieldDef):
                        attr(it, "expr", it.decl.ty)
                    elif isinstance(it, progen.FieldLet):
                        attr(it, "expr", it.field.ty)
                    elif isinstance(it, progen.BodyDefvar):
                        attr(it, "expr", it.expr.ty)
                    elif isinstance(it, progen.AssertStmt):
                        attr(it, "msg", progen.STRING)
            if isinstance(st, progen.AssertStmt):
                attr(st, "msg", progen.STRING)
    for f in sorted(tree):
        walk(tree[f])
    return slots


def doc_holders(tree):
    out = []

    def walk(lst):
        for st in lst:
            if getattr(st, "doc", None) is not None and st.doc.items:
                out.append(st)
            for sub in (st.substmts() if hasattr(st, "substmts") else []):
                walk(sub)
            for a in getattr(st, "targs", []) or []:
                if a.doc is not None and a.doc.items:
                    out.append(a)
            items = getattr(st, "items", None)
            if isinstance(items, list) and not isinstance(st, progen.LetStmt):
                for it in items:
                    if getattr(it, "doc", None) is not None and it.doc.items:
                        out.append(it)
    for f in sorted(tree):
        walk(tree[f])
    return out


def shrink(h, p, test, budget=400, valid=None):
    """Greedy structural shrinking.  test(program) -> bool (discrepancy still there).  Returns the
    smallest program found.  The tree of p is modified in place."""
    tree, root = p.tree, p.root
    best = p
    calls = [0]

    def attempt():
        if calls[0] >= budget:
            return None
        if progen.violations(tree, (p.opts or {}).get("avoid") or ()):
            return None
        try:
            q = progen.rerender(tree, root, p.seed, p.opts)
        except progen.Invalid:
            return None
        calls[0] += 1
        if not test(q):
            return None
        if valid is not None and not valid(q):
            return None
        return q

    changed = True
    while changed and calls[0] < budget:
        changed = False
        # 1. drop statements / body items (largest lists first)
        for lst in stmt_lists(tree):
            i = len(lst) - 1
            while i >= 0:
                if i >= len(lst):
                    i = len(lst) - 1
                    continue
                st = lst.pop(i)
                q = attempt()
                if q is not None:
                    best, changed = q, True
                else:
                    lst.insert(i, st)
                i -= 1
        # 1b. hoist the statements of a block into the enclosing list
        for lst in stmt_lists(tree):
            i = 0
            while i < len(lst):
                st = lst[i]
                subs = st.substmts() if hasattr(st, "substmts") and not isinstance(st, progen.Include) else []
                inner = [x for sub in subs for x in sub]
                if subs:
                    lst[i:i + 1] = inner
                    q = attempt()
                    if q is not None:
                        best, changed = q, True
                        continue
                    lst[i:i + len(inner)] = [st]
                i += 1
        # 2. bodies `{}` -> `;`, template argument lists, parents
        for lst in stmt_lists(tree):
            for st in lst:
                if isinstance(getattr(st, "items", None), list) and not st.items and not isinstance(st, progen.LetStmt):
                    st.items = None
                    q = attempt()
                    if q is not None:
                        best, changed = q, True
                    else:
                        st.items = []
                attrs = ("refs", "targs", "parents") if isinstance(st, progen.MulticlassStmt) else ("refs", "targs")
                for attr in attrs:
                    l2 = getattr(st, attr, None)
                    if not l2 or (attr == "refs" and len(l2) == 1):
                        continue
                    for i in range(len(l2) - 1, -1, -1):
                        x = l2.pop(i)
                        undo = None
                        if attr == "targs":
                            tg = st.decl.info["targs"]
                            if x.decl in tg:
                                j = tg.index(x.decl)
                                tg.pop(j)
                                undo = (tg, j, x.decl)
                        q = attempt()
                        if q is not None:
                            best, changed = q, True
                        else:
                            l2.insert(i, x)
                            if undo:
                                undo[0].insert(undo[1], undo[2])
        # 3. literals instead of expressions
        for get, set_, ty in expr_slots(tree):
            old = get()
            if isinstance(old, progen.Lit):
                continue
            lit = simple_literal(ty)
            if lit is None:
                continue
            set_(lit)
            q = attempt()
            if q is not None:
                best, changed = q, True
            else:
                set_(old)
        # 4. comments
        for o in doc_holders(tree):
            old = o.doc
            o.doc = progen.Doc()
            q = attempt()
            if q is not None:
                best, changed = q, True
            else:
                o.doc = old
    # leave the tree in the state of `best`
    try:
        best = progen.rerender(tree, root, p.seed, p.opts)
    except progen.Invalid:
        pass
    return best


# --------------------------------------------------------------------------------------------
# driver
# --------------------------------------------------------------------------------------------


def prog_size(p):
    return sum(len(t) for t in p.files.values())


INFORMATIONAL = [False]


def run_program(h, p):
    a = ask(h, p.files, p.root, queries_for(p))
    return a, check_program(p, a, INFORMATIONAL[0])


def fault_discrepancies(h, p, site, base):
    fp = progen.apply_fault(p, site)
    a = ask(h, fp.files, fp.root, [["diagnostics"]])
    return fp, check_fault(fp, a, base)


def merge_cov(total, cov):
    for k, v in cov.items():
        total[k] = total.get(k, 0) + v


def main(argv=None):
    ap = argparse.ArgumentParser()
    ap.add_argument("-n", type=int, default=300)
    ap.add_argument("--start", type=int, default=0)
    ap.add_argument("--size", type=int, default=6)
    ap.add_argument("--faults", type=int, default=3, help="fault sites sampled per fault class and program")
    ap.add_argument("--opts", default="{}")
    ap.add_argument("--no-shrink", action="store_true")
    ap.add_argument("--out", default=os.path.join(HERE, "findings.json"))
    ap.add_argument("--shrink-budget", type=int, default=250)
    ap.add_argument("--informational", action="store_true",
                    help="also report positions outside the quantifier (unvisited) and ambiguous doc layouts")
    args = ap.parse_args(argv)
    opts = json.loads(args.opts)
    INFORMATIONAL[0] = args.informational
    h = Harness()
    t0 = time.time()
    found = {}          # sig -> dict(count, seeds, best=(size, seed, detail, fault))
    cov, shadow, fcov, fsites, nonfaults = {}, {}, {}, {}, {}
    nprog = nwell = ndiagfree = nfaults = 0
    rng = random.Random(12345)
    nonfault_total = [0]

    def note(d, seed, size, fault=None):
        e = found.setdefault(d["sig"], dict(prop=d["prop"], clause=d["clause"], construct=d["construct"], count=0,
                                            seeds=[], best=None))
        e["count"] += 1
        if seed not in e["seeds"] and len(e["seeds"]) < 10:
            e["seeds"].append(seed)
        if e["best"] is None or size < e["best"][0]:
            e["best"] = (size, seed, d["detail"], fault)

    for seed in range(args.start, args.start + args.n):
        p = progen.generate(seed, args.size, opts)
        nprog += 1
        merge_cov(cov, p.cov)
        merge_cov(shadow, p.shadow)
        a, ds = run_program(h, p)
        for d in ds:
            note(d, seed, prog_size(p))
        if "crash" in a:
            continue
        if p.well_typed and (p.tblgen_ok or not audit.TBLGEN):
            nwell += 1
            base = all_diags(a)
            if not base:
                ndiagfree += 1
            sites = progen.fault_sites(p)
            by = {}
            for s in sites:
                by.setdefault((s["cls"], s["variant"]), []).append(s)
                fsites[s["cls"]] = fsites.get(s["cls"], 0) + 1
            for key in sorted(by):
                pick = by[key] if len(by[key]) <= args.faults else rng.sample(by[key], args.faults)
                for s in pick:
                    fp, fds = fault_discrepancies(h, p, s, base)
                    if fds and audit.TBLGEN and audit.run_tblgen(fp.files, fp.root)[0] == 0:
                        # llvm-tblgen accepts the mutated program (e.g. the site is in a branch that
                        # is never taken): not a fault, not counted
                        nonfaults["%s [%s]" % key] = nonfaults.get("%s [%s]" % key, 0) + 1
                        nonfault_total[0] += 1
                        continue
                    nfaults += 1
                    vk = "%s [%s]" % (s["cls"], s["variant"])
                    fcov[vk] = fcov.get(vk, 0) + 1
                    for d in fds:
                        note(d, seed, prog_size(p), fault=(s["cls"], s["sub"]))
    t1 = time.time()
    # shrink one witness per signature
    findings = []
    for sig in sorted(found):
        e = found[sig]
        size, seed, detail, fault = e["best"]
        p = progen.generate(seed, args.size, opts)
        witness = None
        if not args.no_shrink:
            if fault is None:
                def test(q, sig=sig):
                    a, ds = run_program(h, q)
                    return any(d["sig"] == sig for d in ds)
            else:
                def test(q, sig=sig, fault=fault):
                    a = ask(h, q.files, q.root, [["diagnostics"]])
                    if "crash" in a:
                        return False
                    base = all_diags(a)
                    n = 0
                    for s in progen.fault_sites(q):
                        if (s["cls"], s["sub"]) == fault:
                            n += 1
                            if n > 6:
                                break
                            fp, fds = fault_discrepancies(h, q, s, base)
                            if any(d["sig"] == sig for d in fds):
                                if audit.TBLGEN and q.tblgen_ok and audit.run_tblgen(fp.files, fp.root)[0] == 0:
                                    continue      # llvm-tblgen accepts the "fault": not a fault
                                return True
                    return False
            valid = None
            if audit.TBLGEN and p.tblgen_ok:
                # keep the witness acceptable to llvm-tblgen (and the faulted variant rejected)
                def valid(q):
                    return q.tblgen_ok and audit.run_tblgen(q.files, q.root)[0] == 0
            if test(p):
                p = shrink(h, p, test, args.shrink_budget, valid)
        # final evidence on the (shrunk) program
        if fault is None:
            a, ds = run_program(h, p)
            ev = [d for d in ds if d["sig"] == sig][:3]
            witness = dict(files=p.files, root=p.root, evidence=[d["detail"] for d in ev])
        else:
            a = ask(h, p.files, p.root, [["diagnostics"]])
            base = all_diags(a) if "crash" not in a else []
            witness = dict(files=p.files, root=p.root, evidence=[])
            for s in progen.fault_sites(p):
                if (s["cls"], s["sub"]) == fault:
                    fp, fds = fault_discrepancies(h, p, s, base)
                    ev = [d for d in fds if d["sig"] == sig]
                    if ev:
                        witness = dict(files=fp.files, root=fp.root, unfaulted_files=p.files,
                                       evidence=[d["detail"] for d in ev[:2]])
                        break
        findings.append(dict(sig=sig, prop=e["prop"], clause=e["clause"], construct=e["construct"],
                             count=e["count"], seeds=e["seeds"], witness=witness))
    h.close()
    summary = dict(programs=nprog, well_typed=nwell, well_typed_without_any_diagnostic=ndiagfree,
                   faults_seeded=nfaults, mutations_accepted_by_tblgen=nonfault_total[0], crashes=h.crashes, seconds_checking=round(t1 - t0, 1),
                   seconds_total=round(time.time() - t0, 1), size=args.size, opts=opts, start=args.start)
    with open(args.out, "w") as f:
        json.dump(dict(summary=summary, coverage=cov, shadowing=shadow, fault_coverage=fcov,
                       eligible_fault_sites=fsites, mutations_accepted_by_tblgen=nonfaults,
                       findings=findings), f, indent=1, default=str)
    print(json.dumps(summary))
    for fd in findings:
        print("%6d  %s" % (fd["count"], fd["sig"]))
    return 0


if __name__ == "__main__":
    sys.exit(main())
