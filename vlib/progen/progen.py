#!/usr/bin/env python3
"""Scope-tracking TableGen program generator with expectations known by construction.

    import progen
    p = progen.generate(seed, size)      # -> Program
    p.files, p.root, p.uses, p.decls, p.outline, p.folds, p.hovers, p.hints, p.well_typed
    sites = progen.fault_sites(p)        # every eligible single-fault site
    fp = progen.seed_fault(p, rng)       # -> FaultedProgram (one fault planted)

A Program is a tree of statement objects (`p.tree`: {path: [Stmt]}).  The expectations are
computed while *rendering* the tree, from the links fixed at generation time (a use node points
at the declaration object it was generated from), never by re-resolving names.  That makes it
possible to drop statements (shrinking) and re-render: `progen.rerender(tree, root, meta)`.

The scoping rules the generator relies on are those of the LLVM "TableGen Programmer's
Reference" (checked against llvm-tblgen 14 where it was unclear); see REPORT.md, section
"Rules used by the generator".
"""
import random

# --------------------------------------------------------------------------------------------
# types
# --------------------------------------------------------------------------------------------


class Ty:
    __slots__ = ("k", "n", "elem", "cls")

    def __init__(self, k, n=None, elem=None, cls=None):
        self.k, self.n, self.elem, self.cls = k, n, elem, cls

    def text(self):
        if self.k == "bits":
            return "bits<%d>" % self.n
        if self.k == "list":
            return "list<%s>" % self.elem.text()
        if self.k == "class":
            return self.cls.name
        return self.k

    def key(self):
        if self.k == "class":
            return ("class", id(self.cls))
        if self.k == "list":
            return ("list", self.elem.key())
        return (self.k, self.n)

    def __eq__(self, o):
        return isinstance(o, Ty) and self.key() == o.key()

    def __hash__(self):
        return hash(self.key())

    def __repr__(self):
        return "Ty(%s)" % self.text()


BIT, INT, STRING, DAG, CODE = Ty("bit"), Ty("int"), Ty("string"), Ty("dag"), Ty("code")


def BITS(n):
    return Ty("bits", n=n)


def LIST(t):
    return Ty("list", elem=t)


def CLASS(c):
    return Ty("class", cls=c)


def is_subclass(c, anc):
    """c is anc or derives (transitively) from anc.  c, anc: class Decl."""
    if c is anc:
        return True
    return any(is_subclass(p, anc) for p in c.info["parents"])


def assignable(src, dst):
    """Conservative: only the conversions the generator itself uses."""
    if src == dst:
        return True
    if {src.k, dst.k} == {"string", "code"}:
        return True
    if dst.k == "int" and src.k in ("bit", "bits"):
        return True          # (the other direction depends on the value fitting)
    if src.k == "class" and dst.k == "class":
        return is_subclass(src.cls, dst.cls)
    if src.k == "list" and dst.k == "list":
        return assignable(src.elem, dst.elem)
    return False


# --------------------------------------------------------------------------------------------
# declarations
# --------------------------------------------------------------------------------------------

KINDS = ("class", "def", "multiclass", "defm", "defset", "defvar", "foreach", "bangvar", "targ", "field")


class Decl:
    """One declaration.  `loc` = (file, start, end) of the declaring identifier, set by render."""

    def __init__(self, kind, name, ty=None, owner=None):
        self.kind, self.name, self.ty, self.owner = kind, name, ty, owner
        self.loc = None
        self.doc = None          # expected doc text (set by render), None = no doc
        self.doc_any = False     # doc text is not determined by the property text
        self.doc_tag = ""        # layout of the comment block above (for signatures)
        self.doc_amb = False     # a trailing comment of the previous line sits directly above
        self.where = ""          # nesting context where it was declared ("top", "foreach", ...)
        self.info = {}           # class: parents, targs, fields ; multiclass: targs

    def __repr__(self):
        return "<%s %s>" % (self.kind, self.name)

    def signature(self):
        """Hover signature format, learnt from handlers/hover.rs and its snapshots."""
        k = self.kind
        if k == "class":
            ta = ", ".join("%s %s" % (a.ty.text(), a.name) for a in self.info["targs"])
            return "class %s<%s>" % (self.name, ta) if ta else "class %s" % self.name
        if k == "def":
            return "def %s" % self.name
        if k == "multiclass":
            return "multiclass %s" % self.name
        if k == "defm":
            return "defm %s" % self.name
        if k == "field":
            return "%s %s::%s" % (self.ty.text(), self.owner.name, self.name)
        return "%s %s" % (self.ty.text(), self.name)


# --------------------------------------------------------------------------------------------
# writer: renders the tree and records every expectation
# --------------------------------------------------------------------------------------------


class Writer:
    def __init__(self):
        self.bufs = {}       # path -> list of str
        self.lens = {}       # path -> byte length so far
        self.cur = None
        self.fstack = []
        self.indent = 0
        self.uses = []       # dict(file,start,end,name,decl,tag,visited)
        self.decl_sites = [] # Decl (in render order)
        self.outline = {}    # file -> list of nodes
        self.ostack = []     # defset nesting for the outline
        self.folds = {}      # file -> list (start,end,kind)
        self.hints = {}      # file -> list dict(pos,label,kind,tag)
        self.classrefs = []  # dict(file, span, name_span, target, args:[(span,name,ty)], angle, ctx)
        self.values = []     # typed value sites: dict(file, span, ty, ctx)
        self.bangs = []      # dict(file, span, op_span, op, args:[span], lo, hi)
        self.includes = []   # dict(file, span, str_span, target)
        self.stmt_ends = []  # dict(file, pos, kind): position of a mandatory terminator token
        self.stmt_gaps = []  # dict(file, pos): top-level position between two statements
        self.overrides = []  # let sites: dict(file,start,end,field,owner)
        self.known_false = []  # sites where the implementation is KNOWN to report a false diagnostic: dict(file,start,end,kind)
        self.regions = []      # dict(file,start,end,cause,mode): text whose discrepancies get the construct name `cause`
        self.nest = []       # nesting context names
        self.cov = {}        # coverage counters
        self.tick = 0        # global rendering order (bytes written so far, all files)
        self.bps = {}        # file -> [(pos, tick)] breakpoints to map positions to global order
        self.closed = {}     # file -> tick at which the file was completely rendered
        self.rid = object()  # identity of this rendering (stale locations are detected with it)
        self.scopes = [0]    # ids of the open scope-forming constructs (0 = global)
        self.nscopes = 0

    # -- low level
    def open(self, path):
        self.fstack.append((self.cur, self.indent))
        self.cur = path
        self.indent = 0
        self.bufs.setdefault(path, [])
        self.lens.setdefault(path, 0)
        self.outline.setdefault(path, [])
        self.folds.setdefault(path, [])
        self.hints.setdefault(path, [])
        self.bps.setdefault(path, []).append((self.lens[path], self.tick))

    def close(self):
        self.closed[self.cur] = self.tick
        self.cur, self.indent = self.fstack.pop()
        if self.cur is not None:
            self.bps[self.cur].append((self.lens[self.cur], self.tick))

    def tick_of(self, file, pos):
        best = self.bps[file][0]
        for bp in self.bps[file]:
            if bp[0] <= pos:
                best = bp
        return best[1] + (pos - best[0])

    def pos(self):
        return self.lens[self.cur]

    def push_scope(self):
        self.nscopes += 1
        self.scopes.append(self.nscopes)

    def pop_scope(self):
        self.scopes.pop()

    def put(self, s):
        self.bufs[self.cur].append(s)
        n = len(s.encode("utf-8"))
        self.lens[self.cur] += n
        self.tick += n

    def nl(self):
        self.put("\n" + "  " * self.indent)

    def count(self, key, n=1):
        self.cov[key] = self.cov.get(key, 0) + n

    def ctx(self):
        return self.nest[-1] if self.nest else "top"

    # -- identifiers
    def decl(self, d):
        s = self.pos()
        self.put(d.name)
        d.loc = (self.cur, s, self.pos())
        d.rid = self.rid
        d.scope, d.order = self.scopes[-1], self.tick
        d.where = "/".join(self.nest) or "top"
        self.decl_sites.append(d)
        self.count("decl:%s@%s" % (d.kind, self.ctx()))
        return d.loc

    def use(self, d, name, tag, visited=True):
        """d = Decl or None (deliberately out of scope).  visited=False: a position the
        indexer is known not to walk (outside the C05 quantifier; reported separately)."""
        s = self.pos()
        self.put(name)
        self.uses.append(dict(file=self.cur, start=s, end=self.pos(), name=name, decl=d, tag=tag,
                              visited=visited, ctx=self.ctx(), path="/".join(self.nest), scopes=tuple(self.scopes), order=self.tick))
        self.count("use:%s" % tag)

    def text(self):
        return {p: "".join(b) for p, b in self.bufs.items()}


# --------------------------------------------------------------------------------------------
# expressions
# --------------------------------------------------------------------------------------------


class Expr:
    ty = None

    def render(self, w):
        raise NotImplementedError

    def children(self):
        return []


class Lit(Expr):
    def __init__(self, text, ty):
        self.t, self.ty = text, ty

    def render(self, w):
        w.put(self.t)


class IdUse(Expr):
    def __init__(self, decl, ty, tag, name=None):
        self.decl, self.ty, self.tag = decl, ty, tag
        self.name = name or decl.name

    def render(self, w):
        w.use(self.decl, self.name, self.tag)


def range_text(r, n, k):
    """A range list selecting k bits of a bits<n> value (all indexes < n), in one of TableGen's spellings."""
    if k == 1:
        return str(r.randrange(n))
    lo = r.randint(0, n - k)
    hi = lo + k - 1
    style = r.choice(["hi-lo", "hi-lo", "hi...lo", "lo-hi", "lo...hi", "list"])
    if style == "hi-lo":
        return "%d-%d" % (hi, lo)
    if style == "hi...lo":
        return "%d...%d" % (hi, lo)
    if style == "lo-hi":
        return "%d-%d" % (lo, hi)
    if style == "lo...hi":
        return "%d...%d" % (lo, hi)
    if k == 2:
        return "%d, %d" % (hi, lo)
    return "%d, %d-%d" % (hi, hi - 1, lo)


class BitRange(Expr):
    """`v{3-0}`: bits of a bits-typed value; ty = bits<k> (one index: a single bit)."""

    def __init__(self, base, text, ty):
        self.base, self.text, self.ty = base, text, ty

    def render(self, w):
        self.base.render(w)
        w.put("{" + self.text + "}")
        w.count("suffix:bit-range:%s" % ("single" if self.ty.k == "bit" or self.ty.n == 1 else
                                          ("list" if "," in self.text else ("dots" if "..." in self.text else "dash"))))

    def children(self):
        return [self.base]


def starts_with_brace(e):
    if isinstance(e, Lit):
        return e.t.startswith("{")
    if isinstance(e, Marked):
        return starts_with_brace(e.inner)
    return isinstance(e, BitsCat)


class ListLit(Expr):
    def __init__(self, elems, ty):
        self.elems, self.ty = elems, ty

    trailing_comma = False
    annot = None

    def render(self, w):
        w.put("[")
        for i, e in enumerate(self.elems):
            if i:
                w.put(", ")
            elif starts_with_brace(e):
                w.put(" ")       # `[{` would start a code block
            s0 = w.pos()
            e.render(w)
            if self.ty is not None and self.ty.k == "list" and len(self.elems) > 1:
                # (for the fault seeder: one element of another type makes the literal ill-typed)
                w.values.append(dict(file=w.cur, span=(s0, w.pos()), ty=self.ty.elem, ctx="list-element:%s" % ("first" if i == 0 else "rest")))
        if self.trailing_comma and self.elems:
            w.put(",")
            w.count("list:trailing-comma")
        w.put("]")
        if self.annot is not None:
            s1 = w.pos()
            w.put("<")
            render_type(w, self.annot, "empty-list-type")       # [a, b]<T>: the element type written out
            w.put(">")
            w.regions.append(dict(file=w.cur, start=s1, end=w.pos(), cause="typed-empty-list", mode="inside"))
            w.count("list:typed-literal")

    def children(self):
        return self.elems


class Paste(Expr):
    def __init__(self, parts):
        self.parts, self.ty = parts, STRING

    def render(self, w):
        for i, e in enumerate(self.parts):
            if i:
                w.put(" # ")
            e.render(w)

    def children(self):
        return self.parts


class DagLit(Expr):
    def __init__(self, op, args):
        self.op, self.args, self.ty = op, args, DAG  # args: [(Expr | None, name|None)]; (None, name): a bare `$name`

    def render(self, w):
        w.put("(")
        self.op.render(w)
        for i, (e, n) in enumerate(self.args):
            w.put(" " if i == 0 else ", ")
            if e is None:
                w.put("$" + n)
                w.count("dag:bare-name")
                continue
            e.render(w)
            if n:
                w.put(":$" + n)
                w.count("dag:named-arg")
        w.put(")")
        w.count("dag:%d-args" % len(self.args))

    def children(self):
        return [self.op] + [e for e, _ in self.args if e is not None]


class DefmRecordUse(Expr):
    """The name of a record created by a defm (`defm dm : M;` + `def _x` in M -> `dm_x`): valid TableGen, no declaring
    identifier in the text.  The indexer does not create these records (known finding defm_record_use)."""

    def __init__(self, name, ty):
        self.name, self.ty = name, ty

    def render(self, w):
        s = w.pos()
        w.put(self.name)
        w.known_false.append(dict(file=w.cur, start=s, end=w.pos(), kind="defm_record_use"))
        w.count("use:defm-record")


class ForeachRecordUse(Expr):
    """The name of a record created by `foreach i = 0...3 in def R#i : ...;` (`R0`): valid TableGen, no declaring identifier
    in the text.  The indexer knows one def `R` only."""

    def __init__(self, name, ty):
        self.name, self.ty = name, ty

    def render(self, w):
        s = w.pos()
        w.put(self.name)
        w.known_false.append(dict(file=w.cur, start=s, end=w.pos(), kind="foreach_record_use"))
        w.count("use:foreach-record")


class Marked(Expr):
    """An expression whose discrepancies are reported under one construct name (a defect found with this construct).
    mode 'inside': discrepancies located inside the expression; 'contains': located at a range that contains it."""

    def __init__(self, inner, cause, mode="inside"):
        self.inner, self.cause, self.mode, self.ty = inner, cause, mode, inner.ty

    def render(self, w):
        s = w.pos()
        self.inner.render(w)
        w.regions.append(dict(file=w.cur, start=s, end=w.pos(), cause=self.cause, mode=self.mode))
        w.count("construct:" + self.cause)

    def children(self):
        return [self.inner]


class BitsCat(Expr):
    """`{ x{1-0}, 1, 0b10, y }`: a bits value written as the concatenation of bits of any width."""

    def __init__(self, elems, ty):
        self.elems, self.ty = elems, ty

    def render(self, w):
        w.put("{")
        for i, e in enumerate(self.elems):
            if i:
                w.put(", ")
            e.render(w)
        w.put("}")

    def children(self):
        return self.elems


class TypedEmptyList(Expr):
    """`[]<T>`: the empty list of element type T"""

    def __init__(self, ty):
        self.ty = ty

    def render(self, w):
        s = w.pos()
        w.put("[]<")
        render_type(w, self.ty.elem, "empty-list-type")
        w.put(">")
        w.regions.append(dict(file=w.cur, start=s, end=w.pos(), cause="typed-empty-list", mode="inside"))
        w.count("list:typed-empty")


class ListSlice(Expr):
    """`l[0]` (an element) or `l[0...1]`, `l[1-2]`, `l[0, 2]` (a list)."""

    def __init__(self, base, text, ty):
        self.base, self.text, self.ty = base, text, ty

    def render(self, w):
        self.base.render(w)
        w.put("[" + self.text + "]")
        w.count("suffix:list-%s" % ("element" if self.ty.k != "list" or "," not in self.text and "-" not in self.text and "." not in self.text
                                    else "slice"))

    def children(self):
        return [self.base]


class Cond(Expr):
    """!cond(c1: v1, c2: v2, true: vn)"""

    def __init__(self, clauses, ty):
        self.clauses, self.ty = clauses, ty

    def render(self, w):
        s = w.pos()
        w.put("!cond(")
        for i, (c, v) in enumerate(self.clauses):
            if i:
                w.put(", ")
            c.render(w)
            w.put(": ")
            v.render(w)
        w.put(")")
        w.count("bang:cond")

    def children(self):
        return [x for cv in self.clauses for x in cv]


class FieldAccess(Expr):
    def __init__(self, base, field, tag, visited=True):
        self.base, self.field, self.ty, self.tag, self.visited = base, field, field.ty, tag, visited

    def render(self, w):
        self.base.render(w)
        w.put(".")
        w.use(self.field, self.field.name, self.tag, visited=self.visited)

    def children(self):
        return [self.base]


class ClassRef:
    """`C<a, b, n = c>` in a parent list, a class value or a defm.  target: class/multiclass Decl."""

    def __init__(self, target, args, angle, tag):
        self.target, self.args, self.angle, self.tag = target, args, angle, tag  # args: [(pname|None, Expr, param Decl)]
        self.undefined_name = None

    def render(self, w, ctx):
        s = self.pos0 = w.pos()
        w.use(self.target, self.target.name, self.tag)
        ne = w.pos()
        arginfo = []
        params = self.target.info["targs"]
        if any(prm not in params for _, _, prm in self.args) or \
                sum(1 for q in params if not q.info.get("default")) > len(self.args):
            raise Invalid("argument list does not fit the parameters any more")
        if self.angle:
            w.put("<")
            for i, (pname, e, param) in enumerate(self.args):
                if i:
                    w.put(", ")
                a0 = w.pos()
                if pname is None:
                    label = param.name + ":"
                    w.hints[w.cur].append(dict(pos=a0, label=label, kind="TemplateArg",
                                               tag="%s-arg" % ("multiclass" if self.target.kind == "multiclass" else ctx)))
                    w.count("hint:targ:%s" % ("multiclass" if self.target.kind == "multiclass" else ctx))
                else:
                    w.use(param, pname, "named-arg-name", visited=False)
                    w.put(" = ")
                    w.count("named-arg")
                v0 = w.pos()
                e.render(w)
                arginfo.append(dict(span=(a0, w.pos()), vspan=(v0, w.pos()), name=pname, ty=param.ty, param=param))
            w.put(">")
        params = self.target.info["targs"]
        w.classrefs.append(dict(file=w.cur, span=(s, w.pos()), name_span=(s, ne), target=self.target,
                                args=arginfo, angle=self.angle, ctx=ctx, path="/".join(w.nest),
                                nparams=len(params), nreq=sum(1 for p in params if not p.info.get("default")),
                                named=any(a["name"] for a in arginfo)))
        w.count("classref:%s:%d-args%s" % (ctx, len(self.args), ":named" if any(a["name"] for a in arginfo) else ""))

    def exprs(self):
        return [e for _, e, _ in self.args]


class ClassValue(Expr):
    def __init__(self, ref, ty):
        self.ref, self.ty = ref, ty

    def render(self, w):
        self.ref.render(w, "classvalue")

    def children(self):
        return self.ref.exprs()


class Bang(Expr):
    """!op<annot>(args).  vars: bang-operator variables declared by this operator (Decl), rendered
    as the declaring identifiers at the given argument indexes."""

    ARITY = {"add": (2, None), "mul": (2, None), "and": (2, None), "or": (2, None), "sub": (2, 2),
             "eq": (2, 2), "ne": (2, 2), "lt": (2, 2), "le": (2, 2), "gt": (2, 2), "ge": (2, 2),
             "if": (3, 3), "strconcat": (2, None), "listconcat": (2, None), "size": (1, 1),
             "head": (1, 1), "tail": (1, 1), "empty": (1, 1), "foreach": (3, 3), "foldl": (5, 5),
             "filter": (3, 3), "cast": (1, 1), "isa": (1, 1), "not": (1, 1), "xor": (2, None), "shl": (2, 2),
             "srl": (2, 2), "sra": (2, 2), "find": (2, 3), "interleave": (2, 2), "substr": (2, 3), "subst": (3, 3),
             "listsplat": (2, 2), "con": (2, None), "dag": (3, 3), "setdagop": (2, 2), "getdagop": (1, 1)}

    def __init__(self, op, args, ty, annot=None, vars=None):
        self.op, self.args, self.ty, self.annot, self.vars = op, args, ty, annot, vars or {}

    def render(self, w):
        s = w.pos()
        w.put("!" + self.op)
        oe = w.pos()
        if self.annot is not None:
            w.put("<")
            render_type(w, self.annot, "bang-type")
            w.put(">")
        w.put("(")
        spans = []
        if self.vars:
            w.push_scope()
        for i, a in enumerate(self.args):
            if i:
                w.put(", ")
            a0 = w.pos()
            if i in self.vars:
                w.decl(self.vars[i])
            else:
                a.render(w)
            spans.append((a0, w.pos()))
        if self.vars:
            w.pop_scope()
        w.put(")")
        lo, hi = Bang.ARITY[self.op]
        w.bangs.append(dict(file=w.cur, span=(s, w.pos()), op_span=(s, oe), op=self.op, args=spans, lo=lo, hi=hi))
        w.count("bang:" + self.op)

    def children(self):
        return [a for i, a in enumerate(self.args) if i not in self.vars]


def render_type(w, ty, tag):
    if ty.k == "class":
        # before the definition of a forward-declared class: which of the two `class X` is "the" declaration is open
        early = ty.cls.info.get("forward") and getattr(ty.cls, "rid", None) is not w.rid
        w.use(ty.cls, ty.cls.name, tag + (":before-definition" if early else ""), visited=None if early else True)
    elif ty.k == "list":
        w.put("list<")
        render_type(w, ty.elem, tag)
        w.put(">")
    else:
        w.put(ty.text())
    w.count("type:" + ty.k)


def render_value(w, e, expect, ctx, fwd=False):
    """Render a value in a typed context and remember the site (for the type-fault seeder)."""
    s = w.pos()
    e.render(w)
    w.values.append(dict(file=w.cur, span=(s, w.pos()), ty=expect, ctx=ctx))
    if fwd:
        # the field was declared with a class type before that class was defined
        w.known_false.append(dict(file=w.cur, start=s, end=w.pos(), kind="forward_class"))


# --------------------------------------------------------------------------------------------
# doc comments
# --------------------------------------------------------------------------------------------


class Doc:
    """Lines rendered above a declaration.  items: ('c', text) a `//` comment line, ('blank',),
    ('block', text) a /* */ comment line, ('trail', text) a trailing comment on the previous
    line (only as first item)."""

    def __init__(self, items=()):
        self.items = list(items)

    def expected(self):
        """-> (doc text or None, tag, ambiguous)"""
        lines = []
        stopped = None
        for it in reversed(self.items):
            if it[0] == "c":
                lines.append(it[1].strip())
            else:
                stopped = it[0]
                break
        lines.reverse()
        n = len(lines)
        if not self.items:
            tag = "no-comment"
        elif n == 0:
            tag = "comment-then-%s" % stopped
        elif stopped is None:
            tag = "%s-line%s" % ("1" if n == 1 else "n", "" if n == 1 else "s")
        else:
            tag = "%s-above-lines" % stopped
        amb = stopped == "trail"
        return ("\n".join(lines) if lines else None), tag, amb

    def render(self, w):
        for it in self.items:
            if it[0] == "trail":
                w.put(" // " + it[1])
            elif it[0] == "c":
                w.nl()
                w.put("//" + it[1])
            elif it[0] == "blank":
                w.put("\n")
            elif it[0] == "block":
                w.nl()
                w.put("/* " + it[1] + " */")


NODOC = Doc()


def begin_stmt(w, st):
    """Start a statement on a fresh line, preceded by its comment block."""
    doc = getattr(st, "doc", None) or NODOC
    doc.render(w)
    w.nl()
    return doc


def set_doc(d, doc, inline=False):
    if inline:
        d.doc, d.doc_tag, d.doc_amb = None, "inline", False
        return
    d.doc, d.doc_tag, d.doc_amb = doc.expected()


# --------------------------------------------------------------------------------------------
# statements
# --------------------------------------------------------------------------------------------


def onode(kind, name, loc, typ, children=None, lenient_name=False, optional=False):
    return dict(kind=kind, name=name, range=[loc[1], loc[2]], typ=typ, children=children or [],
                lenient_name=lenient_name, optional=optional)


class Stmt:
    kind = "?"
    doc = None
    foldable = False

    def render(self, w, inline=False):
        if not inline:
            begin_stmt(w, self)
        s = w.pos()
        self.body(w, inline)
        e = w.pos()
        self.span = (w.cur, s, e)
        if self.foldable:
            w.folds[w.cur].append((s, e, self.kind))
            w.count("fold:%s@%s" % (self.kind, w.ctx()))
        w.count("stmt:%s@%s" % (self.kind, w.ctx()))

    def substmts(self):
        """Lists of child statements (mutable lists, used by the shrinker)."""
        return []


def render_block(w, stmts, braces, ctx):
    w.nest.append(ctx)
    if ctx != "defset":
        w.push_scope()
    if braces or len(stmts) != 1 or isinstance(stmts[0], Include):
        w.put("{")
        w.indent += 1
        for st in stmts:
            st.render(w)
        w.indent -= 1
        w.nl()
        w.put("}")
        w.stmt_ends.append(dict(file=w.cur, pos=w.pos() - 1, kind="}"))
    else:
        st = stmts[0]
        if st.doc and st.doc.items:
            w.indent += 1
            st.render(w)
            w.indent -= 1
        else:
            st.render(w, inline=True)
    if ctx != "defset":
        w.pop_scope()
    w.nest.pop()


class Include(Stmt):
    kind = "include"

    def __init__(self, relpath, target):
        self.relpath, self.target = relpath, target  # target: path of the included file

    def body(self, w, inline):
        s = w.pos()
        w.put('include "')
        s1 = w.pos()
        w.put(self.relpath)
        e1 = w.pos()
        w.put('"')
        w.includes.append(dict(file=w.cur, span=(s, w.pos()), str_span=(s1, e1), target=self.target))
        tree = w.tree
        if self.target in tree and self.target not in w.bufs:
            w.open(self.target)
            render_file(w, tree[self.target])
            w.close()


class TArg:
    def __init__(self, decl, default=None, doc=None):
        self.decl, self.default, self.doc = decl, default, doc


def render_targs(w, targs, multiline):
    if not targs:
        return
    w.put("<")
    if multiline:
        w.indent += 2
    for i, a in enumerate(targs):
        if i:
            w.put(",")
            if not multiline:
                w.put(" ")
        if multiline:
            doc = a.doc or NODOC
            doc.render(w)
            w.nl()
            set_doc(a.decl, doc)
        else:
            set_doc(a.decl, NODOC, inline=True)
        render_type(w, a.decl.ty, "targ-type")
        w.put(" ")
        w.decl(a.decl)
        if a.default is not None:
            w.put(" = ")
            render_value(w, a.default, a.decl.ty, "targ-default")
            w.count("targ:default")
        else:
            w.count("targ:nodefault")
    if multiline:
        w.indent -= 2
    w.put(">")


def render_parents(w, parents, ctx):
    for i, r in enumerate(parents):
        w.put(" : " if i == 0 else ", ")
        # `defm m : M<1>, Tag, Sched<3>;`: classes after the multiclasses become parents of every def created
        r.render(w, "defm-class" if ctx == "defm-ref" and r.target.kind == "class" else ctx)


class FieldDef:
    kind = "fielddef"

    def __init__(self, decl, expr=None, doc=None):
        self.decl, self.expr, self.doc = decl, expr, doc

    def render(self, w, inline, children):
        if not inline:
            d = begin_stmt(w, self)
            set_doc(self.decl, d)
        else:
            set_doc(self.decl, NODOC, inline=True)
        render_type(w, self.decl.ty, "field-type")
        w.put(" ")
        loc = w.decl(self.decl)
        children.append(onode("Field", self.decl.name, loc, self.decl.ty.text()))
        if self.expr is not None:
            w.put(" = ")
            render_value(w, self.expr, self.decl.ty, "field-init")
        w.put(";")
        w.stmt_ends.append(dict(file=w.cur, pos=w.pos() - 1, kind=";"))
        w.count("field:%s:%s" % (self.decl.ty.k, "init" if self.expr is not None else "noinit"))


class FieldLet:
    kind = "fieldlet"

    def __init__(self, field, expr, doc=None, rng=None, vty=None):
        # rng: range list text of `let f{3-0} = v;` (vty: the type of the selected bits)
        self.field, self.expr, self.doc, self.rng, self.vty = field, expr, doc, rng, vty

    def render(self, w, inline, children):
        if not inline:
            begin_stmt(w, self)
        w.put("let ")
        s = w.pos()
        w.use(self.field, self.field.name, "let-field-name" + (":range" if self.rng else ""))
        e = w.pos()
        # a field that already has a child in this body (declared here, or an earlier `let` of it): the property
        # does not say whether it is listed once or per statement
        dup = any(c["name"] == self.field.name for c in children)
        children.append(onode("Field", self.field.name, (w.cur, s, e), self.field.ty.text(), optional=dup))
        w.hints[w.cur].append(dict(pos=e, label=":" + self.field.ty.text(), kind="FieldLet",
                                   tag="field-let" + (":range" if self.rng else "")))
        w.overrides.append(dict(file=w.cur, start=s, end=e, field=self.field))
        if self.rng:
            w.put("{" + self.rng + "}")
            w.count("let:range:%s" % ("single" if "," not in self.rng and "-" not in self.rng and "." not in self.rng else "multi"))
        w.put(" = ")
        render_value(w, self.expr, self.vty or self.field.ty, "let-value" + (":range" if self.rng else ""),
                     fwd=bool(self.field.info.get("fwd_typed")))
        w.put(";")
        w.stmt_ends.append(dict(file=w.cur, pos=w.pos() - 1, kind=";"))
        w.count("hint:fieldlet")


class BodyDefvar:
    kind = "bodydefvar"

    def __init__(self, decl, expr, doc=None):
        self.decl, self.expr, self.doc = decl, expr, doc

    def render(self, w, inline, children):
        if not inline:
            d = begin_stmt(w, self)
            set_doc(self.decl, d)
        else:
            set_doc(self.decl, NODOC, inline=True)
        w.put("defvar ")
        w.decl(self.decl)
        w.put(" = ")
        self.expr.render(w)
        w.put(";")
        w.stmt_ends.append(dict(file=w.cur, pos=w.pos() - 1, kind=";"))


def render_body(w, items, oneline, ctx):
    """Record body: None -> `;`, list -> `{ ... }`.  Returns outline children."""
    children = []
    if items is None:
        w.put(";")
        w.stmt_ends.append(dict(file=w.cur, pos=w.pos() - 1, kind=";"))
        w.count("body:semicolon")
        return children
    w.nest.append(ctx)
    w.put(" {")
    if oneline and all(not (it.doc and it.doc.items) for it in items):
        for it in items:
            w.put(" ")
            it.render(w, True, children)
        w.put(" }")
        w.count("body:oneline")
    else:
        w.indent += 1
        for it in items:
            it.render(w, False, children)
        w.indent -= 1
        w.nl()
        w.put("}")
        w.count("body:multiline")
    w.stmt_ends.append(dict(file=w.cur, pos=w.pos() - 1, kind="}"))
    w.nest.pop()
    return children


class ClassStmt(Stmt):
    kind, foldable = "class", True

    def __init__(self, decl, targs, parents, items, doc=None, multiline=False, oneline=False):
        self.decl, self.targs, self.parents, self.items = decl, targs, parents, items
        self.doc, self.multiline, self.oneline = doc, multiline, oneline

    def body(self, w, inline):
        set_doc(self.decl, self.doc or NODOC, inline)
        w.put("class ")
        loc = w.decl(self.decl)
        w.push_scope()
        w.nest.append("class")
        render_targs(w, self.targs, self.multiline)
        render_parents(w, self.parents, "class-parent")
        w.nest.pop()
        ch = [onode("TemplateArgument", a.decl.name, a.decl.loc, a.decl.ty.text()) for a in self.targs]
        ch += render_body(w, self.items, self.oneline, "class")
        w.pop_scope()
        (w.ostack[-1] if w.ostack else w.outline[w.cur]).append(onode("Class", self.decl.name, loc, "class", ch))
        w.count("class:%d-targs:%d-parents:%s" % (len(self.targs), len(self.parents), "body" if self.items is not None else "nobody"))


class ForwardClassStmt(Stmt):
    """`class X;` before the definition of X (known finding forward_class: the indexer makes two class symbols)."""
    kind, foldable = "class", True

    def __init__(self, decl, doc=None):
        self.decl, self.doc = decl, doc

    def body(self, w, inline):
        w.put("class ")
        s = w.pos()
        w.use(self.decl, self.decl.name, "forward-class-declaration", visited=None)
        (w.ostack[-1] if w.ostack else w.outline[w.cur]).append(
            onode("Class", self.decl.name, (w.cur, s, w.pos()), "class", [], optional=True))
        w.put(";")
        w.stmt_ends.append(dict(file=w.cur, pos=w.pos() - 1, kind=";"))
        w.count("class:forward-declaration")


class DefStmt(Stmt):
    kind, foldable = "def", True

    def __init__(self, decl, suffix, parents, items, doc=None, oneline=False, name_prefix=False):
        # decl None: anonymous.  suffix: list of Expr pasted to the name (`def d#i`)
        # name_prefix: `def NAME#_y` inside a multiclass (the explicit spelling of the implicit prefix)
        self.decl, self.suffix, self.parents, self.items = decl, suffix, parents, items
        self.doc, self.oneline, self.name_prefix = doc, oneline, name_prefix
        self.name_string = None      # `def "name"` / `def !strconcat("na", "me")`: the name is no identifier

    def body(self, w, inline):
        if self.name_string is not None and self.decl is not None:
            return self.body_string_named(w, inline)
        w.put("def")
        loc = nloc = None
        if self.decl is not None:
            set_doc(self.decl, self.doc or NODOC, inline)
            w.put(" ")
            if self.name_prefix:
                s = w.pos()
                w.put("NAME")
                nloc = (w.cur, s, w.pos())
                w.put("#")
                w.count("def:NAME-prefix")
            loc = w.decl(self.decl)
            for e in self.suffix:
                w.put("#")
                if isinstance(e, IdUse):
                    w.use(e.decl, e.name, "def-name-paste", visited=False)
                else:
                    e.render(w)
            w.count("def:%s" % ("pasted" if self.suffix else "named"))
        else:
            w.count("def:anonymous")
        w.push_scope()
        w.nest.append("def")
        render_parents(w, self.parents, "def-parent")
        w.nest.pop()
        ch = render_body(w, self.items, self.oneline, "def")
        w.pop_scope()
        if self.decl is not None:
            dst = w.ostack[-1] if w.ostack else w.outline[w.cur]
            if nloc is not None:
                # which token of `NAME#_y` is "the declaring identifier" is open: either is accepted
                dst.append(onode("Def", self.decl.name, nloc, "def", ch, lenient_name=True, optional=True))
                dst.append(onode("Def", self.decl.name, loc, "def", ch, lenient_name=True, optional=True))
            else:
                dst.append(onode("Def", self.decl.name, loc, "def", ch, lenient_name=bool(self.suffix)))


def _body_string_named(self, w, inline):
    """def "name" : parents { body } - everything inside is an ordinary use; the def itself has no declaring identifier"""
    s0 = w.pos()
    w.put("def ")
    s = w.pos()
    w.put(self.name_string)
    nloc = (w.cur, s, w.pos())
    w.count("def:string-name")
    w.push_scope()
    w.nest.append("def")
    render_parents(w, self.parents, "def-parent")
    w.nest.pop()
    ch = render_body(w, self.items, self.oneline, "def")
    w.pop_scope()
    nd = onode("Def", self.decl.name, nloc, "def", ch, lenient_name=True)
    nd["within"] = True      # a named def: it must be listed; any range inside the name token is accepted
    # a name that has to be COMPUTED (`!strconcat(..)`, `"a" # "b"`, an empty string) is not a name the outline can be asked for
    import re as _re
    if not _re.fullmatch(r'"[^"\\]+"', self.name_string.strip()):
        nd["optional"] = True
    nd["cause"] = "def-with-string-name"
    (w.ostack[-1] if w.ostack else w.outline[w.cur]).append(nd)
    w.regions.append(dict(file=w.cur, start=s0, end=w.pos(), cause="def-with-string-name", mode="inside"))


DefStmt.body_string_named = _body_string_named


class DefvarStmt(Stmt):
    kind = "defvar"

    def __init__(self, decl, expr, doc=None):
        self.decl, self.expr, self.doc = decl, expr, doc

    def body(self, w, inline):
        set_doc(self.decl, self.doc or NODOC, inline)
        w.put("defvar ")
        w.decl(self.decl)
        w.put(" = ")
        self.expr.render(w)
        w.put(";")
        w.stmt_ends.append(dict(file=w.cur, pos=w.pos() - 1, kind=";"))


class AssertStmt(Stmt):
    """`assert cond, message;` as a statement or as a record body item."""
    kind = "assert"

    def __init__(self, cond, msg, doc=None):
        self.cond, self.msg, self.doc = cond, msg, doc

    def body(self, w, inline):
        w.put("assert ")
        self.cond.render(w)
        w.put(", ")
        self.msg.render(w)
        w.put(";")
        w.stmt_ends.append(dict(file=w.cur, pos=w.pos() - 1, kind=";"))

    def render(self, w, inline=False, children=None):
        if children is not None:          # body item protocol: render(w, inline, children)
            if not inline:
                begin_stmt(w, self)
            self.body(w, inline)
            w.count("stmt:assert@body")
            return
        Stmt.render(self, w, inline)


class ForeachStmt(Stmt):
    kind, foldable = "foreach", True

    def __init__(self, decl, init, stmts, braces, doc=None):
        # init: Expr (list valued) or ("range", text)
        self.decl, self.init, self.stmts, self.braces, self.doc = decl, init, stmts, braces, doc

    def body(self, w, inline):
        self.decl.doc, self.decl.doc_tag, self.decl.doc_amb = None, "foreach-iterator", False
        self.decl.doc_any = bool(self.doc and self.doc.items) and not inline
        w.put("foreach ")
        w.push_scope()
        w.decl(self.decl)
        w.put(" = ")
        if isinstance(self.init, tuple):
            w.put(self.init[1])
            w.count("foreach:range")
        else:
            self.init.render(w)
            w.count("foreach:list")
        w.put(" in ")
        render_block(w, self.stmts, self.braces, "foreach")
        w.pop_scope()

    def substmts(self):
        return [self.stmts]


class IfStmt(Stmt):
    kind, foldable = "if", True

    def __init__(self, cond, then, els, tbr, ebr, doc=None):
        self.cond, self.then, self.els, self.tbr, self.ebr, self.doc = cond, then, els, tbr, ebr, doc

    def body(self, w, inline):
        w.put("if ")
        self.cond.render(w)
        w.put(" then ")
        # `if a then if b then X else Y`: the else would bind to the inner if
        dangling = self.els is not None and len(self.then) == 1 and isinstance(self.then[0], (IfStmt, ForeachStmt, LetStmt))
        render_block(w, self.then, self.tbr or dangling, "if")
        if self.els is not None:
            w.put(" else ")
            render_block(w, self.els, self.ebr, "if")
            w.count("if:else")
        else:
            w.count("if:noelse")

    def substmts(self):
        return [self.then] + ([self.els] if self.els is not None else [])


class LetStmt(Stmt):
    kind, foldable = "let", True

    def __init__(self, items, stmts, braces, doc=None, ranges=None):
        self.items, self.stmts, self.braces, self.doc = items, stmts, braces, doc  # items: [(field Decl, Expr)]
        self.ranges = ranges or {}      # item index -> (range list text, type of the selected bits)

    def body(self, w, inline):
        w.put("let ")
        for i, (f, e) in enumerate(self.items):
            if i:
                w.put(", ")
            w.use(f, f.name, "let-in-field-name", visited=False)
            vty = f.ty
            if i in self.ranges:
                w.put("<" + self.ranges[i][0] + ">")       # (the statement form spells the bit range with angle brackets)
                vty = self.ranges[i][1]
                w.count("let-in:range")
            w.put(" = ")
            render_value(w, e, vty, "let-in-value")
        w.put(" in ")
        render_block(w, self.stmts, self.braces, "let")

    def substmts(self):
        return [self.stmts]


class DefsetStmt(Stmt):
    kind, foldable = "defset", True

    def __init__(self, decl, stmts, doc=None):
        self.decl, self.stmts, self.doc = decl, stmts, doc

    def body(self, w, inline):
        set_doc(self.decl, self.doc or NODOC, inline)
        w.put("defset ")
        render_type(w, self.decl.ty, "defset-type")
        w.put(" ")
        loc = w.decl(self.decl)
        w.put(" = ")
        node = onode("Defset", self.decl.name, loc, "defset", [])
        (w.ostack[-1] if w.ostack else w.outline[w.cur]).append(node)
        w.ostack.append(node["children"])
        render_block(w, self.stmts, True, "defset")
        w.ostack.pop()

    def substmts(self):
        return [self.stmts]


class MulticlassStmt(Stmt):
    kind, foldable = "multiclass", True

    def __init__(self, decl, targs, parents, stmts, doc=None, multiline=False):
        self.decl, self.targs, self.parents, self.stmts = decl, targs, parents, stmts
        self.doc, self.multiline = doc, multiline

    def body(self, w, inline):
        if not self.stmts:
            raise Invalid("a multiclass body must not be empty")
        set_doc(self.decl, self.doc or NODOC, inline)
        w.put("multiclass ")
        loc = w.decl(self.decl)
        w.push_scope()
        w.nest.append("multiclass")
        render_targs(w, self.targs, self.multiline)
        render_parents(w, self.parents, "multiclass-parent")
        w.nest.pop()
        w.put(" ")
        ch = [onode("TemplateArgument", a.decl.name, a.decl.loc, a.decl.ty.text()) for a in self.targs]
        (w.ostack[-1] if w.ostack else w.outline[w.cur]).append(onode("Multiclass", self.decl.name, loc, "multiclass", ch))
        saved, w.ostack = w.ostack, w.ostack[:]   # defs inside a multiclass: flat, in source order
        render_block(w, self.stmts, True, "multiclass")
        w.pop_scope()
        w.ostack = saved
        w.count("multiclass:%d-targs:%d-parents" % (len(self.targs), len(self.parents)))

    def substmts(self):
        return [self.stmts]


class DefmStmt(Stmt):
    kind = "defm"

    def __init__(self, decl, suffix, refs, doc=None):
        self.decl, self.suffix, self.refs, self.doc = decl, suffix, refs, doc

    empty_name = False

    def body(self, w, inline):
        if not self.refs or self.refs[0].target.kind != "multiclass":
            raise Invalid("a defm needs a multiclass first")
        s0 = w.pos()
        w.put("defm")
        if self.empty_name:
            w.put(' ""')
            w.count("defm:empty-string-name")
            w.nest.append("defm")
            render_parents(w, self.refs, "defm-ref")
            w.nest.pop()
            w.put(";")
            w.stmt_ends.append(dict(file=w.cur, pos=w.pos() - 1, kind=";"))
            w.regions.append(dict(file=w.cur, start=s0, end=w.pos(), cause="def-with-string-name", mode="inside"))
            return
        if self.decl is not None:
            set_doc(self.decl, self.doc or NODOC, inline)
            w.put(" ")
            w.decl(self.decl)
            for e in self.suffix:
                w.put("#")
                if isinstance(e, IdUse):
                    w.use(e.decl, e.name, "defm-name-paste", visited=False)
                else:
                    e.render(w)
            w.count("defm:named")
        else:
            w.count("defm:anonymous")
        w.nest.append("defm")
        render_parents(w, self.refs, "defm-ref")
        w.nest.pop()
        w.put(";")
        w.stmt_ends.append(dict(file=w.cur, pos=w.pos() - 1, kind=";"))


def render_file(w, stmts):
    nest_saved, w.nest = w.nest, []
    saved, w.ostack = w.ostack, []
    for i, st in enumerate(stmts):
        w.stmt_gaps.append(dict(file=w.cur, pos=w.pos()))
        if isinstance(st, Include):
            w.count("include:%s%s" % ("at-top" if all(isinstance(x, Include) for x in stmts[:i]) else "between-statements",
                                      ":from-included-file" if w.fstack and w.fstack[-1][0] is not None else ""))
        st.render(w)
    w.put("\n")
    w.ostack = saved
    w.nest = nest_saved


# --------------------------------------------------------------------------------------------
# scope tracking
# --------------------------------------------------------------------------------------------


class Frame:
    def __init__(self, kind, rec=None):
        self.kind = kind       # global | block | record | multiclass | bang
        self.vars = {}         # name -> Decl (defvar, foreach, bangvar, targ, def, defset)
        self.rec = rec         # record frames: dict(parents=[class Decl], fields=[field Decl], cls=Decl|None)
        self.reserved = set()


def class_fields(c, seen=None):
    """All fields of class c (own + inherited), nearest first."""
    out = list(c.info["fields"])
    for p in c.info["parents"]:
        out += class_fields(p)
    return out


def ancestors(c):
    s = {id(c): c}
    for p in c.info["parents"]:
        s.update(ancestors(p))
    return s


def overridden_names(parents):
    """Names of fields overridden by `let` somewhere in the given class hierarchies."""
    out = set()
    for p in parents:
        out.update(f.name for f in p.info.get("overridden", []))
        out |= overridden_names(p.info["parents"])
    return out


def has_unset(e):
    """The value contains a `?` somewhere."""
    if isinstance(e, Lit) and e.t == "?":
        return True
    if isinstance(e, ClassValue):
        return any(has_unset(x) for x in e.ref.exprs())
    return any(has_unset(c) for c in e.children() if c is not None)


class Scopes:
    def __init__(self):
        self.frames = [Frame("global")]

    def push(self, fr):
        self.frames.append(fr)
        return fr

    def pop(self):
        return self.frames.pop()

    def rec_fields(self, fr):
        out = list(fr.rec["fields"])
        for p in fr.rec["parents"]:
            out += class_fields(p)
        return out

    def visible(self):
        """name -> Decl, the innermost declaration winning."""
        vis = {}
        for fr in reversed(self.frames):
            for n, d in fr.vars.items():
                vis.setdefault(n, d)
            if fr.kind == "record":
                for f in self.rec_fields(fr):
                    vis.setdefault(f.name, f)
        return vis

    def visible_fields_targs(self):
        names = set()
        for fr in self.frames:
            if fr.kind == "record":
                names.update(f.name for f in self.rec_fields(fr))
            names.update(n for n, d in fr.vars.items() if d.kind == "targ")
            names.update(fr.reserved)
        return names

    def bang_names(self):
        return {n for fr in self.frames if fr.kind == "bang" for n in fr.vars}

    def in_kind(self, kind):
        return any(fr.kind == kind for fr in self.frames)

    def cur_class(self):
        for fr in reversed(self.frames):
            if fr.kind == "record" and fr.rec.get("cls") is not None:
                return fr.rec["cls"]
        return None


# --------------------------------------------------------------------------------------------
# generator
# --------------------------------------------------------------------------------------------

DEFAULT_OPTS = dict(
    includes=True, docs=True, shadowing=True, oos=True, named_args=True,
    heir_targs=False,      # use a parent's template argument in an heir (property text vs TableGen: ambiguous)
    assert_stmt=True,      # `assert cond, "message";` statements and body items
    known_false=True,      # a minority of programs (about 5%) contains a construct with a KNOWN false diagnostic
                           # (forward-declared class, use of a record created by a defm); see Program.known_false
    avoid=(),              # constructs to leave out (to unmask defects hidden behind known ones), see AVOIDABLE
)

AVOIDABLE = {
    "mc-defvar": "defvar statement inside a multiclass body",
    "mc-no-targs": "multiclass without a template argument list",
    "named-args": "named template arguments A<x = 1>",
    "list-tail-ids": "identifiers / class values in list literal elements after the first",
    "defset-defvar": "defvar statement directly inside a defset body",
    "anon-def-in-defset": "anonymous def inside a defset",
    "defset-use": "the name of a defset used as a value",
    "if-let-defvar": "defvar statement directly inside an if / let block",
    "assert": "assert statements",
    "bit-as-bits1": "a single bit (`v{0}`, a bit-typed name) where bits<1> is expected and vice versa",
    "same-body-let": "a field declared and overridden by `let` in the same body (the encoding idiom)",
    "defm-class-in-multiclass": "a defm inside a multiclass with classes after its multiclasses",
    "bits-concat": "a bits literal `{...}` with elements wider than one bit",
    "list-paste": "`#` between two lists",
    "def-typed-join": "!if / !listconcat over different defs of one class (or a def and a class value)",
    "foreach-record-use": "the name of a record created by `foreach i = .. in def R#i` used as a value (R0)",
    "typed-empty-list": "`[]<T>` as the (start of the) list a !foreach / !filter / !foldl runs over",
    "string-named-def": "`def \"name\" : ...`, `def !strconcat(..) : ...`, `defm \"\" : M<..>;` (a name that is not an identifier)",
    "scenario": "the LLVM-style target description block (registers, register classes, instruction formats, patterns)",
    "list-element-fault": "(fault seeder) one element of a list literal replaced by a value of another type",
}

WORDS = ["alpha", "beta", "gamma", "delta", "epsilon", "zeta", "eta", "theta"]
UWORDS = ["na\u00efve", "\u03bb", "\u65e5\u672c", "\u00fcber"]   # non-ASCII text in comments and strings (byte offsets!)


class Gen:
    def __init__(self, seed, size=8, opts=None):
        self.r = random.Random(seed)
        self.size = size
        self.o = dict(DEFAULT_OPTS)
        self.o.update(opts or {})
        self.avoid = set(self.o.get("avoid") or ())
        if "named-args" in self.avoid:
            self.o["named_args"] = False
        if "assert" in self.avoid:
            self.o["assert_stmt"] = False
        self.sc = Scopes()
        self.n = {}
        self.classes, self.multiclasses = [], []
        self.dead = []              # (Decl, why) declarations whose construct has ended
        self.oos_budget = 0
        self.posctx = ["?"]
        self.depth = 0
        self.tree = {}
        self.meta = dict(named_args=False, oos=0, heir_targs=False, shadow={})
        self.let_constraint = []    # stack of (class Decl) every def inside must derive from
        self.in_multiclass = None
        self.strict = False         # only values that are fully resolved while parsing
        self.no_fields = False      # fields of the enclosing record are not (yet) visible
        self.no_record = False      # neither fields nor template arguments of the enclosing record
        self.excluded = set()       # names that must not be read here (the declaration being initialised)
        self.no_binders = False     # no !foreach / !filter / !foldl here
        self.literals_only = False  # no names at all (a value written into a scope other than the current one)
        self.refstack = []
        self.future_fields = set()
        self.loops = []             # enclosing foreach iterators (instantiation context)
        self.unusable = 0           # >0: defs declared here cannot be referenced later
        self.in_defset = 0
        self.mc_defs = []
        self.mc_prod = []
        self.defm_records = []      # records created by top-level defms: (name, parent classes)
        self.in_if = 0
        self.cur_path = []
        self.nested_includes = 0
        self.nested_where = "foreach"
        self.block_braces = False
        self.in_mc_def = False      # inside a def written in a multiclass (NAME is defined)
        self.in_plain_def = False   # inside a def at top level (not in a multiclass, not in a foreach)
        self.in_defvar = False
        rate = self.o.get("known_false_rate", 0.03)
        self.kf_fwd = self.r.random() < rate and bool(self.o.get("known_false"))
        self.kf_defm = self.r.random() < rate and bool(self.o.get("known_false"))
        self.kf_defm_tried = False
        self.kf_foreach = self.r.random() < rate and bool(self.o.get("known_false")) and "foreach-record-use" not in self.avoid
        self.foreach_records, self.foreach_records_pending = [], []
        self.empty_defm = set()
        self.empty_names = set()
        self.want_scenario = "scenario" not in self.avoid and self.r.random() < self.o.get("scenario_rate", 0.15)
        self.scenario_done = False
        self.pending_fwd = None     # a class declared `class X;` and not yet defined
        self.fwd_done = False
        self.in_cond = False
        self.no_suffix = False      # no `[..]` / `{..}` suffix here (operand of `#`)

    # -- helpers
    def fresh(self, prefix):
        self.n[prefix] = self.n.get(prefix, 0) + 1
        return "%s%d" % (prefix, self.n[prefix])

    def p(self, x):
        return self.r.random() < x

    def word(self):
        if self.o.get("unicode", True) and self.r.random() < 0.08:
            return self.r.choice(UWORDS)
        return self.r.choice(WORDS)

    def note_shadow(self, what):
        self.meta["shadow"][what] = self.meta["shadow"].get(what, 0) + 1

    def doc(self, allow_trail=True):
        if not self.o["docs"] or self.p(0.65):
            return Doc()
        r = self.r
        items = []
        style = r.choice(["one", "one", "many", "blank-after", "blank-between", "block", "block-between", "trail", "trail-lines", "nospace"])
        w = lambda: " " + self.word() + " " + self.word()
        if style == "one":
            items = [("c", w())]
        elif style == "nospace":
            items = [("c", self.word())]
        elif style == "many":
            items = [("c", w()) for _ in range(r.randint(2, 3))]
        elif style == "blank-after":
            items = [("c", w()), ("blank",)]
        elif style == "blank-between":
            items = [("c", w()), ("blank",), ("c", w())]
        elif style == "block":
            items = [("block", self.word())]
        elif style == "block-between":
            items = [("c", w()), ("block", self.word()), ("c", w())]
        elif style == "trail" and allow_trail:
            items = [("trail", self.word())]
        elif style == "trail-lines" and allow_trail:
            items = [("trail", self.word()), ("c", w())]
        return Doc(items)

    # -- types
    def rand_type(self, depth=0, allow_class=True):
        r = self.r
        ks = ["int", "int", "string", "bit", "bits", "bits", "list"]
        if depth == 0 and self.p(0.03):
            return CODE
        if any(d.kind == "def" and d.info.get("usable") for d in self.sc.visible().values()):
            ks.append("dag")
        if allow_class and self.usable_classes():
            ks += ["class", "class"]
        k = r.choice(ks)
        if k == "int":
            return INT
        if k == "string":
            return STRING
        if k == "bit":
            return BIT
        if k == "dag":
            return DAG
        if k == "bits":
            return BITS(r.choice([2, 2, 3, 4, 4, 4, 8, 16] if "bit-as-bits1" in self.avoid else [1, 2, 2, 3, 4, 4, 4, 8, 16]))
        if k == "list":
            if depth >= 1:
                return LIST(r.choice([INT, STRING]))
            return LIST(self.rand_type(depth + 1, allow_class))
        return CLASS(r.choice(self.usable_classes()))

    def usable_classes(self):
        cur = self.sc.cur_class()
        return [c for c in self.classes if c is not cur]

    # -- literals
    def literal(self, ty, exact):
        r = self.r
        k = ty.k
        if k == "int":
            c = r.random()
            if c < 0.08:
                return Lit("0x%X" % r.randint(0, 255), INT)
            if c < 0.12:
                return Lit(r.choice(["-", "+"]) + str(r.randint(1, 9)), INT)
            if c < 0.16 and not exact and self.depth <= 1:
                # (a binary literal is a bits<n> value: only directly in an int-typed position)
                return Lit("0b" + "".join(r.choice("01") for _ in range(r.randint(1, 5))), INT)
            return Lit(str(r.randint(0, 9)), INT)
        if k == "string":
            if not exact and self.p(0.04):
                return Lit("[{ %s }]" % self.r.choice(WORDS), STRING)
            if self.p(0.04):
                return Lit('"%s" "%s"' % (self.r.choice(WORDS), self.r.choice(WORDS)), STRING)      # adjacent literals concatenate
            if self.p(0.04):
                return Lit('"%s%s%s"' % (self.r.choice(WORDS), self.r.choice(['\\"', "\\\\", "\\n", "\\t"]), self.r.choice(WORDS)), STRING)
            return Lit('"%s"' % self.word(), STRING)
        if k == "code":
            if self.p(0.7):
                return Lit("[{ return %s; }]" % self.r.choice(WORDS), CODE)
            return Lit('"%s"' % self.r.choice(WORDS), CODE)
        if k == "bit":
            if exact or self.p(0.5):
                return Lit(r.choice(["true", "false"]), BIT)
            return Lit(r.choice(["0", "1"]), BIT)
        if k == "bits":
            if exact or (ty.n <= 4 and self.p(0.45)):
                return Lit("{" + ", ".join(r.choice("01") for _ in range(ty.n)) + "}", ty)
            c = r.random()
            v = r.randint(0, (1 << ty.n) - 1)
            if c < 0.4:
                return Lit("0b" + format(v, "0%db" % ty.n), ty)      # a binary literal has exactly n bits
            if c < 0.55:
                return Lit("0x%X" % v, ty)
            return Lit(str(v), ty)
        if k == "list":
            if not exact and self.depth <= 1 and self.posctx[-1] in ("field-init", "let-value", "targ-default") and self.p(0.15):
                return Lit("[]", ty)
            if self.p(0.06) and not self.strict and self.typed_top() and "typed-empty-list" not in self.avoid \
                    and not (ty.elem.k == "class" and ty.elem.cls.info.get("forward")):
                return TypedEmptyList(ty)
            l = ListLit(self.list_elems(ty.elem, exact, r.randint(1, 3), True), ty)
            l.trailing_comma = self.p(0.05)
            if self.p(0.05) and self.typed_top() and "typed-empty-list" not in self.avoid and not self.strict \
                    and not (ty.elem.k == "class" and ty.elem.cls.info.get("forward")) and ty.elem.k != "list":
                l.annot = ty.elem
            return l
        if k == "dag":
            return self.dag()
        if k == "class":
            return self.record_value(ty, exact)
        raise AssertionError(k)

    def list_elems(self, el, exact, n, leafy=False):
        exact = exact or el.k in ("int", "bit", "bits")      # (the elements of a list literal must have one type)
        out = []
        for i in range(n):
            if i and "list-tail-ids" in self.avoid:
                lit = self.plain_literal(el)
                if lit is not None:
                    out.append(lit)
                continue
            out.append(self.expr(el, exact=exact, leafy=leafy))
        return out

    def plain_literal(self, ty):
        """A literal without any identifier in it (None if the type has none)."""
        if ty.k in ("int", "string", "bit", "bits"):
            return self.literal(ty, True)
        if ty.k == "list":
            e = self.plain_literal(ty.elem)
            return ListLit([e], ty) if e is not None else None
        return None

    def defs_of(self, cls):
        if self.literals_only:
            return []
        vis = self.sc.visible()
        return [d for d in vis.values() if d.kind == "def" and d.info.get("usable") and d.name not in self.excluded
                and any(is_subclass(p, cls) for p in d.info["parents"])]

    def has_ops(self):
        return not self.literals_only and any(d.kind == "def" and d.info.get("usable") and d.name not in self.excluded for d in self.sc.visible().values())

    def dag(self, depth=0, op=None):
        ops = [d for d in self.sc.visible().values() if d.kind == "def" and d.info.get("usable")
               and d.name not in self.excluded and not self.literals_only]
        if not ops:
            # a dag needs an operator; without any def fall back to an unset dag value
            return Lit("?", DAG)
        r = self.r
        op = op or r.choice(ops)
        self.posctx.append("dag-operator")
        opx = IdUse(op, None, self.tag(op))
        self.posctx.pop()
        form = r.choice(["lit"] * 6 + (["con", "dag", "setdagop"] if depth == 0 and not self.strict else []))
        if form == "con":
            return Bang("con", [self.dag(1, op), self.dag(1, op)], DAG)      # (!con wants the same operator)
        if form == "setdagop":
            return Bang("setdagop", [self.dag(1), opx], DAG)
        if form == "dag":
            n = r.randint(1, 2)
            self.posctx.append("dag-arg")
            vals = ListLit([self.expr(INT, True, leafy=True) for _ in range(n)], LIST(INT))
            self.posctx.pop()
            names = ListLit([Lit('"%s"' % x, STRING) for x in r.sample(["a", "b", "c"], n)], LIST(STRING))
            return Bang("dag", [opx, vals, names], DAG)
        args = []
        self.posctx.append("dag-arg")
        for _ in range(r.randint(0, 3)):
            name = r.choice([None, "n", "m", "src", "dst"])
            c = r.random()
            if c < 0.2 and len(ops) > 0:
                d = r.choice(ops)
                e = IdUse(d, None, self.tag(d))                  # a record as argument: (ins R:$a)
            elif c < 0.3 and depth == 0:
                e = self.dag(1)                                  # nested dag
            elif c < 0.36 and self.usable_classes() and not self.strict:
                e = self.record_value(CLASS(r.choice(self.usable_classes())), False)      # (op C<1, 2>:$x)
            elif c < 0.38:
                e, name = Lit("?", DAG), name or "u"             # ?:$u
            elif c < 0.45:
                e, name = None, name or "x"                      # bare $x
            elif c < 0.52 and args:
                # (not as first argument: `(op [1])` is a slice of op)
                e = ListLit([self.expr(INT, True, leafy=True)], LIST(INT))
            else:
                e = self.expr(r.choice([INT, STRING]), leafy=True)
            args.append((e, name))
        self.posctx.pop()
        return DagLit(opx, args)

    def record_value(self, ty, exact):
        """A value of class type: def identifier, class value or !cast."""
        cls = ty.cls
        cands = []
        if not exact:
            ds = self.defs_of(cls)
            if ds and not self.strict:
                cands += ["def"] * 3
        if cls is not self.sc.cur_class():
            cands += ["value"] * 2
        if self.defs_of(cls) and not self.strict and not exact:
            cands += ["cast"]      # (llvm-tblgen folds the cast to the def, whose type is more specific)
            cands += ["getdagop"]
        if self.kf_defm and not exact and not self.strict and not self.in_if:
            recs = [n for n, ps in self.defm_records if any(is_subclass(q, cls) for q in ps) and n not in self.sc.visible()]
            if recs and self.p(0.5):
                self.meta["defm_record_use"] = self.meta.get("defm_record_use", 0) + 1
                return DefmRecordUse(self.r.choice(recs), ty)
        if self.kf_foreach and not exact and not self.strict and not self.in_if and not self.loops:
            recs = [n for n, ps in self.foreach_records if any(is_subclass(q, cls) for q in ps) and n not in self.sc.visible()]
            if recs and self.p(0.5):
                self.meta["foreach_record_use"] = self.meta.get("foreach_record_use", 0) + 1
                return ForeachRecordUse(self.r.choice(recs), ty)
        if not cands:
            return Lit("?", ty)
        c = self.r.choice(cands)
        if c == "def":
            d = self.r.choice(self.defs_of(cls))
            return IdUse(d, ty, self.tag(d))
        if c == "value":
            return ClassValue(self.classref(cls, "classvalue-name", True), ty)
        d = self.r.choice(self.defs_of(cls))
        if c == "getdagop":
            return Bang("getdagop", [self.dag(1, d)], ty, annot=ty)      # !getdagop<C>((d 1, 2))
        return Bang("cast", [Lit('"%s"' % d.name, STRING)], ty, annot=ty)

    def building_ref_of(self, cls):
        return any(b is cls for b in self.refstack)

    # -- class references
    def classref(self, target, tag, value=False):
        """Reference to class/multiclass `target` with a well-typed argument list."""
        params = target.info["targs"]
        self.refstack.append(target)
        self.depth += 1
        args = []
        ngiven = 0
        for i, p_ in enumerate(params):
            if p_.info.get("default") and self.p(0.5):
                break
            ngiven += 1
        # everything after the first omitted default stays omitted (positional binding)
        required_ok = all(p_.info.get("default") for p_ in params[ngiven:])
        if not required_ok:
            ngiven = max(i for i, p_ in enumerate(params) if not p_.info.get("default")) + 1
        named_from = ngiven
        if self.o["named_args"] and ngiven and self.p(0.05):
            named_from = self.r.randint(0, ngiven - 1)
            self.meta["named_args"] = True
        self.posctx.append({"classvalue-name": "classvalue-arg", "defm-ref": "defm-arg", "defm-class-ref": "defm-class-arg",
                            "multiclass-parent": "multiclass-parent-arg"}.get(tag, "parent-arg"))
        # (the arguments of a multiclass may end up in an `if` / `foreach` of its body: only values that are resolved on the spot)
        saved_strict, self.strict = self.strict, self.strict or target.kind == "multiclass"
        for i in range(ngiven):
            p_ = params[i]
            e = self.expr(p_.ty, leafy=self.depth > 2)
            args.append((p_.name if i >= named_from else None, e, p_))
        self.strict = saved_strict
        self.posctx.pop()
        if named_from < ngiven and self.p(0.5):
            tail = args[named_from:]
            self.r.shuffle(tail)
            args[named_from:] = tail
        self.depth -= 1
        self.refstack.pop()
        angle = bool(args) or value or self.p(0.15)
        return ClassRef(target, args, angle, tag)

    # -- expressions
    def tag(self, d):
        t = "%s@%s" % (d.kind, self.posctx[-1])
        if d.kind == "field":
            for fr in reversed(self.sc.frames):
                if fr.kind == "record":
                    if d.name in fr.rec.get("overridden", ()) or d.name in overridden_names(fr.rec["parents"]):
                        t += ":after-let"
                    break
        return t

    def candidates(self, ty, exact):
        out = []
        if self.literals_only:
            return out
        for d in self.sc.visible().values():
            if d.kind in ("defvar", "foreach", "bangvar", "targ", "field", "defset"):
                if d.ty is None or (d.kind == "defset" and "defset-use" in self.avoid):
                    continue
                if d.ty == ty or (not exact and assignable(d.ty, ty)):
                    if exact and d.info.get("type_any"):
                        continue
                    if self.strict and not d.info.get("concrete"):
                        continue
                    if self.no_fields and d.kind == "field":
                        continue
                    if self.no_record and d.kind in ("field", "targ") and d.info.get("of_record"):
                        continue
                    if d.info.get("unset") or d.name in self.excluded:
                        continue
                    out.append(d)
        return out

    def readable(self, pred, allow_unset=False):
        """Visible value declarations whose type satisfies pred and that may be read here."""
        out = []
        if self.literals_only:
            return out
        for d in self.sc.visible().values():
            if d.kind in ("defvar", "foreach", "bangvar", "targ", "field") and d.ty is not None and pred(d.ty):
                if self.strict and not d.info.get("concrete"):
                    continue
                if self.no_fields and d.kind == "field":
                    continue
                if self.no_record and d.kind in ("field", "targ") and d.info.get("of_record"):
                    continue
                if (d.info.get("unset") and not allow_unset) or d.name in self.excluded:
                    continue
                out.append(d)
        return out

    def bit_range(self, ty, allow_unset=False):
        """`v{hi-lo}` of a visible bits<n> value, n > k, as a value of bits<k> (k == 1: one bit)."""
        k = 1 if ty.k == "bit" else ty.n
        if not self.no_fields and self.depth < 3 and self.p(0.25):
            # x.f{hi-lo}: bits of a field of another record
            for n_ in self.r.sample([4, 8, 16, 3, 2], 5):
                if n_ > k:
                    fa = self.field_access(BITS(n_))
                    if fa is not None:
                        return BitRange(fa, range_text(self.r, n_, k), ty)
        c = self.readable(lambda t: t.k == "bits" and t.n > k, allow_unset)
        if not c:
            return None
        d = self.r.choice(c)
        self.posctx.append("bit-range-base")
        b = IdUse(d, d.ty, self.tag(d))
        self.posctx.pop()
        return BitRange(b, range_text(self.r, d.ty.n, k), ty)

    TYPED_TOPS = ("field-init", "let-value", "targ-default", "parent-arg", "classvalue-arg", "defm-arg", "defm-class-arg",
                  "multiclass-parent-arg", "let-in-value")

    def typed_top(self, in_composite=False):
        """Directly the value of a typed position (a diagnostic about its type is reported right there; written
        deeper, a wrongly inferred type would spread into variables and operators)."""
        return self.depth <= 1 and self.posctx[-2 if in_composite else -1] in self.TYPED_TOPS

    def bits_concat(self, ty):
        """{ a, b{1-0}, 0b10, 1 }: pieces whose widths add up to ty.n, at least one wider than a bit"""
        r = self.r
        left, elems, wide = ty.n, [], False
        while left > 0:
            k = r.randint(1, min(left, 4))
            if k == 1:
                elems.append(Lit(r.choice("01"), BIT))
            else:
                c = self.readable(lambda t: t.k == "bits" and t.n == k)
                big = self.readable(lambda t: t.k == "bits" and t.n > k)
                ch = r.random()
                if c and ch < 0.4:
                    d = r.choice(c)
                    elems.append(IdUse(d, d.ty, self.tag(d)))
                elif big and ch < 0.7:
                    elems.append(self.bit_range(BITS(k)))
                else:
                    elems.append(Lit("0b" + "".join(r.choice("01") for _ in range(k)), BITS(k)))
                wide = True
            left -= k
        if not wide or len(elems) < 2:
            return None
        return Marked(BitsCat(elems, ty), "bits-literal-with-multibit-elements", "contains")

    def list_slice(self, ty):
        c = [d for d in self.readable(lambda t: t.k == "list" and (t.elem == ty or t == ty))
             if d.kind == "defvar" and d.info.get("minlen", 0) >= (1 if d.ty.elem == ty and d.ty != ty else 2)]
        if not c:
            return None
        d = self.r.choice(c)
        n = d.info["minlen"]
        self.posctx.append("slice-base")
        b = IdUse(d, d.ty, self.tag(d))
        self.posctx.pop()
        if d.ty != ty:
            return ListSlice(b, str(self.r.randrange(n)), ty)
        a = self.r.randrange(n - 1)
        z = self.r.randint(a + 1, n - 1)
        return ListSlice(b, self.r.choice(["%d...%d", "%d-%d", "%d, %d"]) % (a, z), ty)

    def oos_candidate(self, ty):
        if self.oos_budget <= 0:
            return None
        vis = self.sc.visible()
        c = [(d, why) for d, why in self.dead if d.ty == ty and d.name not in vis]
        if not c:
            return None
        why = self.r.choice(sorted({w_ for _, w_ in c}))      # every kind of ended construct equally often
        return self.r.choice([x for x in c if x[1] == why])

    def expr(self, ty, exact=False, leafy=False):
        self.depth += 1
        try:
            return self._expr(ty, exact, leafy or self.depth > 3)
        finally:
            self.depth -= 1

    def _expr(self, ty, exact, leafy):
        r = self.r
        cands = self.candidates(ty, exact)
        if cands and self.p(0.55 if not leafy else 0.8):
            d = r.choice(cands)
            return IdUse(d, ty, self.tag(d))
        if not self.strict and not self.no_suffix and self.p(0.12):
            sl = self.list_slice(ty)
            if sl:
                return sl
        if self.in_mc_def and ty == STRING and not self.strict and self.p(0.12) and not (
                set(self.posctx) & {"classvalue-arg", "body-defvar-init", "parent-arg", "defm-arg", "defm-class-arg", "multiclass-parent-arg"}):
            # (not as an argument of a class value: llvm-tblgen 14 cannot resolve that under an anonymous defm)
            self.meta["NAME"] = self.meta.get("NAME", 0) + 1
            return Lit("NAME", STRING)       # the implicit NAME of a def inside a multiclass
        if ty.k == "bits" and ty.n >= 2 and not self.strict and "bits-concat" not in self.avoid and self.typed_top() and self.p(0.05):
            bc = self.bits_concat(ty)
            if bc:
                return bc
        if not self.strict and not self.no_suffix and ((ty.k == "bits") or (ty.k == "bit" and not exact)) and self.p(0.25):
            br = self.bit_range(ty)
            if br:
                return br
        if not leafy and not self.strict and not self.no_fields and self.p(0.2):
            fa = self.field_chain(ty) if self.p(0.25) else None
            fa = fa or self.field_access(ty)
            if fa:
                return fa
        if leafy or self.p(0.55):
            return self.literal(ty, exact)
        return self.composite(ty, exact)

    def field_access(self, ty):
        """`base.f` with f a field of type ty of a record-typed base."""
        bases = []
        if self.literals_only:
            return None
        for d in self.sc.visible().values():
            if d.name in self.excluded:
                continue
            if d.kind == "def" and d.info.get("usable"):
                fs = list(d.info["fields"])
                for p_ in d.info["parents"]:
                    fs += class_fields(p_)
                over = {f.name for f in d.info.get("overridden", [])} | overridden_names(d.info["parents"])
                bases += [(d, f, "overridden" if f.name in over else "plain") for f in fs if f.ty == ty and not f.info.get("unset")]
            elif d.kind in ("targ", "field", "defvar", "foreach", "bangvar") and d.ty is not None and d.ty.k == "class":
                if self.no_fields and d.kind == "field":
                    continue
                if self.no_record and d.kind in ("field", "targ") and d.info.get("of_record"):
                    continue
                if d.info.get("unset"):
                    continue
                over = {f.name for f in d.ty.cls.info.get("overridden", [])} | overridden_names(d.ty.cls.info["parents"])
                bases += [(d, f, "overridden" if f.name in over else "plain") for f in class_fields(d.ty.cls)
                          if f.ty == ty and not f.info.get("unset")]
        if self.p(0.2):
            # l[i].f on a defvar holding a list of records
            ls = [d for d in self.readable(lambda t: t.k == "list" and t.elem.k == "class") if d.kind == "defvar" and d.info.get("minlen")]
            c2 = [(d, f) for d in ls for f in class_fields(d.ty.elem.cls) if f.ty == ty and not f.info.get("unset")]
            if c2:
                d, f = self.r.choice(c2)
                over = {x.name for x in d.ty.elem.cls.info.get("overridden", [])} | overridden_names(d.ty.elem.cls.info["parents"])
                self.posctx.append("slice-base")
                b = ListSlice(IdUse(d, d.ty, self.tag(d)), str(self.r.randrange(d.info["minlen"])), d.ty.elem)
                self.posctx.pop()
                # (a def of the list may override f itself: the expectation only holds for the class)
                return FieldAccess(b, f, "field@field-access%s:list-element-base" % ("-overridden" if f.name in over else ""), visited=None)
        if (not bases or self.p(0.2)) and self.depth < 4:
            alt = []
            cur = self.sc.cur_class()
            for c in self.usable_classes():
                over = {x.name for x in c.info.get("overridden", [])} | overridden_names(c.info["parents"])
                for f in class_fields(c):
                    if f.ty == ty and not f.info.get("unset"):
                        alt.append((c, f, "-overridden" if f.name in over else ""))
            if alt:
                c, f, how = self.r.choice(alt)
                ds = [d for d in self.defs_of(c)]
                if ds and self.p(0.4):
                    d = self.r.choice(ds)        # !cast<C>("d").f
                    b = Bang("cast", [Lit('"%s"' % d.name, STRING)], CLASS(c), annot=CLASS(c))
                    return FieldAccess(b, f, "field@field-access%s:cast-base" % how)
                b = ClassValue(self.classref(c, "classvalue-name", True), CLASS(c))       # C<args>.f
                return FieldAccess(b, f, "field@field-access%s:classvalue-base" % how)
        if not bases:
            return None
        d, f, how = self.r.choice(bases)
        self.posctx.append("field-access-base")
        b = IdUse(d, None, self.tag(d))
        self.posctx.pop()
        fa = FieldAccess(b, f, "field@field-access%s:%s-base" % ("-overridden" if how == "overridden" else "", d.kind))
        return fa

    def field_chain(self, ty):
        """`x.g.f`: g a class-typed field that has a value, f a field of g's class of type ty."""
        cands = []
        for c in self.usable_classes():
            for f in class_fields(c):
                if f.ty == ty and not f.info.get("unset"):
                    cands.append((c, f))
        self.r.shuffle(cands)
        for c, f in cands[:6]:
            inner = self.field_access(CLASS(c))
            if inner is not None:
                over = {x.name for x in c.info.get("overridden", [])} | overridden_names(c.info["parents"])
                return FieldAccess(inner, f, "field@field-access%s:chain-base" % ("-overridden" if f.name in over else ""))
        return None

    def bangvar_of(self, lst, ty, **kw):
        v = self.bangvar(ty, **kw)
        if has_unset(lst):
            v.info["type_any"] = True      # [?, ...]: the element type is not determined by the text
        return v

    def bangvar(self, ty, borrow=True, kinds=("defvar", "foreach", "targ")):
        name = None
        if self.o["shadowing"] and borrow and self.p(0.3):
            ft = self.sc.visible_fields_targs()
            vis = self.sc.visible()
            fields = {n for n, d in vis.items() if d.kind == "field"}
            reserved = {n for fr in self.sc.frames for n in fr.reserved}
            c = [n for n, d in vis.items() if d.kind in kinds and n not in fields
                 and n not in self.sc.bang_names() and n not in self.future_fields
                 and n not in self.excluded and n not in reserved]
            if c:
                name = self.r.choice(sorted(c))
                self.note_shadow("bangvar-shadows-" + vis[name].kind)
        d = Decl("bangvar", name or self.fresh("x"), ty)
        d.info["concrete"] = True
        return d

    def composite(self, ty, exact):
        r = self.r
        k = ty.k
        self.posctx.append("bang-arg")
        try:
            if k == "int":
                c = r.choice(["add", "sub", "mul", "and", "or", "size", "if", "head", "foldl", "xor", "shift", "find", "cond"])
                if c == "cond" and not self.no_binders:
                    return self.cond(ty, exact)
                if c in ("add", "mul", "and", "or", "xor"):
                    return Bang(c, [self.expr(INT) for _ in range(r.randint(2, 3))], INT)
                if c == "sub":
                    return Bang(c, [self.expr(INT), self.expr(INT)], INT)
                if c == "shift":
                    return Bang(r.choice(["shl", "srl", "sra"]), [self.expr(INT), Lit(str(r.randint(0, 3)), INT)], INT)
                if c == "find":
                    a = [self.expr(STRING), self.expr(STRING)]
                    if self.p(0.3):
                        a.append(Lit("0", INT))
                    return Bang("find", a, INT)
                if c == "size":
                    t = r.choice([LIST(INT), LIST(STRING), STRING] + ([DAG] if self.has_ops() else []))
                    return Bang(c, [self.expr(t)], INT)
                if c == "if":
                    return Bang("if", [self.expr(BIT), self.expr(INT, True), self.expr(INT, True)], INT)
                if c == "head":
                    return Bang("head", [self.nonempty_list(LIST(INT))], INT)
                if self.no_binders:
                    return self.literal(ty, exact)
                return self.foldl(INT)
            if k == "bit":
                c = r.choice(["eq", "ne", "lt", "le", "gt", "ge", "empty", "isa", "if", "not", "cond"])
                if c == "cond" and not self.no_binders:
                    return self.cond(ty, True)
                if c in ("eq", "ne", "lt", "le", "gt", "ge"):
                    t = r.choice([INT, STRING])
                    return Bang(c, [self.expr(t, True), self.expr(t, True)], BIT)
                if c == "not":
                    return Bang("not", [self.expr(BIT, True)], BIT)
                if c == "empty":
                    return Bang(c, [self.expr(r.choice([LIST(INT), LIST(STRING), STRING] + ([DAG] if self.has_ops() else [])))], BIT)
                if c == "isa" and self.usable_classes() and not self.strict:
                    cls = r.choice(self.usable_classes())
                    base = r.choice(self.usable_classes())
                    v = self.record_value(CLASS(base), False)
                    if not isinstance(v, Lit):
                        return Bang("isa", [v], BIT, annot=CLASS(cls))
                return Bang("if", [self.expr(BIT, True), self.expr(BIT, True), self.expr(BIT, True)], BIT)
            if k == "string":
                c = r.choice(["strconcat", "paste", "if", "head", "interleave", "substr", "subst", "cond", "cast"])
                if c == "cond" and not self.no_binders:
                    return self.cond(ty, exact)
                if c == "cast":
                    return Bang("cast", [self.expr(INT, True)], STRING, annot=STRING)
                if c == "strconcat":
                    return Bang(c, [self.expr(STRING) for _ in range(r.randint(2, 3))], STRING)
                if c == "interleave":
                    return Bang(c, [self.expr(r.choice([LIST(INT), LIST(STRING)]), True), Lit('", "', STRING)], STRING)
                if c == "substr":
                    # (start 0 only: llvm-tblgen 14 crashes on a start position behind the end)
                    a = [self.expr(STRING), Lit("0", INT)]
                    if self.p(0.5):
                        a.append(Lit(str(r.randint(0, 3)), INT))
                    return Bang(c, a, STRING)
                if c == "subst":
                    # (the pattern is a non-empty literal: llvm-tblgen 14 loops forever on !subst("", ...))
                    return Bang(c, [Lit('"%s"' % r.choice(WORDS), STRING), self.expr(STRING, True), self.expr(STRING, True)], STRING)
                if c == "paste":
                    self.posctx.append("paste")
                    saved_ns, self.no_suffix = self.no_suffix, True
                    try:
                        return Paste([self.expr(STRING, leafy=True) for _ in range(2)])
                    finally:
                        self.no_suffix = saved_ns
                        self.posctx.pop()
                if c == "head":
                    return Bang("head", [self.nonempty_list(LIST(STRING))], STRING)
                return Bang("if", [self.expr(BIT), self.expr(STRING, True), self.expr(STRING, True)], STRING)
            if k == "list":
                c = r.choice(["lit", "listconcat", "tail", "foreach", "filter", "if", "listsplat", "cond"])
                el = ty.elem
                if c == "cond" and not self.no_binders and el.k in ("int", "string"):
                    return self.cond(ty, True)
                if el.k in ("int", "string") and "list-paste" not in self.avoid and not self.no_suffix and self.typed_top(True) and self.p(0.1):
                    saved_ns, self.no_suffix = self.no_suffix, True
                    parts = [self.literal(ty, True), self.expr(ty, True, leafy=True)]
                    self.no_suffix = saved_ns
                    r.shuffle(parts)
                    pl = Paste(parts)
                    pl.ty = ty
                    return Marked(pl, "list-paste", "contains")
                if el.k == "class" and "def-typed-join" not in self.avoid and not self.strict and len(self.defs_of(el.cls)) >= 1 \
                        and self.typed_top(True) and self.p(0.25):
                    a = ListLit([self.record_value(el, False)], ty)
                    b = ListLit([self.record_value(el, False)], ty)
                    if self.p(0.5):
                        return Marked(Bang("listconcat", [a, b], ty), "def-typed-join")
                    return Marked(Bang("if", [self.expr(BIT), a, b], ty), "def-typed-join")
                if c == "listsplat" and el.k in ("int", "string", "bit"):
                    return Bang(c, [self.expr(el, True), Lit(str(r.randint(0, 3)), INT)], ty)
                if c == "listconcat":
                    return Bang(c, [self.expr(ty, True), self.expr(ty, True)], ty)
                if c == "tail":
                    return Bang(c, [self.nonempty_list(ty)], ty)
                if c in ("foreach", "filter") and self.no_binders:
                    c = "lit"
                if c == "foreach" and (el.k in ("int", "string", "bit") or (el.k == "class" and el.cls is not self.sc.cur_class())):
                    src = r.choice([LIST(INT), LIST(STRING)])
                    rf = self.record_field_of(el) if self.p(0.35) else None      # over a list of records: x.f in the body
                    if rf is not None:
                        src = LIST(CLASS(rf[0]))
                    lst = self.expr(src, True)
                    tel = False
                    if rf is not None:
                        lst, tel = self.maybe_empty_prefixed(lst)
                    v = self.bangvar_of(lst, src.elem)
                    fr = self.sc.push(Frame("bang"))
                    fr.vars[v.name] = v
                    if rf is not None and self.p(0.8):
                        body = FieldAccess(IdUse(v, v.ty, "bangvar@field-access-base"), rf[1], "field@field-access%s:bangvar-base" % rf[2])
                    else:
                        body = self.expr(el, True)
                    self.sc.pop()
                    self.dead.append((v, "bangvar"))
                    b = Bang("foreach", [None, lst, body], ty, vars={0: v})
                    return Marked(b, "typed-empty-list") if tel else b
                if c == "filter":
                    lst = self.expr(ty, True)
                    v = self.bangvar_of(lst, el)
                    fr = self.sc.push(Frame("bang"))
                    fr.vars[v.name] = v
                    fs = [f for f in class_fields(el.cls) if f.ty == INT and not f.info.get("unset")] if el.k == "class" else []
                    if fs and self.p(0.8):
                        f = r.choice(fs)
                        over = {x.name for x in el.cls.info.get("overridden", [])} | overridden_names(el.cls.info["parents"])
                        body = Bang(r.choice(["lt", "gt", "eq"]), [FieldAccess(IdUse(v, v.ty, "bangvar@field-access-base"), f,
                                    "field@field-access%s:bangvar-base" % ("-overridden" if f.name in over else "")), self.expr(INT, True, leafy=True)], BIT)
                    else:
                        body = self.expr(BIT, True)
                    self.sc.pop()
                    self.dead.append((v, "bangvar"))
                    return Bang("filter", [None, lst, body], ty, vars={0: v})
                if c == "if":
                    return Bang("if", [self.expr(BIT), self.expr(ty, True), self.expr(ty, True)], ty)
                return ListLit(self.list_elems(el, exact, r.randint(1, 3)), ty)
            if k == "class" and not exact and not self.strict and "def-typed-join" not in self.avoid and self.defs_of(ty.cls) \
                    and ty.cls is not self.sc.cur_class() and self.typed_top(True) and self.p(0.3):
                return Marked(Bang("if", [self.expr(BIT), self.record_value(ty, False), self.record_value(ty, False)], ty), "def-typed-join")
            return self.literal(ty, exact)
        finally:
            self.posctx.pop()

    def maybe_empty_prefixed(self, lst):
        """!listconcat([]<C>, lst) - the idiom of building lists from a typed empty start (IntrinsicsAMDGPU.td)"""
        if "typed-empty-list" in self.avoid or not self.typed_top(True) or not self.p(0.5):
            return lst, False      # (only where the operator is the whole value of a typed position: a wrong type stays local)
        return Bang("listconcat", [TypedEmptyList(lst.ty), lst], lst.ty), True

    def record_field_of(self, ty):
        """(class, field, overridden marker): a usable class with a readable field of type ty."""
        c = []
        for cls in self.usable_classes():
            over = {x.name for x in cls.info.get("overridden", [])} | overridden_names(cls.info["parents"])
            c += [(cls, f, "-overridden" if f.name in over else "") for f in class_fields(cls) if f.ty == ty and not f.info.get("unset")]
        return self.r.choice(c) if c else None

    def cond(self, ty, exact):
        ctxs = set(self.posctx)
        if self.loops or self.in_cond or self.in_multiclass is not None or not self.in_plain_def or not self.typed_top(True) or \
                not (ctxs & {"field-init", "let-value"}) or \
                (ctxs & {"parent-arg", "targ-default", "classvalue-arg", "defm-arg", "defm-class-arg", "multiclass-parent-arg"}):
            # (llvm-tblgen 14 gives up silently - exit code 1, no message - on a !cond it cannot fold yet: inside a
            #  foreach, in template argument lists and defaults; and it mis-parses a !cond in the condition position
            #  of another one, and on one that depends on template arguments of a class.  Only written in field
            #  initialisers and `let` values in the body of a top-level def, and not as an operand: `!not(!cond(1: f, true: 0))`
            #  is a syntax error for llvm-tblgen 14.)
            return self.literal(ty, exact)
        n = self.r.randint(1, 2)
        self.in_cond = True
        cl = [(self.expr(BIT), self.expr(ty, True)) for _ in range(n)]
        cl.append((Lit("true", BIT), self.expr(ty, True)))
        self.in_cond = False
        return Cond(cl, ty)

    def nonempty_list(self, ty):
        l = ListLit(self.list_elems(ty.elem, True, self.r.randint(1, 2), True), ty)
        if self.p(0.4):
            return Bang("listconcat", [l, self.expr(ty, True)], ty)
        return l

    def foldl(self, ty):
        init = self.expr(ty, True, leafy=True)
        src = self.r.choice([LIST(INT), LIST(INT), LIST(STRING)])
        rf = self.record_field_of(INT) if self.p(0.3) else None
        if rf is not None:
            src = LIST(CLASS(rf[0]))
        lst = self.expr(src, True)
        tel = False
        if rf is not None:
            lst, tel = self.maybe_empty_prefixed(lst)
        # (llvm-tblgen 14 substitutes a foreach iterator into !foldl's own variables: not borrowed)
        acc = self.bangvar(ty, kinds=("defvar",))
        fr = self.sc.push(Frame("bang"))
        fr.vars[acc.name] = acc
        v = self.bangvar_of(lst, src.elem, kinds=("defvar",))
        fr.vars[v.name] = v
        if rf is not None:
            body = Bang("add", [IdUse(acc, ty, "bangvar@bang-arg"),
                                FieldAccess(IdUse(v, v.ty, "bangvar@field-access-base"), rf[1], "field@field-access%s:bangvar-base" % rf[2])], INT)
        elif src.elem == INT:
            body = Bang("add", [IdUse(acc, ty, "bangvar@bang-arg"), self.expr(INT, True)], INT)
        else:
            body = Bang("add", [IdUse(acc, ty, "bangvar@bang-arg"), Bang("size", [self.expr(STRING, True)], INT)], INT)
        self.sc.pop()
        self.dead.append((acc, "bangvar"))
        self.dead.append((v, "bangvar"))
        b = Bang("foldl", [init, lst, None, None, body], ty, vars={2: acc, 3: v})
        return Marked(b, "typed-empty-list") if tel else b

    # -- names with sanctioned shadowing ------------------------------------------------------
    def global_value_names(self, kinds):
        g = self.sc.frames[0]
        vis = self.sc.visible()
        return sorted(n for n, d in g.vars.items() if d.kind in kinds and vis.get(n) is d)

    def defvar_name(self):
        """Fresh, or (S1) the name of a defvar / foreach iterator of an outer frame."""
        if self.o["shadowing"] and self.p(0.3):
            cur = self.sc.frames[-1]
            bad = self.sc.visible_fields_targs() | self.future_fields | self.sc.bang_names()
            vis = self.sc.visible()
            c = sorted(n for n, d in vis.items() if d.kind in ("defvar", "foreach") and n not in cur.vars and n not in bad)
            if c and len(self.sc.frames) > 1:
                n = self.r.choice(c)
                self.note_shadow("defvar-shadows-%s" % vis[n].kind)
                return n
        return self.fresh("v")

    def targ_name(self, inherited):
        if self.o["shadowing"] and self.p(0.15):
            c = [n for n in self.global_value_names(("defvar", "def")) if n not in inherited and n not in self.sc.frames[-1].vars]
            if c:
                n = self.r.choice(c)
                self.note_shadow("targ-shadows-global-%s" % self.sc.frames[0].vars[n].kind)
                return n
        return self.fresh("a")

    def field_name(self, fr):
        if self.o["shadowing"] and self.p(0.12):
            taken = {f.name for f in self.sc.rec_fields(fr)} | set(fr.vars) | fr.reserved
            c = [n for n in self.global_value_names(("defvar",)) if n not in taken]
            if c:
                n = self.r.choice(c)
                self.note_shadow("field-shadows-global-defvar")
                return n
        return self.fresh("f")

    def iter_name(self):
        # (an iterator named like a global defvar is no longer written: llvm-tblgen 14 substitutes the loop variable
        #  into inherited field values that mention the global of the same name)
        if self.o["shadowing"] and self.o.get("foreach_shadows_global") and self.p(0.12):
            vis = self.sc.visible()
            g = self.sc.frames[0]
            c = [n for n in self.global_value_names(("defvar",)) if vis.get(n) is g.vars[n] and n not in self.sc.visible_fields_targs()]
            if c and len(self.sc.frames) >= 1:
                n = self.r.choice(c)
                self.note_shadow("foreach-shadows-global-defvar")
                return n
        return self.fresh("i")

    # -- records ---------------------------------------------------------------------------------
    def pick_parents(self, must=None, maxn=2):
        """Classes with pairwise disjoint ancestor sets; the first derives from every class in must."""
        r = self.r
        out = []
        cands = list(self.classes)
        if must:
            first = [c for c in cands if all(is_subclass(c, k) for k in must)]
            if not first:
                return None
            out.append(r.choice(first))
        n = r.choice([0, 1, 1, 1, 2]) if not must else r.choice([1, 1, 2])
        r.shuffle(cands)
        for c in cands:
            if len(out) >= min(n, maxn):
                break
            if all(not (set(ancestors(c)) & set(ancestors(o))) for o in out) and \
                    all(not ({f.name for f in class_fields(c)} & {f.name for f in class_fields(o)}) for o in out):
                out.append(c)
        return out

    def gen_targs(self, fr, inherited_names, atleast=0):
        targs = []
        n = max(atleast, self.r.choice([0, 0, 1, 1, 2, 3]))
        defaulting = False
        for _ in range(n):
            ty = self.rand_type()
            d = Decl("targ", self.targ_name(inherited_names), ty)
            d.info["concrete"] = True
            d.info["of_record"] = True
            default = None
            if defaulting or self.p(0.3):
                defaulting = True
                self.posctx.append("targ-default")
                self.excluded = {d.name}
                self.no_binders = True      # (llvm-tblgen 14: a default made of !foldl over another argument counts as "not specified")
                default = self.expr(ty)
                self.no_binders = False
                self.excluded = set()
                self.posctx.pop()
                if has_unset(default):
                    default, defaulting = None, False
                else:
                    d.info["default"] = True
            fr.vars[d.name] = d
            targs.append(TArg(d, default, self.doc(allow_trail=True)))
        return targs

    def gen_body(self, owner, fr, is_class):
        """Items of a record body (fields, let overrides, defvars)."""
        r = self.r
        if self.p(0.25):
            return None
        items = []
        inherited = [f for p_ in fr.rec["parents"] for f in class_fields(p_)]
        lettable = [f for f in inherited if not (f.ty.k == "class" and f.ty.cls is self.pending_fwd)]
        r.shuffle(lettable)
        if self.o.get("encodings", True) and "same-body-let" not in self.avoid and self.p(0.02):
            items += self.gen_encoding(owner, fr)
        for _ in range(r.choice([0, 1, 1, 2, 3, 4])):
            c = r.choice(["field"] * 5 + ["let"] * 3 + ["defvar"] * 2 + (["assert"] if self.o["assert_stmt"] else []))
            if c == "assert":
                items.append(self.gen_assert(strict=False))
            elif c == "let" and lettable:
                f = lettable.pop()
                rng = vty = None
                if f.ty.k == "bits" and f.ty.n >= 2 and self.p(0.5):
                    k = r.randint(1, f.ty.n - 1)          # `let f{hi-lo} = v;` / `let f{i} = b;`
                    rng, vty = range_text(r, f.ty.n, k), (BIT if k == 1 else BITS(k))
                self.posctx.append("let-value")
                self.no_fields = True      # `let f = g;` can build reference cycles between fields
                e = self.expr(vty or f.ty)
                self.no_fields = False
                self.posctx.pop()
                fr.rec["overridden"].add(f.name)
                owner.info["overridden"].append(f)
                items.append(FieldLet(f, e, self.doc(), rng, vty))
            elif c == "defvar":
                name = self.defvar_name()
                fr.reserved.add(name)
                self.posctx.append("body-defvar-init")
                self.no_record = True      # llvm-tblgen parses a body defvar's value outside the record
                e = self.expr(self.rand_simple_type(), exact=True)
                self.no_record = False
                self.posctx.pop()
                d = Decl("defvar", name, e.ty)
                fr.vars[name] = d
                items.append(BodyDefvar(d, e, self.doc()))
            else:
                if is_class and self.p(0.08):
                    ty = CLASS(owner)          # a field of the class's own type (no initialiser)
                    e = None
                else:
                    ty = self.rand_type()
                    e = None
                name = self.field_name(fr)
                fr.reserved.add(name)
                d = Decl("field", name, ty, owner=owner)
                d.info["of_record"] = True
                if not (ty.k == "class" and ty.cls is owner) and self.p(0.04):
                    e = Lit("?", ty)                  # explicitly unset
                    d.info["unset"] = True
                elif not (ty.k == "class" and ty.cls is owner) and self.p(0.8):
                    self.posctx.append("field-init")
                    self.excluded = {name}
                    e = self.field_init(ty)
                    self.excluded = set()
                    self.posctx.pop()
                else:
                    d.info["unset"] = True      # never read: an unset field cannot be resolved in a def
                fr.rec["fields"].insert(0, d)
                owner.info["fields"].insert(0, d)
                items.append(FieldDef(d, e, self.doc()))
        return items

    def gen_encoding(self, owner, fr):
        """An instruction encoding a la LLVM: `bits<16> Inst; bits<4> rd; let Inst{15-12} = opc; let Inst{11-8} = rd; ...`
        The encoding field and the operand fields stay (partly) unset and are never read as whole values; inside a bits
        value an unresolved reference is legal TableGen."""
        r = self.r
        items = []
        n = r.choice([8, 8, 16])
        enc = Decl("field", self.fresh("f"), BITS(n), owner=owner)
        enc.info.update(of_record=True, unset=True)
        fr.reserved.add(enc.name)
        fr.rec["fields"].insert(0, enc)
        owner.info["fields"].insert(0, enc)
        items.append(FieldDef(enc, None, self.doc()))
        ops = []
        for _ in range(r.choice([0, 1, 2])):
            o = Decl("field", self.fresh("f"), BITS(r.choice([2, 3, 4])), owner=owner)
            o.info.update(of_record=True, unset=True)
            fr.reserved.add(o.name)
            fr.rec["fields"].insert(0, o)
            owner.info["fields"].insert(0, o)
            items.append(FieldDef(o, None, self.doc()))
            ops.append(o)
        sources = ops + [d for d in fr.vars.values() if d.kind == "targ" and d.ty.k == "bits" and d.ty.n < n]
        r.shuffle(sources)
        hi = n - 1
        self.posctx.append("let-value")
        while hi >= 0:
            src = sources.pop() if sources and sources[-1].ty.n <= hi + 1 and self.p(0.8) else None
            k = src.ty.n if src is not None else r.randint(1, min(4, hi + 1))
            lo = hi - k + 1
            if k == 1:
                rng, vty = str(hi), BIT
            else:
                rng, vty = r.choice(["%d-%d", "%d...%d"]) % (hi, lo), BITS(k)
            if src is not None:
                e = IdUse(src, src.ty, self.tag(src))
            elif self.p(0.15):
                e = None                                   # these bits stay unset
            elif self.p(0.1):
                e = Lit("?", vty)
            else:
                self.no_fields = True
                e = self.expr(vty, leafy=True)
                self.no_fields = False
            if e is not None:
                items.append(FieldLet(enc, e, self.doc(), rng, vty))
            hi = lo - 1
        self.posctx.pop()
        fr.rec["overridden"].add(enc.name)
        self.meta["encodings"] = self.meta.get("encodings", 0) + 1
        return items

    def field_init(self, ty):
        """Initialiser of a field; sometimes carries a deliberately out-of-scope name."""
        # (not under `if`: llvm-tblgen never looks at names in a branch that is not taken)
        if self.o["oos"] and self.oos_budget > 0 and not self.in_if and self.p(0.35):
            for t in [ty] + ([ty.elem] if ty.k == "list" else []):
                c = self.oos_candidate(t)
                if not c:
                    continue
                self.oos_budget -= 1
                self.meta["oos"] += 1
                how = self.r.choice(["whole", "wrapped"])
                if t is not ty:
                    u = IdUse(None, t, "oos:%s@list-elem" % c[1], name=c[0].name)
                    return ListLit([u] + self.list_elems(t, False, 2, True)[1:], ty)
                if how == "wrapped" and ty.k == "int":
                    u = IdUse(None, t, "oos:%s@bang-arg" % c[1], name=c[0].name)
                    return Bang("add", [u, self.expr(INT, leafy=True)], INT)
                if how == "wrapped" and ty.k == "string":
                    # (not as a paste operand: there an unknown identifier is a string, not an error)
                    u = IdUse(None, t, "oos:%s@bang-arg" % c[1], name=c[0].name)
                    return Bang("strconcat", [Lit('"%s"' % self.r.choice(WORDS), STRING), u], STRING)
                return IdUse(None, t, "oos:%s@field-init" % c[1], name=c[0].name)
        return self.expr(ty)

    def rand_simple_type(self):
        return self.r.choice([INT, INT, STRING, BIT, LIST(INT), LIST(STRING), BITS(2)])

    def retire_record(self, fr, owner, is_class):
        for n, d in fr.vars.items():
            self.dead.append((d, ("class-targ" if d.kind == "targ" else "body-defvar")))
        for f in fr.rec["fields"]:
            self.dead.append((f, "class-field" if is_class else "def-field"))

    def gen_defm_user(self):
        """`def u { C r = m1__x1; }`: a record created by an earlier top-level defm used as a value."""
        recs = [(n, ps) for n, ps in self.defm_records if n not in self.sc.visible()]
        if not recs:
            # make one: multiclass + defm, as ordinary statements, next time round
            return None
        name, ps = self.r.choice(recs)
        c = self.r.choice(ps)
        decl = Decl("def", self.fresh("d"))
        decl.info = dict(parents=[], fields=[], overridden=[], usable=True, concrete=True, pasted=False)
        f = Decl("field", self.fresh("f"), CLASS(c), owner=decl)
        f.info["of_record"] = True
        decl.info["fields"].append(f)
        items = [FieldDef(f, DefmRecordUse(name, CLASS(c)), self.doc())]
        fs = [x for x in class_fields(c) if not x.info.get("unset") and x.ty.k in ("int", "string", "bit")]
        if fs and self.p(0.5):
            x = self.r.choice(fs)
            g = Decl("field", self.fresh("f"), x.ty, owner=decl)
            g.info["of_record"] = True
            decl.info["fields"].insert(0, g)
            # the field of a defm record: no goto expectation (the base is unknown to the indexer)
            items.append(FieldDef(g, FieldAccess(DefmRecordUse(name, CLASS(c)), x, "field@field-access:defm-record-base", visited=None), self.doc()))
        self.sc.frames[0].vars[decl.name] = decl
        self.meta["defm_record_use"] = self.meta.get("defm_record_use", 0) + 1
        return DefStmt(decl, [], [], items, self.doc())

    def gen_forward_group(self):
        """`class X;` ... a class with a field of type X ... `class X { ... }`"""
        x = Decl("class", self.fresh("C"))
        x.info = dict(parents=[], targs=[], fields=[], overridden=[], forward=True)
        out = [ForwardClassStmt(x, self.doc())]
        self.pending_fwd = x
        out.append(self.gen_class(fwd_field=x))
        if self.p(0.5):
            st = self.stmt("top")
            if st is not None:
                out.append(st)
        self.pending_fwd = None
        out.append(self.gen_class(decl=x))
        self.fwd_done = True
        self.meta["forward_class"] = 1
        # a def of the defined class given to the field that was typed before the definition
        holder = out[1].decl
        fld = holder.info["fields"][0]
        saved, self.let_constraint = self.let_constraint, [holder]
        for _ in range(4):
            st = self.gen_def()
            if st is None:
                break
            if not any(isinstance(it, FieldLet) and it.field is fld for it in (st.items or [])):
                self.posctx.append("let-value")
                self.literals_only = True      # (the value is written into the body of st: no names of this scope)
                for _try in range(6):
                    e = self.expr(fld.ty)
                    if not has_unset(e):
                        break
                self.literals_only = False
                self.posctx.pop()
                if not has_unset(e):
                    st.items = (st.items or []) + [FieldLet(fld, e, self.doc())]
            out.append(st)
            break
        self.let_constraint = saved
        return out

    def gen_class(self, decl=None, fwd_field=None):
        decl = decl or Decl("class", self.fresh("C"))
        parents = self.pick_parents() or []
        inherited = {f.name for p_ in parents for f in class_fields(p_)}
        decl.info = dict(parents=[], targs=[], fields=[], overridden=[], forward=decl.info.get("forward", False))
        fr = self.sc.push(Frame("record", rec=dict(parents=[], fields=[], cls=decl, overridden=set())))
        targs = self.gen_targs(fr, inherited)
        decl.info["targs"] = [a.decl for a in targs]
        self.no_fields = True
        self.excluded = set(inherited)     # (a later parent's arguments already see the earlier parents' fields)
        refs = [self.classref(p_, "class-parent") for p_ in parents]
        self.excluded = set()
        self.no_fields = False
        fr.rec["parents"] = parents
        decl.info["parents"] = parents
        items = self.gen_body(decl, fr, True)
        if fwd_field is not None:
            # a field whose type is a class that is only declared so far: no initialiser, never read
            f = Decl("field", self.fresh("f"), CLASS(fwd_field), owner=decl)
            f.info.update(of_record=True, unset=True, fwd_typed=True)
            decl.info["fields"].insert(0, f)
            items = (items or []) + [FieldDef(f, None, self.doc())]
        if self.o["heir_targs"] and items is not None and parents:
            pt = [a for p_ in parents for a in p_.info["targs"] if a.name not in self.sc.visible()]
            if pt:
                a = self.r.choice(pt)
                f = Decl("field", self.fresh("f"), a.ty, owner=decl)
                items.append(FieldDef(f, IdUse(a, a.ty, "targ@field-init:in-heir"), Doc()))
                decl.info["fields"].insert(0, f)
                self.meta["heir_targs"] = True
        self.sc.pop()
        self.retire_record(fr, decl, True)
        self.classes.append(decl)
        return ClassStmt(decl, targs, refs, items, self.doc(), multiline=bool(targs) and self.p(0.25), oneline=self.p(0.3))

    def def_suffix(self):
        """Paste every enclosing loop variable into the name; None if that is impossible."""
        sfx = []
        vis = self.sc.visible()
        for it in self.loops:
            if it.ty not in (INT, STRING) or it.info.get("nonunique") or vis.get(it.name) is not it:
                return None
            sfx.append(IdUse(it, it.ty, "foreach@def-name"))
        return sfx

    def gen_def(self):
        must = list(self.let_constraint)
        parents = self.pick_parents(must=must) if (must or self.classes) else []
        if parents is None:
            return None
        anonymous = False
        sfx = []
        if self.loops:
            sfx = self.def_suffix()
            if sfx is None or self.p(0.3):
                anonymous, sfx = True, []
        elif self.p(0.12):
            anonymous = True
        if anonymous and self.in_defset and "anon-def-in-defset" in self.avoid:
            return None
        decl = None
        if not anonymous:
            if self.in_multiclass:
                name = self.fresh("_x") + ("_" if sfx else "")
            else:
                name = self.fresh("p") + "_" if sfx else self.fresh("d")
            decl = Decl("def", name)
            decl.info["pasted"] = bool(sfx)
        holder = decl or Decl("def", "<anonymous>")
        holder.info = dict(parents=[], fields=[], overridden=[], usable=False, pasted=bool(sfx))
        saved_mcd, self.in_mc_def = self.in_mc_def, self.in_multiclass is not None
        saved_pd, self.in_plain_def = self.in_plain_def, self.in_multiclass is None and not self.loops
        fr = self.sc.push(Frame("record", rec=dict(parents=[], fields=[], cls=None, overridden=set())))
        self.no_fields = True
        self.excluded = {f.name for p_ in parents for f in class_fields(p_)}
        refs = [self.classref(p_, "def-parent") for p_ in parents]
        self.excluded = set()
        self.no_fields = False
        fr.rec["parents"] = parents
        holder.info["parents"] = parents
        items = self.gen_body(holder, fr, False)
        self.in_mc_def = saved_mcd
        self.in_plain_def = saved_pd
        self.sc.pop()
        self.retire_record(fr, holder, False)
        if self.in_multiclass is not None:
            flds = {f.name for q in parents for f in class_fields(q)} | {f.name for f in holder.info["fields"]}
            self.mc_prod.append(dict(anc=set().union(*[set(ancestors(q)) for q in parents]) if parents else set(), fields=flds,
                                     name=(decl.name if decl is not None and not sfx else None), parents=list(parents),
                                     direct=not self.loops and not self.in_if))
        if decl is not None and not sfx and self.in_multiclass and parents:
            # the records a defm creates are called <defm name><this name>: the bare name never exists
            self.dead.append((Decl("def", decl.name, CLASS(parents[0])), "def@multiclass"))
        if decl is not None and sfx and self.in_multiclass is None and not self.unusable and not self.in_if and parents \
                and all(it.info.get("values") for it in self.loops) and len(self.loops) <= 2:
            # the records `p3_1`, `p3_2` a foreach creates
            names = [decl.name]
            for it in self.loops:
                names = [a + v for a in names for v in it.info["values"]]
            self.foreach_records_pending.append(([(nm, list(parents)) for nm in names], len(self.loops)))
        if decl is not None and not sfx and not self.in_multiclass and not self.unusable and not self.loops:
            decl.info["usable"] = True
            decl.info["concrete"] = True
            self.sc.frames[0].vars[decl.name] = decl
        name_prefix = decl is not None and not sfx and self.in_multiclass is not None and self.p(0.12)
        if name_prefix:
            decl.info["unchecked"] = True     # (the indexer takes `NAME` as the name of this def)
        st = DefStmt(decl, sfx, refs, items, self.doc(), oneline=self.p(0.3), name_prefix=name_prefix)
        if decl is not None and not sfx and not name_prefix and self.in_multiclass is None and not self.loops and \
                "string-named-def" not in self.avoid and self.p(0.03):
            # `def "d7" : ...`: a record like any other for TableGen; it is never referred to by name here
            decl.info["unchecked"] = True
            decl.info["usable"] = False
            self.sc.frames[0].vars.pop(decl.name, None)
            n = decl.name
            st.name_string = '"%s"' % n if self.p(0.6) else '!strconcat("%s", "%s")' % (n[:1], n[1:])
        return st

    # -- simple statements -------------------------------------------------------------------------
    def gen_defvar_records(self):
        """`defvar v = [d1, d2];` - a list of defs of one class (its element type is only known loosely)"""
        cs = [c for c in self.classes if len(self.defs_of(c)) >= 1]
        if not cs or self.strict:
            return None
        c = self.r.choice(cs)
        ds = self.defs_of(c)
        n = min(len(ds), self.r.randint(1, 3))
        self.posctx.append("defvar-init")
        elems = [IdUse(d, CLASS(c), self.tag(d)) for d in self.r.sample(ds, n)]
        self.posctx.pop()
        d = Decl("defvar", self.fresh("v"), LIST(CLASS(c)))
        d.info.update(concrete=True, minlen=n, type_any=True)
        self.target_frame().vars[d.name] = d
        return DefvarStmt(d, ListLit(elems, LIST(CLASS(c))), self.doc())

    def gen_defvar(self):
        if self.p(0.1) and not self.in_if:
            st = self.gen_defvar_records()
            if st is not None:
                return st
        name = self.defvar_name()
        strict = self.p(0.6)
        saved, self.strict = self.strict, self.strict or strict
        self.posctx.append("defvar-init")
        self.in_defvar = True
        e = self.expr(self.rand_simple_type(), exact=True)
        self.in_defvar = False
        self.posctx.pop()
        concrete = self.strict
        self.strict = saved
        d = Decl("defvar", name, e.ty)
        d.info["concrete"] = concrete
        if isinstance(e, ListLit):
            d.info["minlen"] = len(e.elems)      # l[i] is only written for i < the known length
        self.target_frame().vars[name] = d
        return DefvarStmt(d, e, self.doc())

    def target_frame(self):
        return self.sc.frames[-1]

    def block(self, kind, extra_var=None, n=None):
        """Statements of a foreach / if / let / multiclass body in a fresh block frame."""
        fr = self.sc.push(Frame("block" if kind != "multiclass" else "multiclass"))
        if extra_var is not None:
            fr.vars[extra_var.name] = extra_var
        saved, self.block_braces = self.block_braces, n is None
        stmts = self.stmts(n if n is not None else self.r.choice([1, 1, 2, 3]), kind)
        self.block_braces = saved
        self.sc.pop()
        for nme, d in fr.vars.items():
            if d.kind in ("defvar", "foreach"):
                self.dead.append((d, "%s@%s-block" % (d.kind, kind)))
        return stmts

    def gen_foreach(self):
        r = self.r
        c = r.choice(["list", "list", "range", "var", "defset"])
        saved, self.strict = self.strict, True
        self.posctx.append("foreach-init")
        init, ty = None, None
        if c == "var":
            cands = [d for d in self.sc.visible().values() if d.kind in ("defvar", "targ") and d.info.get("concrete")
                     and d.ty is not None and d.ty.k == "list" and d.ty.elem in (INT, STRING)]
            if cands:
                d = r.choice(cands)
                init, ty = IdUse(d, d.ty, self.tag(d)), d.ty.elem
        if c == "defset" and not self.loops and "defset-use" not in self.avoid:
            cands = [d for d in self.sc.visible().values() if d.kind == "defset"]
            if cands:
                d = r.choice(cands)
                init, ty = IdUse(d, d.ty, self.tag(d)), d.ty.elem
        if init is None and c == "range":
            lo = r.randint(0, 3)
            init, ty = ("range", r.choice(["%d...%d", "%d...%d", "{%d...%d}", "%d-%d"]) % (lo, lo + r.randint(0, 2))), INT
        if init is None:
            ty = r.choice([INT, INT, STRING])
            if ty == INT:
                vals = r.sample(range(10), r.randint(1, 3))
                elems = [Lit(str(v), INT) for v in vals]
                # a loop over computed values would risk duplicate def names: literals only when
                # names are pasted, identifiers allowed when there is one element
                if len(elems) == 1 and self.p(0.5):
                    elems = [self.expr(INT, exact=True, leafy=True)]
            else:
                vals = r.sample(["a", "b", "c", "d"], r.randint(1, 3))
                elems = [Lit('"%s"' % v, STRING) for v in vals]
            init = ListLit(elems, LIST(ty))
        self.posctx.pop()
        self.strict = saved
        it = Decl("foreach", self.iter_name(), ty)
        it.info["concrete"] = True
        if isinstance(init, ListLit) and all(isinstance(x, Lit) for x in init.elems):
            it.info["values"] = [x.t.strip('"') for x in init.elems]
        elif isinstance(init, tuple):
            m = [int(x) for x in __import__("re").findall(r"\d+", init[1])]
            it.info["values"] = [str(v) for v in range(m[0], m[1] + 1)]
        if isinstance(init, IdUse):
            it.info["nonunique"] = True      # the list may hold duplicates: no pasted names inside
        self.loops.append(it)
        braces = self.p(0.6)
        stmts = self.block("foreach", extra_var=it, n=None if braces else 1)
        self.loops.pop()
        if not self.loops:
            for recs, _ in self.foreach_records_pending:
                self.foreach_records += recs
            self.foreach_records_pending = []
        return ForeachStmt(it, init, stmts, braces, self.doc())

    def gen_if(self):
        saved, self.strict = self.strict, True
        self.posctx.append("if-cond")
        cond = self.expr(self.r.choice([BIT, BIT, INT]))
        self.posctx.pop()
        self.strict = saved
        self.unusable += 1
        self.in_if += 1
        tbr = self.p(0.7)
        then = self.block("if", n=None if tbr else 1)
        els, ebr = None, True
        if self.p(0.5):
            ebr = self.p(0.7)
            els = self.block("if", n=None if ebr else 1)
        self.in_if -= 1
        self.unusable -= 1
        return IfStmt(cond, then, els, tbr, ebr, self.doc())

    def gen_let(self):
        cs = [c for c in self.classes if class_fields(c) and all(is_subclass(c, k) or is_subclass(k, c) for k in self.let_constraint)]
        if not cs:
            return None
        k = self.r.choice(cs)
        fields = [f for f in class_fields(k) if not (f.ty.k == "class")]
        if not fields:
            return None
        items = []
        self.posctx.append("let-in-value")
        ranges = {}
        chosen = self.r.sample(fields, min(len(fields), self.r.choice([1, 1, 2])))
        self.excluded = {f.name for f in chosen}      # (inside the records these names are the fields themselves)
        for f in chosen:
            vty = f.ty
            if f.ty.k == "bits" and f.ty.n >= 2 and self.p(0.5):
                kk = self.r.randint(1, f.ty.n - 1)
                vty = BIT if kk == 1 else BITS(kk)
                ranges[len(items)] = (range_text(self.r, f.ty.n, kk), vty)
            items.append((f, self.expr(vty)))
        self.excluded = set()
        self.posctx.pop()
        self.let_constraint.append(k)
        braces = self.p(0.6)
        stmts = self.block("let", n=None if braces else 1)
        self.let_constraint.pop()
        return LetStmt(items, stmts, braces, self.doc(), ranges)

    def gen_defset(self):
        cs = [c for c in self.classes if all(is_subclass(c, k) or is_subclass(k, c) for k in self.let_constraint)]
        if not cs:
            return None
        k = self.r.choice(cs)
        d = Decl("defset", self.fresh("S"), LIST(CLASS(k)))
        d.info["concrete"] = True
        self.let_constraint.append(k)
        self.in_defset += 1
        stmts = self.stmts(self.r.choice([1, 2, 3]), "defset")   # a defset opens no scope
        self.in_defset -= 1
        self.let_constraint.pop()
        if not self.unusable and not self.loops:
            self.sc.frames[0].vars[d.name] = d
        return DefsetStmt(d, stmts, self.doc())

    def gen_multiclass(self):
        decl = Decl("multiclass", self.fresh("M"))
        decl.info = dict(targs=[], parents=[])
        fr = self.sc.push(Frame("multiclass"))
        targs = self.gen_targs(fr, set(), atleast=1 if "mc-no-targs" in self.avoid else 0)
        decl.info["targs"] = [a.decl for a in targs]
        refs = []
        if self.multiclasses and self.p(0.25):
            pm = self.r.choice(self.multiclasses)
            refs = [self.classref(pm, "multiclass-parent")]
            decl.info["parents"] = [pm]
        self.in_multiclass = decl
        self.unusable += 1
        self.mc_defs = []
        self.mc_prod = [dict(e) for pm_ in decl.info["parents"] for e in pm_.info["prod"]]
        decl.info["prod"] = self.mc_prod      # what one instantiation creates: one entry per def
        stmts = self.stmts(self.r.choice([1, 2, 2, 3]), "multiclass")
        self.unusable -= 1
        self.in_multiclass = None

        self.sc.pop()
        for n, d in fr.vars.items():
            self.dead.append((d, "multiclass-targ" if d.kind == "targ" else "defvar@multiclass-block"))
        self.multiclasses.append(decl)
        return MulticlassStmt(decl, targs, refs, stmts, self.doc(), multiline=bool(targs) and self.p(0.2))

    def gen_defm(self):
        ms = [m for m in self.multiclasses if m is not self.in_multiclass]
        must = list(self.let_constraint)
        if must:
            # inside `let f = v in` / a defset every created record must have the field / the class
            ms = [m for m in ms if m.info["prod"] and
                  all(any(id(k) == a for a in e["anc"]) for e in m.info["prod"] for k in must)]
        if not ms:
            return None
        anonymous, sfx = self.p(0.2), []
        if self.loops:
            sfx = self.def_suffix()
            if sfx is None:
                anonymous, sfx = True, []
        refs = [self.classref(self.r.choice(ms), "defm-ref")]
        if len(ms) > 1 and self.p(0.15):
            def anc(m):
                out = {id(m)}
                for q in m.info.get("parents", []):
                    out |= anc(q)
                return out
            c2 = [m for m in ms if not (anc(m) & anc(refs[0].target))]
            if c2:
                refs.append(self.classref(self.r.choice(c2), "defm-ref"))
        prod = [dict(e) for rf in refs for e in rf.target.info["prod"]]
        # classes after the multiclasses: parents of every def created
        extra = []
        if self.o.get("defm_classes", True) and self.p(0.3) and \
                not (self.in_multiclass is not None and "defm-class-in-multiclass" in self.avoid):
            cands = list(self.classes)
            self.r.shuffle(cands)
            for c in cands:
                if len(extra) >= self.r.choice([1, 1, 2]):
                    break
                ca, cf = set(ancestors(c)), {f.name for f in class_fields(c)}
                if all(not (ca & e["anc"]) and not (cf & e["fields"]) for e in prod) and \
                        all(not (ca & set(ancestors(x))) and not (cf & {f.name for f in class_fields(x)}) for x in extra):
                    extra.append(c)
            for c in extra:
                refs.append(self.classref(c, "defm-class-ref"))
                for e in prod:
                    e["anc"] = e["anc"] | set(ancestors(c))
                    e["fields"] = e["fields"] | {f.name for f in class_fields(c)}
                    e["parents"] = e["parents"] + [c]
        decl = None
        if not anonymous:
            decl = Decl("defm", (self.fresh("_m") if self.in_multiclass else self.fresh("m")) + "_")
            decl.info["pasted"] = bool(sfx)
        elif sfx:
            sfx = []
        empty = False
        if decl is None and not self.loops and not self.in_if and self.in_multiclass is None and not self.unusable and \
                "string-named-def" not in self.avoid and all(id(rf.target) not in self.empty_defm for rf in refs) and \
                all(e["name"] and e["direct"] for e in prod) and not ({e["name"] for e in prod} & self.empty_names) and self.p(0.25):
            # `defm "" : M<..>;` creates the records of M without a prefix (every record name once)
            empty = True
            self.empty_names |= {e["name"] for e in prod}
            for rf in refs:
                self.empty_defm.add(id(rf.target))
        direct = not self.loops and not self.in_if and decl is not None and not sfx
        for e in prod:
            e["name"] = decl.name + e["name"] if (direct and e["name"]) else None
            e["direct"] = e["direct"] and direct
        if self.in_multiclass is not None:
            self.mc_prod.extend(prod)
        elif direct and not self.unusable:
            self.defm_records += [(e["name"], e["parents"]) for e in prod if e["name"] and e["direct"] and e["parents"]]
        st = DefmStmt(decl, sfx, refs, self.doc())
        st.empty_name = empty
        return st

    def gen_assert(self, strict=True):
        """An assertion that always holds: !eq(X, X) over one identifier or literal."""
        saved, self.strict = self.strict, self.strict or strict
        self.posctx.append("assert-cond")
        t = self.r.choice([INT, STRING])
        x = self.expr(t, exact=True, leafy=True)
        if isinstance(x, IdUse):
            y = IdUse(x.decl, x.ty, x.tag)
        else:
            y = Lit(x.t, x.ty) if isinstance(x, Lit) else x
        self.posctx.pop()
        self.posctx.append("assert-message")
        m = self.expr(STRING, leafy=self.p(0.5))
        self.posctx.pop()
        self.strict = saved
        return AssertStmt(Bang("eq", [x, y], BIT), m, self.doc())

    # -- statement lists ----------------------------------------------------------------------------
    def stmts(self, n, where):
        out = []
        for _ in range(n):
            st = None
            for _try in range(6):
                st = self.stmt(where)
                if st is not None:
                    break
            if st is not None:
                out.append(st)
        if not out:
            st = self.gen_def()
            if st is None and not (where in ("if", "let") and "if-let-defvar" in self.avoid) \
                    and not (where == "defset" and "defset-defvar" in self.avoid) \
                    and not (self.in_multiclass and "mc-defvar" in self.avoid):
                st = self.gen_defvar()
            if st is not None:
                out.append(st)
        return out

    def stmt(self, where):
        r = self.r
        deep = len(self.sc.frames) + self.in_defset > 4
        if where == "top":
            kinds = ["class"] * 5 + ["def"] * 5 + ["defvar"] * 3 + ["foreach"] * 3 + ["if"] * 2 + ["let"] * 2 + \
                    ["defset"] * 2 + ["multiclass"] * 3 + ["defm"] * 3
            if self.kf_defm and not self.defm_records:
                kinds += ["multiclass"] * 6 + ["defm"] * 10
        elif where == "multiclass":
            kinds = ["def"] * 5 + ["defvar"] * 2 + ["foreach"] * 2 + ["if"] * 2 + ["let"] + ["defm"] * 2
        elif where in ("let", "defset"):
            kinds = ["def"] * 6 + ["defvar"] * 2 + ["foreach"] * 2 + ["if"] + ["let"] + ["defm"] * 2
        else:
            kinds = ["def"] * 5 + ["defvar"] * 3 + ["foreach"] * 2 + ["if"] * 2 + ["let"] + ["defm"] * 2 + ["defset"]
        if self.o["assert_stmt"] and where not in ("let", "defset"):
            kinds += ["assert"]
        if deep:
            kinds = [k for k in kinds if k in ("def", "defvar", "defm")]
        if where in ("foreach", "if") and self.o.get("nested_includes", True) and getattr(self, "pending", None) \
                and self.block_braces and not self.let_constraint and not self.in_defset and not self.in_multiclass and self.p(0.15):
            self.nested_where = where
            return self.gen_nested_include()
        k = r.choice(kinds)
        if k == "defm" and self.in_defset and not self.let_constraint:
            return None
        if k == "defset" and (self.in_multiclass or self.loops or self.in_defset):
            return None
        if k == "defvar" and where == "defset" and "defset-defvar" in self.avoid:
            return None
        if k == "defvar" and self.in_multiclass and "mc-defvar" in self.avoid:
            return None
        if k == "defvar" and where in ("if", "let") and "if-let-defvar" in self.avoid:
            return None
        return getattr(self, "gen_" + k)()

    # -- files ----------------------------------------------------------------------------------------
    def gen_files(self):
        r = self.r
        root = "/main.td"
        nfiles = 0
        if self.o["includes"]:
            nfiles = r.choice([0, 0, 1, 1, 2, 3])
        # only the file names are fixed here; the directory is chosen relative to the includer
        # (same directory or a sub-directory: the in-memory file system of the harness does not
        # normalise `..`)
        self.pending = [r.choice(["inc%d.td", "sub/inc%d.td", "lib%d.td"]) % (i + 1) for i in range(nfiles)]
        self.oos_budget = r.choice([0, 0, 0, 1, 2, 2]) if self.o["oos"] else 0
        self.tree = {}
        self.gen_file(root, self.size, 0)
        return root

    def gen_nested_include(self):
        """`include` inside a foreach / if block: the included statements live in that block."""
        rel = self.pending.pop(0)
        path = self.cur_path[-1]
        tgt = path.rsplit("/", 1)[0] + "/" + rel
        inc = Include(rel, tgt)
        inc.doc = self.doc(allow_trail=False)
        self.nested_includes += 1
        self.gen_file(tgt, 2, len(self.cur_path), nested=True)
        return inc

    def gen_file(self, path, n, depth, nested=False):
        r = self.r
        stmts = []
        self.tree[path] = stmts
        self.cur_path.append(path)
        try:
            self._gen_file(path, n, depth, nested, stmts)
        finally:
            self.cur_path.pop()

    def _gen_file(self, path, n, depth, nested, stmts):
        r = self.r
        # where the includes of this file go: at the top or between statements
        mine = []
        while self.pending and not nested and (depth == 0 or r.random() < 0.4) and len(mine) < 3:
            if depth == 0 and mine and r.random() < 0.3:
                break
            mine.append(self.pending.pop(0))
        slots = sorted(r.choice([0, 0, r.randint(0, n)]) for _ in mine)
        for i in range(n + 1):
            while slots and slots[0] <= i:
                slots.pop(0)
                rel = mine.pop(0)
                tgt = path.rsplit("/", 1)[0] + "/" + rel
                inc = Include(rel, tgt)
                inc.doc = self.doc(allow_trail=bool(stmts))
                stmts.append(inc)
                self.gen_file(tgt, max(2, n // 2), depth + 1)
            if i == n:
                break
            st = None
            want = None
            if not self.classes and r.random() < 0.8:
                want = "class"
            where = "top" if not nested else self.nested_where
            if self.want_scenario and not self.scenario_done and not nested and depth == 0 and self.p(0.35):
                self.scenario_done = True
                stmts.extend(scenario_target(self))
                continue
            if self.kf_fwd and not self.fwd_done and not nested and self.classes and self.p(0.4):
                stmts.extend(self.gen_forward_group())
                continue
            if self.kf_defm and not nested and not self.meta.get("defm_record_use") and self.classes and self.p(0.5):
                if not self.defm_records and not self.kf_defm_tried:
                    # a multiclass with a directly written, named def and a named top-level defm of it
                    self.kf_defm_tried = True
                    for _ in range(3):
                        mc = self.gen_multiclass()
                        stmts.append(mc)
                        if any(e["name"] and e["direct"] and e["parents"] for e in mc.decl.info["prod"]):
                            break
                    for _ in range(3):
                        if self.defm_records:
                            break
                        dm = self.gen_defm()
                        if dm is not None:
                            stmts.append(dm)
                st = self.gen_defm_user()
                if st is not None:
                    stmts.append(st)
                    continue
            for _try in range(6):
                st = self.gen_class() if want == "class" and not nested else self.stmt(where)
                if st is not None:
                    break
            if st is None:
                st = self.gen_defvar()
            if not stmts and st.doc and st.doc.items and st.doc.items[0][0] == "trail":
                st.doc = Doc(st.doc.items[1:])
            stmts.append(st)


def relpath(frm, to):
    """Path of `to` as written in an include of file `frm` (relative to frm's directory)."""
    fd = frm.rsplit("/", 1)[0]
    td, tn = to.rsplit("/", 1)
    if td == fd:
        return tn
    if fd == "":
        return to[1:]
    ups = [".."] * (len([x for x in fd.split("/") if x]))
    return "/".join(ups + [x for x in to.split("/") if x])


# --------------------------------------------------------------------------------------------
# Program: rendered files + expectations
# --------------------------------------------------------------------------------------------


class Invalid(Exception):
    """The tree is not a valid program any more (e.g. a use whose declaration was dropped)."""


class Program:
    pass


def rerender(tree, root, seed=None, opts=None):
    """Render a statement tree and compute every expectation.  Raises Invalid for dangling uses."""
    w = Writer()
    w.tree = tree
    w.open(root)
    render_file(w, tree[root])
    w.close()
    p = Program()
    p.seed, p.opts = seed, opts
    p.tree, p.root = tree, root
    p.files = w.text()
    p.writer = w
    p.cov = w.cov
    # uses
    p.uses = []
    for u in w.uses:
        d = u["decl"]
        if d is not None and getattr(d, "rid", None) is not w.rid:
            raise Invalid("use of %s without declaration" % u["name"])
        p.uses.append(dict(file=u["file"], start=u["start"], end=u["end"], name=u["name"], path=u.get("path", ""),
                           target=(tuple(d.loc) if d is not None else None), decl=d, tag=u["tag"],
                           visited=u["visited"], ctx=u["ctx"]))
    # a deliberately out-of-scope name must really be out of scope (shrinking may hoist declarations)
    for u in w.uses:
        if u["decl"] is None:
            for d in w.decl_sites:
                if d.name == u["name"] and d.scope in u["scopes"] and d.order < u["order"] and \
                        not (d.kind == "def" and "multiclass" in d.where.split("/")):
                    raise Invalid("out-of-scope name %s is in scope" % u["name"])
    # decls with their reference sites
    by_decl = {}
    for u in p.uses:
        if u["decl"] is not None:
            by_decl.setdefault(id(u["decl"]), []).append((u["file"], u["start"], u["end"], u["visited"], u["tag"]))
    p.decls = []
    seen = set()
    for d in w.decl_sites:
        if id(d) in seen:
            raise Invalid("declaration rendered twice")
        seen.add(id(d))
        p.decls.append(dict(decl=d, kind=d.kind, name=d.name, loc=tuple(d.loc), where=d.where,
                            uses=by_decl.get(id(d), [])))
    p.outline = w.outline
    p.folds = {f: sorted(v) for f, v in w.folds.items()}
    p.hints = {f: sorted(v, key=lambda h: h["pos"]) for f, v in w.hints.items()}
    # hover: every identifier position with a known declaration
    p.hovers = []
    for d in w.decl_sites:
        p.hovers.append(dict(file=d.loc[0], start=d.loc[1], end=d.loc[2], decl=d, site="decl", tag=d.kind))
    for u in p.uses:
        if u["decl"] is not None:
            p.hovers.append(dict(file=u["file"], start=u["start"], end=u["end"], decl=u["decl"], site="use",
                                 tag=u["tag"], visited=u["visited"]))
    for h in p.hovers:
        d = h["decl"]
        h.update(kind=d.kind, name=d.name, type=(d.ty.text() if d.ty is not None else None), signature=d.signature(),
                 doc=d.doc, doc_undetermined=d.doc_any, doc_layout=d.doc_tag, target=tuple(d.loc))
    for d in w.decl_sites:
        w.count("doc:%s:%s" % (d.kind, d.doc_tag))
    w.count("files:%d" % len(p.files))
    # regions whose discrepancies have one named cause (so that its many consequences share a construct name)
    p.regions = [dict(file=c["file"], start=c["span"][0], end=c["span"][1], cause="defm-class-in-multiclass", mode="inside")
                 for c in w.classrefs if c["ctx"] == "defm-class" and "multiclass" in c["path"].split("/")] + list(w.regions)
    # (the causes repaired in /repo keep their `Marked` wrappers in the tree, but no longer rename anything)
    # (all of them are repaired now - also string-named defs, a94cf3d, and typed list literals, fea1d77: a discrepancy inside such a
    # construct is reported under its own name, not under the construct's)
    p.regions = []
    p.known_false_sites = list(w.known_false)
    p.known_false = sorted({k["kind"] for k in w.known_false})
    p.n_oos = sum(1 for u in p.uses if u["decl"] is None)
    p.named_args = any(c["named"] for c in w.classrefs)
    p.heir_targs = any(u["tag"].endswith(":in-heir") for u in p.uses)
    p.well_typed = p.n_oos == 0
    p.tblgen_ok = p.n_oos == 0 and not p.named_args and not p.heir_targs
    return p


def violations(tree, avoid):
    """Constructs of the `avoid` set present in the tree (the shrinker must not create them)."""
    out = set()

    def walk(lst, ctx):
        for st in lst:
            if isinstance(st, DefvarStmt):
                if "multiclass" in ctx:
                    out.add("mc-defvar")
                if ctx and ctx[-1] == "defset":
                    out.add("defset-defvar")
                if ctx and ctx[-1] in ("if", "let"):
                    out.add("if-let-defvar")
            if isinstance(st, MulticlassStmt) and not st.targs:
                out.add("mc-no-targs")
            if isinstance(st, DefStmt) and st.decl is None and "defset" in ctx:
                out.add("anon-def-in-defset")
            for sub in st.substmts():
                walk(sub, ctx + [st.kind])
    for f in tree:
        walk(tree[f], [])
    return out & set(avoid)


def generate(seed, size=8, opts=None):
    """-> Program (deterministic in seed, size, opts)."""
    g = Gen(seed, size, opts)
    root = g.gen_files()
    p = rerender(g.tree, root, seed, g.o)
    p.shadow = g.meta["shadow"]
    return p


# --------------------------------------------------------------------------------------------
# fault seeding (C13)
# --------------------------------------------------------------------------------------------

FAULT_CLASSES = ("undefined-class", "undefined-multiclass", "undefined-identifier", "undefined-include",
                 "missing-template-argument", "surplus-template-argument", "type-incompatible-initialiser",
                 "type-incompatible-argument", "wrong-operator-arity", "syntax-error-root", "syntax-error-include")

CLASS_POS_TAGS = ("class-parent", "def-parent", "classvalue-name", "targ-type", "field-type", "defset-type", "bang-type",
                  "defm-class-ref", "empty-list-type")


def wrong_literal(ty):
    """A literal that is certainly not convertible to ty."""
    if ty.k in ("int", "bit", "bits", "dag", "class"):
        return '"oops"' if ty.k != "dag" else "7"
    if ty.k == "class":
        return "7"
    if ty.k in ("string", "code"):
        return "7"
    if ty.k == "list":
        return '"oops"' if ty.elem.k != "string" else "7"
    return '"oops"'


def next_token_span(text, pos):
    """Span (byte offsets) of the next non-trivia token at/after byte offset pos."""
    text = text.encode("utf-8").decode("latin-1")      # one character per byte
    n = len(text)
    i = pos
    while i < n:
        if text[i] in " \t\r\n":
            i += 1
        elif text.startswith("//", i):
            j = text.find("\n", i)
            i = n if j < 0 else j
        elif text.startswith("/*", i):
            j = text.find("*/", i)
            i = n if j < 0 else j + 2
        else:
            break
    if i >= n:
        return (n, n)
    j = i
    if text[i].isalnum() or text[i] in "_!\"":
        j = i + 1
        if text[i] == '"':
            while j < n and text[j] != '"':
                j += 1
            j += 1
        else:
            while j < n and (text[j].isalnum() or text[j] == "_"):
                j += 1
    else:
        j = i + 1
    return (i, j)


def fault_sites(p):
    """Every eligible single-fault site of program p.  Each site: dict(cls, sub, file, edit=(s,e,new),
    site=(s,e) in post-edit coordinates, check='covers'|'intersects')."""
    w = p.writer
    out = []

    def add(cls, sub, file, s, e, new, site, check="covers", variant=None):
        out.append(dict(cls=cls, sub=sub, variant=variant or sub, file=file, edit=(s, e, new), site=site, check=check,
                        tick=w.tick_of(file, s)))

    for u in p.uses:
        d = u["decl"]
        if d is None or u["visited"] is None and not u["tag"].endswith(":before-definition"):
            continue      # (declaration of a forward class, field of a defm record: nothing to seed)
        s, e = u["start"], u["end"]
        base = u["tag"].split("@")[-1] if "@" in u["tag"] else u["tag"]
        if d.kind == "class" and u["tag"].split(":")[0] in CLASS_POS_TAGS:
            new = "Undefined_C"
            add("undefined-class", u["tag"], u["file"], s, e, new, (s, s + len(new)))
        elif d.kind == "multiclass":
            new = "Undefined_M"
            add("undefined-multiclass", u["tag"], u["file"], s, e, new, (s, s + len(new)))
        elif u["tag"] in ("named-arg-name", "def-name-paste", "defm-name-paste") or u["tag"].endswith("@paste"):
            continue        # an unknown identifier pasted with `#` is a string in TableGen, not an error
        else:
            new = "undefined_id"
            sub = u["tag"]
            if "@" in sub:
                sub = "value:" + sub.split("@", 1)[1].split(":")[0]
            add("undefined-identifier", sub, u["file"], s, e, new, (s, s + len(new)))
            parts = u.get("path", "").split("/")
            if sub.startswith("value:") and parts and parts[-1] == "def" and not ({"class", "multiclass", "defm"} & set(parts)) \
                    and u["tag"].split("@")[-1].split(":")[0] in ("field-init", "let-value", "bang-arg", "list-elem"):
                # NAME only exists inside classes and multiclasses: in a def written at top level it is an undefined identifier
                add("undefined-identifier", "NAME-in-top-level-def", u["file"], s, e, "NAME", (s, s + 4))
    for inc in w.includes:
        s, e = inc["str_span"]
        new = "missing_file.td"
        add("undefined-include", "existing-include-retargeted", inc["file"], s, e, new,
            (inc["span"][0], inc["span"][0] + (inc["span"][1] - inc["span"][0]) - (e - s) + len(new)))
    for g in w.stmt_gaps:
        new = '\ninclude "missing_file.td"'
        add("undefined-include", "extra-include", g["file"], g["pos"], g["pos"], new, (g["pos"] + 1, g["pos"] + len(new)))
    for c in w.classrefs:
        if c["named"]:
            continue
        s, e = c["span"]
        kind = "multiclass" if c["target"].kind == "multiclass" else c["ctx"]
        nargs = len(c["args"])
        if nargs and nargs == c["nreq"]:
            a = c["args"][-1]
            if nargs == 1:
                ds, de = a["span"]
            else:
                ds, de = c["args"][-2]["span"][1], a["span"][1]
            add("missing-template-argument", kind, c["file"], ds, de, "", (ds, ds))
        elif nargs == 0 and c["nreq"] == 0:
            pass
        if not c["angle"]:
            if c["nparams"] == 0:
                new = "<7>"
                add("surplus-template-argument", kind, c["file"], e, e, new, (e + 1, e + 2))
        elif nargs == c["nparams"]:
            if nargs == 0:
                add("surplus-template-argument", kind, c["file"], e - 1, e - 1, "7", (e - 1, e))
            else:
                add("surplus-template-argument", kind, c["file"], e - 1, e - 1, ", 7", (e + 1, e + 2))
        for a in c["args"]:
            vs, ve = a["vspan"]
            new = wrong_literal(a["ty"])
            add("type-incompatible-argument", kind, c["file"], vs, ve, new, (vs, vs + len(new)),
                variant="%s:%s" % (kind, a["ty"].k))
    usable_defs = [d for d in w.decl_sites if d.kind == "def" and d.info.get("usable")]

    def unrelated_def(ty, file, pos):
        """A global def, declared before the site, that is no instance of class ty."""
        t = w.tick_of(file, pos)
        for d in usable_defs:
            if d.order < t and not any(is_subclass(q, ty.cls) for q in d.info["parents"]) \
                    and not any(x.name == d.name and x is not d for x in w.decl_sites):     # (not shadowed anywhere)
                return d.name
        return None

    for c in w.classrefs:
        if c["named"]:
            continue
        kind = "multiclass" if c["target"].kind == "multiclass" else c["ctx"]
        for a in c["args"]:
            if a["ty"].k == "class":
                nm = unrelated_def(a["ty"], c["file"], a["vspan"][0])
                if nm:
                    vs, ve = a["vspan"]
                    add("type-incompatible-argument", kind, c["file"], vs, ve, nm, (vs, vs + len(nm)),
                        variant="%s:class<-unrelated-def" % kind)
    for v in w.values:
        if v["ty"].k == "class" and v["ctx"] != "let-in-value" and not v["ctx"].startswith("list-element"):
            nm = unrelated_def(v["ty"], v["file"], v["span"][0])
            if nm:
                s, e = v["span"]
                add("type-incompatible-initialiser", v["ctx"], v["file"], s, e, nm, (s, s + len(nm)),
                    variant="%s:class<-unrelated-def" % v["ctx"])
    avoid = set((p.opts or {}).get("avoid") or ())
    for v in w.values:
        s, e = v["span"]
        if v["ctx"].startswith("list-element"):
            if "list-element-fault" in avoid or v["ty"].k == "class":
                continue
            new = wrong_literal(v["ty"])
            add("type-incompatible-initialiser", "list-element", v["file"], s, e, new, (s, s + len(new)), variant=v["ctx"])
            continue
        new = wrong_literal(v["ty"])
        add("type-incompatible-initialiser", v["ctx"], v["file"], s, e, new, (s, s + len(new)),
            variant="%s:%s" % (v["ctx"], v["ty"].k))
    for b in w.bangs:
        s, e = b["span"]
        n = len(b["args"])
        if b["hi"] is not None and n == b["hi"]:
            add("wrong-operator-arity", "surplus argument", b["file"], e - 1, e - 1, ", 0", b["op_span"],
                variant="surplus:!%s" % b["op"])
        if n == b["lo"]:
            if n == 1:
                ds, de = b["args"][0]
            else:
                ds, de = b["args"][-2][1], b["args"][-1][1]
            add("wrong-operator-arity", "missing argument", b["file"], ds, de, "", b["op_span"],
                variant="missing:!%s" % b["op"])
    for t in w.stmt_ends:
        cls = "syntax-error-root" if t["file"] == p.root else "syntax-error-include"
        text = p.files[t["file"]]
        nt = next_token_span(text, t["pos"] + 1)
        # a missing `;` is noticed at the next token; a missing `}` possibly only at the end of the file
        add(cls, "deleted:%s" % t["kind"], t["file"], t["pos"], t["pos"] + 1, "", (nt[0] - 1, nt[1] - 1),
            "intersects" if t["kind"] == ";" else "at-or-after")
    for t in w.stmt_ends:
        if t["kind"] == ";":
            cls = "syntax-error-root" if t["file"] == p.root else "syntax-error-include"
            add(cls, "stray-after-semicolon:=", t["file"], t["pos"] + 1, t["pos"] + 1, " =", (t["pos"] + 2, t["pos"] + 3), "intersects")
    for g in w.stmt_gaps:
        cls = "syntax-error-root" if g["file"] == p.root else "syntax-error-include"
        for tok in ("=", ")", "in"):
            new = " " + tok
            add(cls, "stray:%s" % tok, g["file"], g["pos"], g["pos"], new, (g["pos"] + 1, g["pos"] + 1 + len(tok)), "intersects")
    return out


class FaultedProgram:
    pass


def apply_fault(p, site):
    w = p.writer
    fp = FaultedProgram()
    fp.base = p
    fp.root = p.root
    fp.fault = site
    fp.files = dict(p.files)
    s, e, new = site["edit"]
    raw = p.files[site["file"]].encode("utf-8")
    fp.files[site["file"]] = (raw[:s] + new.encode("utf-8") + raw[e:]).decode("utf-8")
    fp.site = (site["file"], site["site"][0], site["site"][1])
    fp.check = site["check"]
    fp.cls, fp.sub = site["cls"], site["sub"]
    # files the fault touches: everything not completely rendered before the fault position
    # (later text may legitimately depend on what the fault broke)
    fp.touched = {f for f in p.files if w.closed.get(f, 1 << 60) > site["tick"]}
    fp.touched.add(site["file"])
    return fp


def seed_fault(p, rng, cls=None):
    """Plant exactly one fault (of class cls if given).  -> FaultedProgram or None."""
    sites = [s for s in fault_sites(p) if cls is None or s["cls"] == cls]
    if not sites:
        return None
    if cls is None:
        c = rng.choice(sorted({s["cls"] for s in sites}))
        sites = [s for s in sites if s["cls"] == c]
    return apply_fault(p, rng.choice(sites))


if __name__ == "__main__":
    import sys
    seed = int(sys.argv[1]) if len(sys.argv) > 1 else 1
    size = int(sys.argv[2]) if len(sys.argv) > 2 else 8
    prog = generate(seed, size)
    for path, text in prog.files.items():
        print("=== %s" % path)
        print(text)
    print("=== uses")
    for u in prog.uses:
        print(u["file"], u["start"], u["end"], u["name"], "->", u["target"], u["tag"])


# --------------------------------------------------------------------------------------------
# an LLVM-style target description (imitating llvm/Target/Target.td and a small backend): registers, register classes,
# value types, instruction formats in several class levels, `let` blocks around groups of defs, multiclass hierarchies
# with nested defm and NAME pasting, patterns with dag operators, !cast by constructed name.
# Every identifier is rendered through the same use / declaration machinery as the random part, so the C05 / C18 /
# C19 expectations follow mechanically.  Accepted by llvm-tblgen 14 in all its variants (audit.py).
# --------------------------------------------------------------------------------------------


def scenario_target(g):
    r = g.r
    out = []
    G = g.sc.frames[0].vars

    def doc():
        return g.doc(allow_trail=False)

    def cls(name, targs=(), parents=(), simple=False):
        d = Decl("class", name)
        d.info = dict(parents=[q for q, _ in parents], targs=[], fields=[], overridden=[])
        tas = []
        for ty, n, default in targs:
            t = Decl("targ", n, ty)
            t.info.update(concrete=True, of_record=True)
            if default is not None:
                t.info["default"] = True
            d.info["targs"].append(t)
            tas.append(TArg(t, default(d) if callable(default) else default, None))
        return d, tas

    def ta(c, name):
        return next(t for t in c.info["targs"] if t.name == name)

    def fld(c, name):
        return next(f for f in class_fields(c) if f.name == name)

    def field(owner, ty, name, expr=None):
        f = Decl("field", name, ty, owner=owner)
        f.info["of_record"] = True
        if expr is None:
            f.info["unset"] = True
        owner.info["fields"].insert(0, f)
        return FieldDef(f, expr, doc())

    def let(owner, f, expr, rng=None, vty=None):
        owner.info["overridden"].append(f)
        return FieldLet(f, expr, doc(), rng, vty)

    def use(d, pos):
        return IdUse(d, d.ty, "%s@%s" % (d.kind, pos))

    def ref(target, exprs, tag, names=()):
        params = target.info["targs"]
        args = []
        for i, e in enumerate(exprs):
            args.append((params[i].name if i in names else None, e, params[i]))
        return ClassRef(target, args, bool(args), tag)

    def s(text):
        return Lit('"%s"' % text, STRING)

    def n(v, ty=INT):
        return Lit(str(v), ty)

    def defrec(name, parent_refs, parents, items=None, oneline=False):
        d = Decl("def", name)
        d.info = dict(parents=list(parents), fields=[], overridden=[], usable=True, concrete=True, pasted=False)
        G[name] = d
        return d, DefStmt(d, [], parent_refs, items, doc(), oneline=oneline)

    def dag(op, args, pos="dag-arg"):
        return DagLit(IdUse(op, None, "%s@dag-operator" % op.kind), args)

    # ---- value types -------------------------------------------------------------------------
    VT, tas = cls("ValueType", [(INT, "size", None), (INT, "value", None)])
    items = [field(VT, STRING, "Namespace", s("MVT")), field(VT, INT, "Size", use(ta(VT, "size"), "field-init")),
             field(VT, INT, "Value", use(ta(VT, "value"), "field-init"))]
    out.append(ClassStmt(VT, tas, [], items, doc()))
    g.classes.append(VT)
    vts = []
    for i, (nm, sz) in enumerate(r.sample([("i8", 8), ("i16", 16), ("i32", 32), ("i64", 64), ("f32", 32)], r.randint(2, 3))):
        d, st = defrec(nm, [ref(VT, [n(sz), n(i + 1)], "def-parent")], [VT])
        vts.append(d)
        out.append(st)
    # ---- registers ----------------------------------------------------------------------------
    REG = Decl("class", "Register")
    REG.info = dict(parents=[], targs=[], fields=[], overridden=[])
    t_n = Decl("targ", "n", STRING)
    t_sub = Decl("targ", "subregs", LIST(CLASS(REG)))
    t_sub.info["default"] = True
    for t in (t_n, t_sub):
        t.info.update(concrete=True, of_record=True)
    REG.info["targs"] = [t_n, t_sub]
    items = [field(REG, STRING, "Namespace", s("")), field(REG, STRING, "AsmName", use(t_n, "field-init")),
             field(REG, LIST(CLASS(REG)), "SubRegs", use(t_sub, "field-init")), field(REG, INT, "CostPerUse", n(0)),
             field(REG, BITS(16), "HWEncoding", n(0, BITS(16))), field(REG, BIT, "isArtificial", Lit("false", BIT))]
    out.append(ClassStmt(REG, [TArg(t_n), TArg(t_sub, Lit("[]", LIST(CLASS(REG))))], [], items, doc(), multiline=g.p(0.3)))
    MR, tas = cls("MyReg", [(BITS(4), "num", None), (STRING, "n", None), (LIST(CLASS(REG)), "subregs", Lit("[]", LIST(CLASS(REG))))],
                  [(REG, None)])
    prefs = [ref(REG, [use(ta(MR, "n"), "parent-arg"), use(ta(MR, "subregs"), "parent-arg")], "class-parent")]
    hw = fld(MR, "HWEncoding")
    items = [let(MR, hw, use(ta(MR, "num"), "let-value"), r.choice(["3-0", "3...0"]), BITS(4)), let(MR, fld(MR, "Namespace"), s("My"))]
    out.append(ClassStmt(MR, tas, prefs, items, doc()))
    nreg = r.randint(2, 4)
    via_foreach = g.p(0.3) and "foreach-record-use" not in g.avoid
    regs = []          # callables producing a use of register i
    if via_foreach:
        it = Decl("foreach", "i", INT)
        it.info["concrete"] = True
        dR = Decl("def", "R")
        dR.info = dict(parents=[MR], fields=[], overridden=[], usable=False, pasted=True)
        body = DefStmt(dR, [IdUse(it, INT, "foreach@def-name")],
                       [ref(MR, [use(it, "parent-arg"), Paste([s("r"), use(it, "paste")])], "def-parent")], None, Doc())
        out.append(ForeachStmt(it, ("range", "0...%d" % (nreg - 1)), [body], False, doc()))
        g.dead.append((it, "foreach@foreach-block"))
        for i in range(nreg):
            regs.append(lambda pos, i=i: ForeachRecordUse("R%d" % i, CLASS(MR)))
        g.meta["foreach_record_use"] = 1
    else:
        for i in range(nreg):
            d, st = defrec("R%d" % i, [ref(MR, [n(i, BITS(4)), s("r%d" % i)], "def-parent")], [MR], oneline=True)
            out.append(st)
            regs.append(lambda pos, d=d: use(d, pos))
    # a register with sub-registers
    d0, st = defrec("D0", [ref(MR, [n(8, BITS(4)), s("d0"), ListLit([regs[0]("list-elem"), regs[1]("list-elem")], LIST(CLASS(REG)))], "def-parent")], [MR])
    out.append(st)
    # ---- set operators, SDNodes -------------------------------------------------------------------
    plain = {}
    for nm in ("ins", "outs", "set", "sequence", "node", "imm"):
        plain[nm], st = defrec(nm, [], [], None)
        out.append(st)
    SDN, tas = cls("SDNode", [(STRING, "opcode", None), (INT, "numops", n(2))])
    out.append(ClassStmt(SDN, tas, [], [field(SDN, STRING, "Opcode", use(ta(SDN, "opcode"), "field-init")),
                                        field(SDN, INT, "NumOperands", use(ta(SDN, "numops"), "field-init"))], doc(), oneline=True))
    g.classes.append(SDN)
    ops = {}
    for nm, isd in (("add", "ADD"), ("sub", "SUB"), ("and", "AND"), ("shl", "SHL"), ("rotl", "ROTL")):
        ops[nm], st = defrec(nm, [ref(SDN, [s("ISD::" + isd)], "def-parent")], [SDN], oneline=True)
        out.append(st)
    # ---- register classes --------------------------------------------------------------------------
    RC, tas = cls("RegisterClass", [(STRING, "namespace", None), (LIST(CLASS(VT)), "regTypes", None), (INT, "alignment", None), (DAG, "regList", None)])
    items = [field(RC, STRING, "Namespace", use(ta(RC, "namespace"), "field-init")),
             field(RC, LIST(CLASS(VT)), "RegTypes", use(ta(RC, "regTypes"), "field-init")),
             field(RC, INT, "Size", n(0)), field(RC, INT, "Alignment", use(ta(RC, "alignment"), "field-init")),
             field(RC, DAG, "MemberList", use(ta(RC, "regList"), "field-init")), field(RC, BIT, "isAllocatable", Lit("true", BIT))]
    out.append(ClassStmt(RC, tas, [], items, doc(), multiline=g.p(0.3)))
    members = [(regs[i]("dag-arg"), None) for i in range(nreg)]
    if g.p(0.5):
        members.append((dag(plain["sequence"], [(s("R%u"), None), (n(0), None), (n(nreg - 1), None)]), None))
    gpr, st = defrec("GPR", [ref(RC, [s("My"), ListLit([use(v, "list-elem") for v in vts[:r.randint(1, 2)]], LIST(CLASS(VT))), n(32),
                                      dag(ops["add"], members)], "def-parent")], [RC])
    out.append(st)
    # ---- predicates ---------------------------------------------------------------------------------
    PR, tas = cls("Predicate", [(STRING, "cond", None)])
    out.append(ClassStmt(PR, tas, [], [field(PR, STRING, "CondString", use(ta(PR, "cond"), "field-init"))], doc(), oneline=True))
    g.classes.append(PR)
    preds = []
    for nm in ("HasX", "HasY"):
        d, st = defrec(nm, [ref(PR, [s("ST->%s()" % nm.lower())], "def-parent")], [PR], oneline=True)
        preds.append(d)
        out.append(st)
    # ---- instruction formats: three levels --------------------------------------------------------------
    INS, _ = cls("Instruction")
    items = [field(INS, STRING, "Namespace", s("")), field(INS, DAG, "OutOperandList"), field(INS, DAG, "InOperandList"),
             field(INS, STRING, "AsmString", s("")), field(INS, LIST(DAG), "Pattern"),
             field(INS, LIST(CLASS(REG)), "Uses", Lit("[]", LIST(CLASS(REG)))), field(INS, LIST(CLASS(REG)), "Defs", Lit("[]", LIST(CLASS(REG)))),
             field(INS, LIST(CLASS(PR)), "Predicates", Lit("[]", LIST(CLASS(PR)))), field(INS, INT, "Size", n(0)),
             field(INS, BIT, "isCommutable", Lit("false", BIT)), field(INS, BIT, "hasSideEffects", Lit("?", BIT)),
             field(INS, BITS(64), "TSFlags", n(0, BITS(64))), field(INS, CODE, "Predicate", Lit("[{ return true; }]", CODE))]
    fld(INS, "hasSideEffects").info["unset"] = True
    out.append(ClassStmt(INS, [], [], items, doc()))
    FMT, tas = cls("Format", [(BITS(3), "val", None)])
    out.append(ClassStmt(FMT, tas, [], [field(FMT, BITS(3), "Value", use(ta(FMT, "val"), "field-init"))], doc(), oneline=True))
    frm = []
    for i, nm in enumerate(("FrmR", "FrmI")):
        d, st = defrec(nm, [ref(FMT, [n(i + 1, BITS(3))], "def-parent")], [FMT], oneline=True)
        frm.append(d)
        out.append(st)
    MI, tas = cls("MyInst", [(DAG, "outs_", None), (DAG, "ins_", None), (STRING, "asm", None), (LIST(DAG), "pattern", None),
                             (CLASS(FMT), "f", use(frm[0], "targ-default"))], [(INS, None)])
    form = None
    items = [field(MI, BITS(32), "Inst"),
             let(MI, fld(MI, "Namespace"), s("My")), let(MI, fld(MI, "OutOperandList"), use(ta(MI, "outs_"), "let-value")),
             let(MI, fld(MI, "InOperandList"), use(ta(MI, "ins_"), "let-value")), let(MI, fld(MI, "AsmString"), use(ta(MI, "asm"), "let-value")),
             let(MI, fld(MI, "Pattern"), use(ta(MI, "pattern"), "let-value"))]
    items.append(field(MI, CLASS(FMT), "Form", use(ta(MI, "f"), "field-init")))
    form = fld(MI, "Form")
    items.append(let(MI, fld(MI, "TSFlags"), FieldAccess(use(form, "field-access-base"), fld(FMT, "Value"), "field@field-access:field-base"),
                     "2-0", BITS(3)))
    items.append(let(MI, fld(MI, "Size"), n(4)))
    out.append(ClassStmt(MI, tas, [ref(INS, [], "class-parent")], items, doc(), multiline=g.p(0.4)))
    RI, tas = cls("RInst", [(BITS(4), "opc", None), (STRING, "mn", None), (CLASS(SDN), "opnode", None), (CLASS(RC), "rc", use(gpr, "targ-default"))],
                  [(MI, None)])
    rc = ta(RI, "rc")
    rcu = lambda: use(rc, "dag-arg")
    pat = ListLit([dag(plain["set"], [(rcu(), "rd"), (DagLit(IdUse(ta(RI, "opnode"), None, "targ@dag-operator"), [(rcu(), "rs1"), (rcu(), "rs2")]), None)])],
                  LIST(DAG))
    prefs = [ref(MI, [dag(plain["outs"], [(rcu(), "rd")]), dag(plain["ins"], [(rcu(), "rs1"), (rcu(), "rs2")]),
                      Bang("strconcat", [use(ta(RI, "mn"), "bang-arg"), s(" $rd, $rs1, $rs2")], STRING), pat], "class-parent")]
    items = []
    for nm in ("rd", "rs1", "rs2"):
        items.append(field(RI, BITS(4), nm))
    inst = fld(RI, "Inst")
    for rng, src in (("31-28", use(ta(RI, "opc"), "let-value")), ("27-24", use(fld(RI, "rd"), "let-value")), ("23-20", use(fld(RI, "rs1"), "let-value")),
                     ("19-16", use(fld(RI, "rs2"), "let-value"))):
        items.append(let(RI, inst, src, rng if g.p(0.7) else rng.replace("-", "..."), BITS(4)))
    items.append(let(RI, inst, n(0, BITS(16)), "15-0", BITS(16)))
    # field access through a template argument of class type, one and two levels deep
    items.append(field(RI, INT, "RegAlign", FieldAccess(use(rc, "field-access-base"), fld(RC, "Alignment"), "field@field-access:targ-base")))
    items.append(field(RI, INT, "VTSize", FieldAccess(Bang("head", [FieldAccess(use(rc, "field-access-base"), fld(RC, "RegTypes"), "field@field-access:targ-base")],
                                                            CLASS(VT)), fld(VT, "Size"), "field@field-access:bang-base")))
    items.append(field(RI, INT, "NumOps", FieldAccess(use(ta(RI, "opnode"), "field-access-base"), fld(SDN, "NumOperands"), "field@field-access:targ-base")))
    out.append(ClassStmt(RI, tas, prefs, items, doc(), multiline=g.p(0.4)))
    split_at = len(out)          # everything so far may live in an included file (the "target independent" part)
    # ---- instructions in `let` blocks ------------------------------------------------------------------------
    instrs = []

    def rinst(name, opc, mn, op, body=None, extra=()):
        args = [n(opc, BITS(4)) if g.p(0.5) else Lit("0b" + format(opc, "04b"), BITS(4)), s(mn), use(ops[op], "parent-arg")] + list(extra)
        d, st = defrec(name, [ref(RI, args, "def-parent")], [RI], body)
        instrs.append(d)
        return st
    group = [rinst("ADD", 1, "add", "add"), rinst("AND", 2, "and", "and")]
    litems = [(fld(INS, "Predicates"), ListLit([use(preds[0], "list-elem")], LIST(CLASS(PR)))), (fld(INS, "isCommutable"), n(1, BIT))]
    if g.p(0.5):
        litems.reverse()
    out.append(LetStmt(litems, group, True, doc()))
    body = [let_def for let_def in ()]
    sub_items = [FieldLet(fld(INS, "Defs"), ListLit([regs[0]("list-elem")], LIST(CLASS(REG))), doc()),
                 FieldLet(fld(INS, "Uses"), ListLit([regs[1]("list-elem"), use(d0, "list-elem")], LIST(CLASS(REG))), doc())]
    st = rinst("SUB", 3, "sub", "sub", sub_items)
    instrs[-1].info["overridden"] = [fld(INS, "Defs"), fld(INS, "Uses")]
    out.append(LetStmt([(fld(INS, "Predicates"), ListLit([use(q, "list-elem") for q in preds], LIST(CLASS(PR))))], [st], g.p(0.5), doc()))
    # ---- multiclass hierarchy, nested defm, NAME pasting ---------------------------------------------------------------
    M1 = Decl("multiclass", "ALUri")
    m_t = [Decl("targ", "opc", BITS(4)), Decl("targ", "mn", STRING), Decl("targ", "opnode", CLASS(SDN))]
    for t in m_t:
        t.info.update(concrete=True, of_record=True)
    M1.info = dict(targs=m_t, parents=[], prod=[])
    rr = Decl("def", "rr")
    rr.info = dict(parents=[RI], fields=[], overridden=[], usable=False, pasted=False)
    st_rr = DefStmt(rr, [], [ref(RI, [use(m_t[0], "parent-arg"), use(m_t[1], "parent-arg"), use(m_t[2], "parent-arg")], "def-parent")], None, doc())
    ri = Decl("def", "ri")
    ri.info = dict(parents=[MI], fields=[], overridden=[], usable=False, pasted=False)
    ri_items = [FieldLet(fld(MI, "Inst"), use(m_t[0], "let-value"), doc(), "31-28", BITS(4))]
    f_imm = Decl("field", "isImm", BIT, owner=ri)
    f_tw = Decl("field", "Twin", STRING, owner=ri)
    f_tr = Decl("field", "TwinRec", CLASS(MI), owner=ri)
    f_ts = Decl("field", "TwinSize", INT, owner=ri)
    for f in (f_imm, f_tw, f_tr, f_ts):
        f.info["of_record"] = True
        ri.info["fields"].insert(0, f)
    ri_items.append(FieldDef(f_imm, Bang("if", [Bang("eq", [use(m_t[1], "bang-arg"), s("shl")], BIT), n(1, BIT), n(0, BIT)], BIT), doc()))
    ri_items.append(FieldDef(f_tw, Paste([Lit("NAME", STRING), s("rr")]), doc()))
    cast = lambda: Bang("cast", [Paste([Lit("NAME", STRING), s("rr")])], CLASS(MI), annot=CLASS(MI))
    ri_items.append(FieldDef(f_tr, cast(), doc()))
    ri_items.append(FieldDef(f_ts, FieldAccess(cast(), fld(MI, "Size"), "field@field-access-overridden:cast-base"), doc()))
    gdag = lambda nm: (use(gpr, "dag-arg"), nm)
    st_ri = DefStmt(ri, [], [ref(MI, [dag(plain["outs"], [gdag("rd")]), dag(plain["ins"], [gdag("rs"), (use(vts[0], "dag-arg"), "imm")]),
                                      Paste([use(m_t[1], "paste"), s("i $rd, $rs, $imm")]), Lit("[]", LIST(DAG)), use(frm[1], "parent-arg")], "def-parent")],
                    ri_items, doc())
    M1.info["prod"] = [dict(anc=set(ancestors(RI)), fields={f.name for f in class_fields(RI)}, name="rr", parents=[RI], direct=True),
                       dict(anc=set(ancestors(MI)), fields={f.name for f in class_fields(MI)} | {"isImm", "Twin", "TwinRec", "TwinSize"}, name="ri", parents=[MI], direct=True)]
    out.append(MulticlassStmt(M1, [TArg(t) for t in m_t], [], [st_rr, st_ri], doc()))
    g.multiclasses.append(M1)
    M2 = Decl("multiclass", "ALU2")
    m2_t = [Decl("targ", "opc", BITS(4)), Decl("targ", "mn", STRING), Decl("targ", "opnode", CLASS(SDN))]
    for t in m2_t:
        t.info.update(concrete=True, of_record=True)
    M2.info = dict(targs=m2_t, parents=[], prod=[])
    dm32 = Decl("defm", "_32")
    dm64 = Decl("defm", "_64")
    inner = [DefmStmt(dm32, [], [ref(M1, [use(m2_t[0], "defm-arg"), Paste([use(m2_t[1], "paste"), s("32")]), use(m2_t[2], "defm-arg")], "defm-ref")], doc()),
             DefmStmt(dm64, [], [ref(M1, [Bang("xor", [use(m2_t[0], "bang-arg"), n(1)], INT), Paste([use(m2_t[1], "paste"), s("64")]), use(m2_t[2], "defm-arg")],
                                     "defm-ref")], doc())]
    M2.info["prod"] = [dict(e, name=pre + e["name"]) for pre in ("_32", "_64") for e in M1.info["prod"]]
    out.append(MulticlassStmt(M2, [TArg(t) for t in m2_t], [], inner, doc()))
    g.multiclasses.append(M2)
    SCH, tas = cls("Sched", [(INT, "lat", None), (INT, "thr", lambda d: use(ta(d, "lat"), "targ-default"))])
    out.append(ClassStmt(SCH, tas, [], [field(SCH, INT, "Latency", use(ta(SCH, "lat"), "field-init")),
                                        field(SCH, INT, "Throughput", use(ta(SCH, "thr"), "field-init"))], doc(), oneline=g.p(0.5)))
    g.classes.append(SCH)
    M3 = Decl("multiclass", "Variants")
    m3_t = [Decl("targ", "mn", STRING), Decl("targ", "wide", BIT)]
    for t in m3_t:
        t.info.update(concrete=True, of_record=True)
    M3.info = dict(targs=m3_t, parents=[], prod=[])
    dn = Decl("def", "_narrow")
    dw = Decl("def", "_wide")
    for d_ in (dn, dw):
        d_.info = dict(parents=[SCH], fields=[], overridden=[], usable=False, pasted=False)
    cond = use(m3_t[1], "if-cond") if g.p(0.5) else Bang("eq", [use(m3_t[0], "bang-arg"), s("shl")], BIT)
    out.append(MulticlassStmt(M3, [TArg(t) for t in m3_t], [], [
        IfStmt(cond, [DefStmt(dw, [], [ref(SCH, [n(2), n(4)], "def-parent")], None, doc())],
               [DefStmt(dn, [], [ref(SCH, [n(1)], "def-parent")], None, doc())], True, True, doc())], doc()))
    M3.info["prod"] = [dict(anc=set(ancestors(SCH)), fields={"Latency", "Throughput"}, name=None, parents=[SCH], direct=False)]
    g.multiclasses.append(M3)
    out.append(DefmStmt(Decl("defm", "SHLV"), [], [ref(M3, [s("shl"), n(1, BIT)], "defm-ref")], doc()))
    shl = Decl("defm", "SHL")
    out.append(DefmStmt(shl, [], [ref(M2, [n(4, BITS(4)), s("shl"), use(ops["shl"], "defm-arg")], "defm-ref")], doc()))
    rot = Decl("defm", "ROT")
    rrefs = [ref(M1, [n(6, BITS(4)), s("rot"), use(ops["rotl"], "defm-arg")], "defm-ref")]
    if g.p(0.6):
        rrefs.append(ref(SCH, [n(r.randint(1, 5))], "defm-class-ref"))
    out.append(DefmStmt(rot, [], rrefs, doc()))
    g.defm_records += [("SHL" + e["name"], e["parents"]) for e in M2.info["prod"]] + [("ROT" + e["name"], e["parents"]) for e in M1.info["prod"]]
    # ---- patterns ----------------------------------------------------------------------------------------------
    PT, tas = cls("Pattern", [(DAG, "patternToMatch", None), (LIST(DAG), "resultInstrs", None)])
    out.append(ClassStmt(PT, tas, [], [field(PT, DAG, "PatternToMatch", use(ta(PT, "patternToMatch"), "field-init")),
                                       field(PT, LIST(DAG), "ResultInstrs", use(ta(PT, "resultInstrs"), "field-init")),
                                       field(PT, LIST(CLASS(PR)), "Predicates", Lit("[]", LIST(CLASS(PR)))), field(PT, INT, "AddedComplexity", n(0))], doc()))
    PA, tas = cls("Pat", [(DAG, "pattern", None), (DAG, "result", None)], [(PT, None)])
    out.append(ClassStmt(PA, tas, [ref(PT, [use(ta(PA, "pattern"), "parent-arg"), ListLit([use(ta(PA, "result"), "list-elem")], LIST(DAG))], "class-parent")],
                         None, doc()))

    def anon(parent_ref, parents, items=None):
        return DefStmt(None, [], [parent_ref], items, doc())
    a, b = r.sample(["a", "b", "x", "y", "lhs", "rhs"], 2)
    out.append(anon(ref(PA, [dag(ops["add"], [gdag(a), dag and (dag(ops["shl"], [gdag(b), (dag(vts[0], [(use(plain["imm"], "dag-arg"), "c")]), None)]), None)]),
                             dag(instrs[0], [gdag(a), gdag(b)])], "def-parent"), [PA]))
    out.append(anon(ref(PA, [dag(ops["sub"], [(use(plain["node"], "dag-arg"), a), (use(plain["node"], "dag-arg"), b)]),
                             dag(instrs[2], [(use(plain["node"], "dag-arg"), a), (use(plain["node"], "dag-arg"), b)])], "def-parent"), [PA]))
    if g.kf_defm and g.p(0.7):
        nm, ps = r.choice(g.defm_records[-6:])
        out.append(anon(ref(PA, [dag(ops["shl"], [gdag(a), gdag(b)]), DagLit(DefmRecordUse(nm, None), [gdag(a), gdag(b)])], "def-parent"), [PA]))
        g.meta["defm_record_use"] = g.meta.get("defm_record_use", 0) + 1
    # foreach over a list of records
    I = Decl("foreach", "I", CLASS(RI))
    I.info.update(concrete=True, nonunique=True, type_any=True)
    fitems = [FieldLet(fld(PT, "AddedComplexity"), FieldAccess(use(I, "field-access-base"), fld(INS, "Size"), "field@field-access-overridden:foreach-base", visited=None), doc())]
    fbody = DefStmt(None, [], [ref(PA, [dag(plain["node"], [(use(I, "dag-arg"), "x")]), DagLit(IdUse(I, None, "foreach@dag-operator"), [gdag("x"), gdag("x")])],
                                   "def-parent")], fitems, doc())
    out.append(ForeachStmt(I, ListLit([use(instrs[0], "list-elem"), use(instrs[1], "list-elem")], LIST(CLASS(RI))), [fbody], g.p(0.5), doc()))
    g.dead.append((I, "foreach@foreach-block"))
    # lookups by (constructed) name, field access two levels deep, assert, defvar chain, if
    u = Decl("def", "Info")
    u.info = dict(parents=[], fields=[], overridden=[], usable=True, concrete=True, pasted=False)
    G["Info"] = u
    uit = []

    def ufield(ty, name, e):
        f = Decl("field", name, ty, owner=u)
        f.info["of_record"] = True
        u.info["fields"].insert(0, f)
        uit.append(FieldDef(f, e, doc()))
    ufield(CLASS(INS), "First", Bang("cast", [s("ADD")], CLASS(INS), annot=CLASS(INS)))
    ufield(INT, "SubSize", FieldAccess(Bang("cast", [Paste([s("SU"), s("B")])], CLASS(MI), annot=CLASS(MI)), fld(MI, "Size"), "field@field-access-overridden:cast-base"))
    ufield(INT, "Align", FieldAccess(use(gpr, "field-access-base"), fld(RC, "Alignment"), "field@field-access:def-base"))
    ufield(INT, "VT0", FieldAccess(Bang("head", [FieldAccess(use(gpr, "field-access-base"), fld(RC, "RegTypes"), "field@field-access:def-base")], CLASS(VT)),
                                   fld(VT, "Size"), "field@field-access:bang-base"))
    ufield(LIST(CLASS(REG)), "Subs", FieldAccess(use(d0, "field-access-base"), fld(REG, "SubRegs"), "field@field-access:def-base"))
    ufield(LIST(LIST(INT)), "Table", ListLit([ListLit([n(1), n(2)], LIST(INT)), ListLit([n(3)], LIST(INT))], LIST(LIST(INT))))
    out.append(DefStmt(u, [], [], uit, doc()))
    out.append(AssertStmt(Bang("eq", [FieldAccess(use(gpr, "field-access-base"), fld(RC, "Alignment"), "field@field-access:def-base"), n(32)], BIT),
                          Bang("strconcat", [s("alignment of "), FieldAccess(use(gpr, "field-access-base"), fld(RC, "Namespace"), "field@field-access:def-base")], STRING), doc()))
    nr = Decl("defvar", "NumRegs", INT)
    nr.info["concrete"] = True
    G["NumRegs"] = nr
    out.append(DefvarStmt(nr, n(nreg), doc()))
    lr = Decl("defvar", "LastReg", INT)
    lr.info["concrete"] = True
    G["LastReg"] = lr
    out.append(DefvarStmt(lr, Bang("sub", [use(nr, "bang-arg"), n(1)], INT), doc()))
    hf = Decl("defvar", "HasFP", BIT)
    hf.info["concrete"] = True
    G["HasFP"] = hf
    out.append(DefvarStmt(hf, Bang("gt", [use(lr, "bang-arg"), n(1)], BIT), doc()))
    f0 = Decl("def", "F0")
    f0.info = dict(parents=[MR], fields=[], overridden=[], usable=False, pasted=False)
    nofp = Decl("def", "NoFP")
    nofp.info = dict(parents=[], fields=[], overridden=[], usable=False, pasted=False)
    out.append(IfStmt(use(hf, "if-cond"), [DefStmt(f0, [], [ref(MR, [n(9, BITS(4)), s("f0")], "def-parent")], None, doc())],
                      [DefStmt(nofp, [], [], None, doc())], True, g.p(0.5), doc()))
    g.meta["scenario"] = 1
    if g.o["includes"] and g.cur_path and g.p(0.5):
        path = g.cur_path[-1]
        tgt = path.rsplit("/", 1)[0] + "/MyTargetBase.td"
        if tgt not in g.tree:
            g.tree[tgt] = out[:split_at]
            inc = Include("MyTargetBase.td", tgt)
            inc.doc = Doc()
            out = [inc] + out[split_at:]
    return out
