#!/usr/bin/env python3
"""Audit generated programs against llvm-tblgen (where installed)."""
import os, shutil, subprocess, sys, tempfile
import progen

TBLGEN = shutil.which("llvm-tblgen") or shutil.which("llvm-tblgen-14")


def run_tblgen(files, root):
    d = tempfile.mkdtemp(prefix="tgaudit")
    try:
        dirs = set()
        for path, text in files.items():
            fp = d + path
            os.makedirs(os.path.dirname(fp), exist_ok=True)
            dirs.add(os.path.dirname(fp))
            with open(fp, "w") as f:
                f.write(text)
        cmd = [TBLGEN] + ["-I" + x for x in sorted(dirs)] + [d + root]
        try:
            r = subprocess.run(cmd, capture_output=True, text=True, timeout=10, errors="replace")
        except subprocess.TimeoutExpired:
            return -1, "error: llvm-tblgen timed out"
        return r.returncode, r.stderr.replace(d, "")
    finally:
        shutil.rmtree(d, ignore_errors=True)


if __name__ == "__main__":
    lo, hi = int(sys.argv[1]), int(sys.argv[2])
    size = int(sys.argv[3]) if len(sys.argv) > 3 else 8
    bad = n = 0
    for seed in range(lo, hi):
        p = progen.generate(seed, size, {"named_args": False, "oos": False})
        assert p.tblgen_ok
        n += 1
        rc, err = run_tblgen(p.files, p.root)
        if rc != 0:
            bad += 1
            errs = [l for l in err.split("\n") if "error:" in l]
            print("seed", seed, (errs or [err.strip()[:200]])[0][:220])
    print("audited", n, "rejected", bad)
