"""C18 outline and folding mirror the declaration structure.

Proof (Props/C18.lean): folding ranges are exactly the trivia-trimmed ranges of the class / def /
defset / foreach / if / let / multiclass nodes of the file's tree in document order
(folding_ranges_one_per_statement, folding_range_spec), pairwise nested or disjoint
(folding_ranges_nested_or_disjoint); document symbols are exactly the file's symbol list with kind,
name, declaring range and children (template arguments, fields; defs of a defset)
(document_symbols_exact).  Tie: Ide model vs implementation.  Oracle: expected outline and folding
ranges of generated programs, known by construction."""
import json

from .. import core, idecorr, semcheck

TRUSTED = ['Lean 4.33 kernel; axioms per theorem under coverage.theorems', 'hand-written model TgModel/Ide/*.lean of crates/ide (indexer, symbol map, scopes, 9 handlers), tied to the code by the `ws` correspondence streams of this run (answers and the symbol-map operation log)', "the generator's expectations follow the TableGen Programmer's Reference; where llvm-tblgen is installed a sample of the generated programs is audited against it and an unreported seeded fault only counts if llvm-tblgen rejects the mutated program"]
RULE = ("generated programs with declarations nested in foreach/if/let/defset/multiclass, optional parts present or absent, several files; document symbols and folding ranges of every file; a program is one case")
FINISH = dict(level="proof", trusted_base=TRUSTED, rule=RULE)


def run(ck):
    ck.proof = core.proof_stage("C18")
    if not ck.proof["ok"]:
        ck.broke("proof", {"theorem_file": "lean/TgModel/Props/C18.lean", "detail": ck.proof["detail"]})
    if not core.ensure_built(ck):
        return ck.finish(**FINISH)
    quick = ck.tier == "quick"
    stats, mism = idecorr.run_streams(["sem", "grammar"], 120 if quick else 1500, seed=ck.seed + 18, oplog=True)
    for s, st in stats.items():
        ck.count("model-" + s, st["cases"], set(range(st["agree"])), queries=st["queries"], model_disagreements=st["mismatch"])
    for m in mism[:3]:
        ck.broke("correspondence", {"stream": m["stream"], "files": m["case"]["files"], "root": m["case"]["root"],
                                    "diffs": json.loads(json.dumps(m["diffs"], default=str))[:2]})
    progs, cov, nfaults, nontriv, audited = semcheck.check_all(ck, "C18", 150 if quick else 2500, faults_per_program=0,
                                                               tblgen_sample=(25 if quick else 400))
    semcheck.scope_leak_probes(ck, "C18")
    ck.count("generated", len(progs) + nfaults, nontriv if not nfaults else set(range(len(nontriv) + nfaults)),
             sample={"files": progs[0].files}, seeded_faults=nfaults,
             coverage=semcheck.cov_summary(cov, ["decl:", "fold:", "class:", "stmt:"]), llvm_tblgen_audit=audited)
    return ck.finish(extra_cov={"traces_validated_against_impl": sum(st["cases"] for st in stats.values())}, **FINISH)


def replay(ck, path):
    with open(path) as f:
        rp = json.load(f)
    case = rp.get("case", {})
    core.build_harness()
    if "files" in case and case.get("root"):
        qs = [["diagnostics"]] + [[q, p] for p in sorted(case["files"]) for q in ("document_symbol", "folding_range")]
        print(core.impl(["ws " + json.dumps({"files": case["files"], "root": case["root"], "queries": qs})], timeout=120)[0][:3000])
        print("detail:", json.dumps(case.get("detail"))[:1500])
    else:
        print(json.dumps(rp)[:2000])
    return 1
