"""C18 outline and folding mirror the declaration structure.

Proof (Props/C18.lean): folding ranges are exactly the trivia-trimmed ranges of the class / def /
defset / foreach / if / let / multiclass nodes of the file's tree in document order
(folding_ranges_one_per_statement, folding_range_spec), pairwise nested or disjoint
(folding_ranges_nested_or_disjoint); document symbols are exactly the file's symbol list with kind,
name, declaring range and children (template arguments, fields; defs of a defset)
(document_symbols_exact).  Tie: Ide model vs implementation.  Oracle: expected outline and folding
ranges of generated programs, known by construction."""
import json
import re

from .. import core, idecorr, semcheck

TRUSTED = ['Lean 4.33 kernel; axioms per theorem under coverage.theorems', 'hand-written model TgModel/Ide/*.lean of crates/ide (indexer, symbol map, scopes, 9 handlers), tied to the code by the `ws` correspondence streams of this run (answers and the symbol-map operation log)', "the generator's expectations follow the TableGen Programmer's Reference; where llvm-tblgen is installed a sample of the generated programs is audited against it and an unreported seeded fault only counts if llvm-tblgen rejects the mutated program"]
RULE = ("generated programs with declarations nested in foreach/if/let/defset/multiclass, optional parts present or absent, several files; document symbols and folding ranges of every file; a program is one case")
FINISH = dict(level="proof", trusted_base=TRUSTED, rule=RULE)


def run(ck):
    ck.proof = core.proof_stage("C18")
    if not ck.proof["ok"]:
        ck.broke("proof", {"theorem_file": "lean/TgModel/Props/C18.lean", "detail": ck.proof["detail"]})
    if not core.ensure_built(ck):
        return ck.finish(**FINISH)
    quick = ck.tier == "quick"
    stats, mism = idecorr.run_streams(["sem", "grammar", "odd"], 120 if quick else 1500, seed=ck.seed + 18, oplog=True)
    for s, st in stats.items():
        ck.count("model-" + s, st["cases"], set(range(st["agree"])), queries=st["queries"], model_disagreements=st["mismatch"])
    for m in mism[:3]:
        ck.broke("correspondence", {"stream": m["stream"], "files": m["case"]["files"], "root": m["case"]["root"],
                                    "diffs": json.loads(json.dumps(m["diffs"], default=str))[:2]})
    progs, cov, nfaults, nontriv, audited = semcheck.check_all(ck, "C18", 150 if quick else 2500, faults_per_program=0,
                                                               tblgen_sample=(25 if quick else 400))
    semcheck.scope_leak_probes(ck, "C18")
    order_probes(ck)
    ck.count("generated", len(progs) + nfaults, nontriv if not nfaults else set(range(len(nontriv) + nfaults)),
             sample={"files": progs[0].files}, seeded_faults=nfaults,
             coverage=semcheck.cov_summary(cov, ["decl:", "fold:", "class:", "stmt:"]), llvm_tblgen_audit=audited)
    return ck.finish(extra_cov={"traces_validated_against_impl": sum(st["cases"] for st in stats.values())}, **FINISH)


def order_probes(ck):
    """'in source order': declarations nested in containers (defset / let / foreach / if / multiclass, up to three deep, with and
    without braces) and declared between them; the top-level entries of the outline, and the defs listed under a defset, must be
    ordered by the position of their declaring identifier (theorem document_symbols_source_order for the model)"""
    rng = ck.rng
    quick = ck.tier == "quick"
    texts = []
    n = [0]

    def fresh(p):
        n[0] += 1
        return "%s%d" % (p, n[0])

    def decl(depth):
        k = rng.choice(["class", "def", "multiclass", "defset", "defvar", "defm", "anon", "container", "container"]) if depth > 0 else \
            rng.choice(["class", "def", "multiclass", "defvar", "defm", "anon"])
        if k == "class":
            return "class %s%s%s" % (fresh("C"), rng.choice(["", "<int p>", "<int p, string q = \"s\">"]),
                                     rng.choice([";", " : Base;", " { int f = 1; }", " : Base { let f = 1; int g = 2; let f = 3; let h{3-0} = 1; let h{7-4} = 2; int k = f; }"]))
        if k == "def":
            return "def %s : Base%s" % (fresh("d"), rng.choice([";", " { int g = 2; }", " { let h{0} = 1; let f = 2; let h{1} = 0; int own = 1; let own = 2; let f = 4; }"]))
        if k == "anon":
            return "def : Base;"
        if k == "multiclass":
            return "multiclass %s%s { def _x : Base; %s }" % (fresh("M"), rng.choice(["", "<int n>"]), decl(0) if rng.random() < 0.3 else "")
        if k == "defvar":
            return "defvar %s = 1;" % fresh("v")
        if k == "defm":
            return "defm %s : MM;" % fresh("dm")
        if k == "defset":
            inner = " ".join(decl(depth - 1) for _ in range(rng.choice([0, 1, 2, 3])))
            return "defset list<Base> %s = { %s }" % (fresh("S"), inner)
        c = rng.choice(["let", "foreach", "if", "ifelse", "defset"])
        body = [decl(depth - 1) for _ in range(rng.choice([1, 1, 2, 3]))]
        braces = len(body) != 1 or rng.random() < 0.6
        b = ("{ " + " ".join(body) + " }") if braces else body[0]
        if c == "let":
            return "let f = 3 in " + b
        if c == "foreach":
            return "foreach i = [1, 2] in " + b
        if c == "if":
            return "if 1 then " + b
        if c == "ifelse":
            e = [decl(depth - 1) for _ in range(rng.choice([1, 2]))]
            eb = ("{ " + " ".join(e) + " }") if (len(e) != 1 or rng.random() < 0.5) else e[0]
            return "if 0 then " + b + " else " + eb
        return "defset list<Base> %s = { %s }" % (fresh("S"), " ".join(body))

    for _ in range(150 if quick else 5000):
        parts = ["class Base { int f = 0; bits<8> h; }", "multiclass MM { def _m : Base; }"] + [decl(3) for _ in range(rng.choice([2, 3, 5]))]
        texts.append("\n".join(parts) + "\n")
    outs = core.impl(["ws " + json.dumps({"files": {"/main.td": t}, "root": "/main.td", "queries": [["document_symbol", "/main.td"]]}) for t in texts], tag="ord18")
    nontriv = set()
    for t, o in zip(texts, outs):
        try:
            syms = json.loads(o)[0]
        except Exception:
            ck.fail(["C18", "order", "crash"], "outline query failed: %s" % o[:100], {"files": {"/main.td": t}, "root": "/main.td"}, o[:200], "an outline")
            continue
        if not isinstance(syms, list):
            continue
        nontriv.add(t)

        def sorted_ok(lst):
            starts = [x["range"][0] for x in lst]
            return starts == sorted(starts)
        bad = None
        if not sorted_ok(syms):
            bad = [(x["name"], x["range"][0]) for x in syms]
        else:
            # children: the defs of a defset, and the template arguments and fields (declared or overridden) of a record, each at the
            # position of its first declaring / overriding identifier
            todo = list(syms)
            while todo and not bad:
                x = todo.pop()
                if not sorted_ok(x["children"]):
                    bad = [(x["name"], x["range"][0])] + [(c["name"], c["range"][0]) for c in x["children"]]
                todo.extend(x["children"])
        # "exactly": every declaration is listed once - at the top level or under its defset, not both
        entries = [(x["range"][0], x["name"], None) for x in syms] + [(c["range"][0], c["name"], x["name"]) for x in syms if x["kind"] == "Defset" for c in x["children"]]
        pos_seen = {}
        for pos, name, parent in entries:
            if pos in pos_seen and not bad:
                # which blocks enclose the declaration (generated texts have no braces in strings)
                stack, last = [], None
                for m in re.finditer(r"\b(multiclass|defset|class|def|let|foreach|if|else)\b|[{}]", t[:pos]):
                    g = m.group(0)
                    if g == "{":
                        stack.append(last)
                    elif g == "}":
                        stack and stack.pop()
                    else:
                        last = g
                cause = "def-of-a-multiclass-inside-a-defset" if ("multiclass" in stack and "defset" in stack and stack.index("defset") < len(stack) - 1 - stack[::-1].index("multiclass")) else "other"
                ck.fail(["C18", "listed-twice", cause], "the declaration %r at offset %d is listed twice (under %s and under %s)" % (name, pos, pos_seen[pos] or "the top level", parent or "the top level"),
                        {"files": {"/main.td": t}, "root": "/main.td", "detail": {"probe": "order"}}, json.dumps([e for e in entries if e[0] == pos]), "one entry")
                break
            pos_seen[pos] = parent
        if bad:
            ck.fail(["C18", "order", core.sig_hash(t)], "outline entries are not in source order: %s" % bad[:8],
                    {"files": {"/main.td": t}, "root": "/main.td", "detail": {"probe": "order"}}, json.dumps(bad)[:300], "ascending positions")
    ck.count("order_probes", len(texts), nontriv, sample={"text": texts[0][:300]})
    # a def is named by its identifier whatever else that identifier means where it stands (an iteration variable, a defvar of an
    # enclosing block, a template argument of the enclosing multiclass, a field, a class): it is listed under that name
    named = [
        ("class A; foreach i = [1, 2] in def i : A; def tail : A;", [("A", None), ("i", None), ("tail", None)]),
        ("class A; defvar v = 1; def v : A; def w : A;", [("A", None), ("v", None), ("w", None)]),
        ("class A; defvar width = 8; defset list<A> Regs = { def lo : A; def width : A; } def after : A;", [("A", None), ("Regs", ["lo", "width"]), ("after", None)]),
        ("multiclass M<string suffix> { def body; def suffix; } def last;", [("M", None), ("body", None), ("suffix", None), ("last", None)]),
        ("class A; defvar v = 1; foreach i = [1] in { if 1 then { def v : A; def i : A; } } def z : A;", [("A", None), ("v", None), ("i", None), ("z", None)]),
        ("class A { int f = 0; } class f; def f : A; def A;", [("A", None), ("f", None), ("f", None), ("A", None)]),
        ("class A; defset list<A> S = { foreach S = [1] in def S : A; }", [("A", None), ("S", ["S"])]),
    ]
    nouts = core.impl(["ws " + json.dumps({"files": {"/main.td": t}, "root": "/main.td", "queries": [["document_symbol", "/main.td"]]}) for t, _ in named], tag="nam18")
    for (t, want), o in zip(named, nouts):
        try:
            syms = json.loads(o)[0] or []
        except Exception:
            continue
        got = [(x["name"], [c["name"] for c in x["children"]] if x["kind"] == "Defset" else None) for x in syms]
        if got != [(n, c) for n, c in want]:
            ck.fail(["C18", "outline", "def-named-like-something-in-scope"], "the outline of %r is %s" % (t[:80], got), {"files": {"/main.td": t}, "root": "/main.td", "detail": {"probe": "named-like"}},
                    json.dumps(got)[:300], json.dumps(want))
    ck.count("named_like_probes", len(named), {t for t, _ in named}, sample={"text": named[0][0]})
    # folds and preprocessor directives: a directive is trivia, so a fold ends at the statement's last token that is not one,
    # whatever conditional is opened inside the statement and closed behind it (expected: (first token, last token) by text)
    pp = [
        ("let x = 1 in\n#ifdef A\ndef X;\n#else\ndef Y;\n#endif\nclass C;", [("let x", "def Y;")]),
        ("#define A\nlet x = 1 in\n#ifdef A\ndef X;\n#else\ndef Y;\n#endif\nclass C;", [("let x", "def X;")]),
        ("foreach i = [1, 2] in {\n  let x = i in\n#ifndef A\n  def X#i; // last\n#endif // A\n}", [("foreach i", "\n}"), ("let x", "def X#i;")]),
        ("let x = 1 in {\n#ifndef A\n def X;\n}\n#endif\ndef Z;", [("let x", "def X;\n}")]),
        ("#ifndef A\nlet x = 1 in def X;\n#endif\ndef Z;", [("let x", "def X;")]),
        ("foreach i = [1] in\n#ifdef A\ndef X;\n#else\ndef Y;\n#endif\nclass C { int f;\n#ifdef A\nint g;\n#endif\n}\n#ifdef B\n#endif", [("foreach i", "def Y;"), ("class C", "\n}")]),
        ("if 1 then\n#ifndef A\n def X;\n#endif\nelse\n#ifdef A\n def Y;\n#else\n def Z;\n#endif\ndef W;", [("if 1", "def Z;")]),
    ]
    pouts = core.impl(["ws " + json.dumps({"files": {"/main.td": t}, "root": "/main.td", "queries": [["folding_range", "/main.td"]]}) for t, _ in pp], tag="pp18")
    for (t, want), o in zip(pp, pouts):
        try:
            got = sorted(tuple(x[:2]) for x in (json.loads(o)[0] or []))
        except Exception:
            continue
        b = t.encode()
        exp = sorted((b.index(a.encode()), b.index(z.encode()) + len(z.encode())) for a, z in want)
        # only the folds of the multi-token statements named above are compared (one-token defs fold too)
        missing = [e for e in exp if e not in got]
        if missing:
            ck.fail(["C18", "folding", "directive-behind-a-statement"], "folding ranges %s of %r lack %s: a fold ends at the statement's last token that is not trivia" % (got, t[:60], missing),
                    {"files": {"/main.td": t}, "root": "/main.td", "detail": {"probe": "directive-behind"}}, json.dumps(got)[:300], json.dumps(exp))
    ck.count("directive_fold_probes", len(pp), {t for t, _ in pp}, sample={"text": pp[0][0]})


def replay(ck, path):
    with open(path) as f:
        rp = json.load(f)
    case = rp.get("case", {})
    core.build_harness()
    if "files" in case and case.get("root"):
        qs = [["diagnostics"]] + [[q, p] for p in sorted(case["files"]) for q in ("document_symbol", "folding_range")]
        print(core.impl(["ws " + json.dumps({"files": case["files"], "root": case["root"], "queries": qs})], timeout=120)[0][:3000])
        print("detail:", json.dumps(case.get("detail"))[:1500])
    else:
        print(json.dumps(rp)[:2000])
    return 1
