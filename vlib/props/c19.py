"""C19 hover and inlay hints describe the declaration they point at.

Proof (Props/C19.lean): inlay hints returned for a range are exactly the hints of the file whose
position lies in the range (inlay_hints_inside_request, inlay_hints_complete), the k-th positional
argument gets the k-th parameter name at its first character and a field override its declared type
right after the name (positional_arg_hint, inlayHintRecordField_spec); hover and go-to-definition
answer for the same symbol (hover_goto_agree) and the doc text is exactly the declarative
`docLines` of the tokens before the declaration (doc_comments_spec).  Tie: Ide model vs
implementation.  Oracle: expected hovers and hints of generated programs."""
import json

from .. import core, idecorr, semcheck

TRUSTED = ['Lean 4.33 kernel; axioms per theorem under coverage.theorems', 'hand-written model TgModel/Ide/*.lean of crates/ide (indexer, symbol map, scopes, 9 handlers), tied to the code by the `ws` correspondence streams of this run (answers and the symbol-map operation log)', "the generator's expectations follow the TableGen Programmer's Reference; where llvm-tblgen is installed a sample of the generated programs is audited against it and an unreported seeded fault only counts if llvm-tblgen rejects the mutated program"]
RULE = ("generated programs with declared types, doc comments (0..n lines, blank-line separated, block comments, trailing comments) and class / multiclass references with 0..n positional and named arguments; hover at every identifier, inlay hints for the full range, ranges around every hint position and random ranges; a program is one case")
FINISH = dict(level="proof", trusted_base=TRUSTED, rule=RULE)


def run(ck):
    ck.proof = core.proof_stage("C19")
    if not ck.proof["ok"]:
        ck.broke("proof", {"theorem_file": "lean/TgModel/Props/C19.lean", "detail": ck.proof["detail"]})
    if not core.ensure_built(ck):
        return ck.finish(**FINISH)
    quick = ck.tier == "quick"
    stats, mism = idecorr.run_streams(["sem", "bang"], 120 if quick else 1500, seed=ck.seed + 19, oplog=True)
    for s, st in stats.items():
        ck.count("model-" + s, st["cases"], set(range(st["agree"])), queries=st["queries"], model_disagreements=st["mismatch"])
    for m in mism[:3]:
        ck.broke("correspondence", {"stream": m["stream"], "files": m["case"]["files"], "root": m["case"]["root"],
                                    "diffs": json.loads(json.dumps(m["diffs"], default=str))[:2]})
    progs, cov, nfaults, nontriv, audited = semcheck.check_all(ck, "C19", 150 if quick else 2500, faults_per_program=0,
                                                               tblgen_sample=(25 if quick else 400))
    doc_layout_probes(ck)
    range_let_probes(ck)
    override_doc_probes(ck)
    named_order_probes(ck)
    ck.count("generated", len(progs) + nfaults, nontriv if not nfaults else set(range(len(nontriv) + nfaults)),
             sample={"files": progs[0].files}, seeded_faults=nfaults,
             coverage=semcheck.cov_summary(cov, ["doc:", "hint:", "classref:", "decl:"]), llvm_tblgen_audit=audited)
    return ck.finish(extra_cov={"traces_validated_against_impl": sum(st["cases"] for st in stats.values())}, **FINISH)


def doc_layout_probes(ck):
    """Doc comments under every kind of line end and "blank" line: the expected text is computed line by line from the
    property text (the contiguous `//` lines directly above the declaration; a line that is empty or holds only blanks
    ends the block; so does a code line)."""
    rng = ck.rng
    decls = [("class D%d;", 6), ("def d%d;", 4), ("defvar v%d = 1;", 7), ("multiclass M%d { def x; }", 11), ("defset list<Base> S%d = { }", 18)]
    cases = []
    seps = ["", " ", "  ", "\t", " \t "]
    for eol in ("\n", "\r\n"):
        for blank in seps:
            for layout in range(6):
                for di, (decl, off) in enumerate(decls):
                    k = len(cases)
                    above = ["// header %d" % k]                    # separated block (must not be shown)
                    doc = ["// doc one", "//doc two", "///  three"][: 1 + layout % 3]
                    indent = ["", "  ", "\t"][layout % 3]
                    lines = ["class Base;"]
                    if layout < 3:
                        lines += above + [blank]                  # a blank line (possibly with blanks in it) separates
                    else:
                        lines += above + ["def sep%d;" % k]      # a code line separates
                    lines += [indent + d for d in doc]
                    lines.append(indent + decl % k)
                    text = eol.join(lines) + eol
                    pos = len((eol.join(lines[:-1]) + eol + indent).encode()) + off
                    want = "\n".join(d.lstrip("/").strip() if False else d[2:].lstrip("/").lstrip() for d in doc)
                    cases.append((text, pos, want))
    # fields inside a body (indented, comment block separated by a blank line with the indentation left behind)
    for eol in ("\n", "\r\n"):
        for blank in ("", "    ", "\t"):
            text = eol.join(["class Body {", "    // licence text", blank, "    // the field", "    int bar = 1;", "}"]) + eol
            pos = text.encode().index(b"bar")
            cases.append((text, pos, "the field"))
            text = eol.join(["class Body2 {", "    // not a doc", blank, "    int baz = 1;", "}"]) + eol
            cases.append((text, text.encode().index(b"baz"), None))
    res = core.impl(["ws " + json.dumps({"files": {"/main.td": t}, "root": "/main.td", "queries": [["hover", "/main.td", p]]}) for t, p, _ in cases], tag="doc19")
    mres = core.model(["ws " + json.dumps({"files": {"/main.td": t}, "root": "/main.td", "queries": [["hover", "/main.td", p]]}) for t, p, _ in cases], tag="docm19")
    ndis = 0
    for (t, p, want), r, mr in zip(cases, res, mres):
        if r != mr:
            ndis += 1
            if ndis <= 2:
                ck.broke("correspondence", {"stream": "doc-layouts", "text": t, "pos": p, "impl": r[:300], "model": mr[:300]})
        try:
            h = json.loads(r)[0]
        except Exception:
            continue
        got = None if h is None else h.get("document")
        norm = lambda x: None if x in (None, "") else "\n".join(l.strip() for l in x.split("\n"))
        if h is None or norm(got) != norm(want):
            eol = "crlf" if "\r\n" in t else "lf"
            ck.fail(["C19", "hover-doc", "layout-probe:%s" % eol], "hover shows doc %r, the contiguous comment lines directly above the declaration are %r" % (got, want),
                    {"files": {"/main.td": t}, "root": "/main.td", "detail": {"pos": p}}, json.dumps(h)[:300], json.dumps(want))
    st = ck.cov["streams"].setdefault("doc_layouts", {"evaluations": 0, "distinct_nontrivial": 0})
    st["model_disagreements"] = ndis
    ck.count("doc_layouts", len(cases), {t for t, _, _ in cases}, sample={"text": cases[7][0], "pos": cases[7][1], "want": cases[7][2]})


def range_let_probes(ck):
    """A field overridden for a bit range (`let f{3-0} = v;`) keeps its declared type: hover on every later use of the field and
    the inlay hint of every later `let` (in the same body, in a derived class, in a def) show the DECLARED type of the field."""
    rng = ck.rng
    cases = []
    for w, rl in [(8, "{3-0}"), (8, "{7}"), (16, "{15...8}"), (16, "{7, 3-0}"), (4, "{1 0}"), (32, "{0x3-0}"), (8, "{}"), (8, "{9-}")]:
        for form in range(4):
            ty = "bits<%d>" % w
            if form == 0:
                t = "class Base { %s Inst; }\nclass Mid : Base { let Inst%s = 1; %s Copy = Inst; }\ndef X : Mid { let Inst = 7; }\n" % (ty, rl, ty)
            elif form == 1:
                t = "class Base { %s Enc; }\nclass A : Base { let Enc%s = 1; }\nclass B : A { let Enc{0} = 0; %s again = Enc; }\ndef y : B { let Enc = 3; }\n" % (ty, rl, ty)
            elif form == 2:
                t = "class I<%s opc> { %s Inst; let Inst%s = opc{0}; %s lo = Inst; }\ndef i : I<1> { let Inst%s = 0; let Inst = 2; }\n" % (ty, ty, rl, ty, rl)
            else:
                t = "multiclass M { def _a { %s f = 0; let f%s = 1; %s g = f; } }\ndefm m : M;\ndef z { %s f = 1; let f%s = 0; let f = 2; %s h = f; }\n" % (ty, rl, ty, ty, rl, ty)
            cases.append((t, ty))
    lines = []
    meta = []
    import re as _re
    for t, ty in cases:
        names = sorted(set(_re.findall(r"let (\w+)", t)))
        uses = []
        for nm in names:
            for m in _re.finditer(r"= %s;" % nm, t):
                uses.append((nm, m.start() + 2))
        qs = [["inlay_hint", "/main.td", 0, len(t.encode())]] + [["hover", "/main.td", p] for _, p in uses]
        lines.append("ws " + json.dumps({"files": {"/main.td": t}, "root": "/main.td", "queries": qs}))
        meta.append((t, ty, uses))
    res = core.impl(lines, tag="rl19")
    mres = core.model(lines, tag="rlm19")
    ndis = 0
    for (t, ty, uses), r, mr in zip(meta, res, mres):
        if r != mr:
            ndis += 1
            if ndis <= 2:
                ck.broke("correspondence", {"stream": "range-let", "text": t, "impl": r[:300], "model": mr[:300]})
        try:
            ans = json.loads(r)
        except Exception:
            continue
        case = {"files": {"/main.td": t}, "root": "/main.td", "detail": {"probe": "range-let"}}
        hints = [h for h in (ans[0] or []) if h[2] == "FieldLet"]
        badh = [h for h in hints if h[1] != ":" + ty]
        if badh:
            ck.fail(["C19", "hint", "range-let"], "the inlay hint of a `let` shows %s; the declared type of the field is %s" % (badh[0][1], ty), case, json.dumps(hints)[:300], ":" + ty)
        for (nm, p), h in zip(uses, ans[1:]):
            sig = (h or {}).get("signature") or ""
            if not sig.startswith(ty + " "):
                ck.fail(["C19", "hover-signature", "range-let"], "hover on a use of %r shows %r; the declared type of the field is %s" % (nm, sig, ty), case, json.dumps(h)[:300], ty + " …::" + nm)
    st = ck.cov["streams"].setdefault("range_let", {"evaluations": 0, "distinct_nontrivial": 0})
    st["model_disagreements"] = ndis
    ck.count("range_let", len(cases), {t for t, _ in cases}, sample={"text": cases[0][0]})


def override_doc_probes(ck):
    """the documentation shown is the comment directly above the declaration go-to-definition lands on - also when that declaration is
    the entry a `let` made for an inherited field, which has a comment of its own or none (never the overridden field's)"""
    a = "class A {\n  // width of the thing\n  int x = 0;\n}\n"
    probes = [
        (a + "class B : A {\n  let x = 1;\n}\ndef d : B {\n  let x = 2;\n}\n", "x = 2", None),
        (a + "class B : A {\n  let x = 1;\n  int y = x;\n}\n", "x;", None),
        (a + "class B : A {\n  int y = x;\n  let x = 1;\n}\n", "x;", "width of the thing"),
        (a + "class B : A {\n  // narrower here\n  let x = 1;\n  int y = x;\n}\n", "x;", "narrower here"),
        (a + "class B : A {\n  // detached\n\n  let x = 1;\n}\ndef d : B;\ndef e {\n  int z = d.x;\n}\n", "x;\n}\n", None),
        (a + "class B : A {\n  let x = 1;\n}\nclass C : B {\n  let x = 2;\n}\ndef d : C {\n  int w = x;\n}\n", "x;\n}\n", None),
        (a + "def d : A {\n  int w = x;\n}\n", "x;\n}\n", "width of the thing"),
        # what stands directly above the declaration is a directive or a region the preprocessor switched off, not the comment above that
        ("class Base;\n// only built with LEGACY\n#ifdef LEGACY\nclass Enc : Base;\n#endif\nclass Enc2 : Base;\ndef u : Enc2;\n", "Enc2;", None),
        ("class Base;\n#define HAS\n// everything about Foo\n#ifdef HAS\nclass Foo;\n#endif\ndef u : Foo;\n", "Foo;", None),
        ("class Base;\n// about nothing\n#ifndef NOPE\nclass Foo;\n#endif\ndef u : Foo;\n", "Foo;", None),
        ("class Base;\n// about the else branch\n#ifdef NOPE\nclass Old;\n#else\nclass Foo;\n#endif\ndef u : Foo;\n", "Foo;", None),
        ("class Base;\n// about nothing\n#define X\nclass Foo;\ndef u : Foo;\n", "Foo;", None),
        ("class Base;\n#ifdef NOPE\n// inside the disabled region\n#endif\nclass Foo;\ndef u : Foo;\n", "Foo;", None),
        ("class Base;\n#ifndef NOPE\n// directly above, inside the enabled region\nclass Foo;\n#endif\ndef u : Foo;\n", "Foo;", "directly above, inside the enabled region"),
        ("class Base {\n  // width of the old layout\n#ifdef OLD\n  int width = 8;\n#endif\n  int height = 4;\n}\ndef d : Base {\n  let height = 5;\n}\n", "height = 5", None),
        ("class Base;\n/* a block comment */\nclass Foo;\ndef u : Foo;\n", "Foo;", None),
    ]
    lines = []
    for text, marker, _ in probes:
        off = text.rindex(marker)
        lines.append("ws " + json.dumps({"files": {"/main.td": text}, "root": "/main.td", "queries": [["hover", "/main.td", off], ["goto", "/main.td", off]]}))
    outs = core.impl(lines, tag="ovd19")
    for (text, marker, want), o in zip(probes, outs):
        try:
            ans = json.loads(o)
        except Exception:
            continue
        got = (ans[0] or {}).get("document")
        if (got or None) != want:
            ck.fail(["C19", "doc", "let-override-entry"], "hover at %r shows the documentation %r; the comment directly above the declaration it resolves to is %r" % (marker, got, want),
                    {"files": {"/main.td": text}, "root": "/main.td", "detail": {"probe": "override-doc", "goto": ans[1]}}, json.dumps(got), json.dumps(want))
    ck.count("override_doc_probes", len(probes), {t for t, _, _ in probes}, sample={"text": probes[0][0]})


def named_order_probes(ck):
    """hints label the positional arguments in front of the first named one (those bind by position); nothing behind a named
    argument gets a positional label, whatever order the arguments are written in"""
    probes = [
        ("class A<int a, int b>; def X : A<a=7, 8>;", []),
        ("multiclass M<int m, int n> { def _x; } defm D : M<n=7, 8>;", []),
        ("class A<int a, int b, int c>; def X { list<A> l = [A<1, c=3, 2>]; }", [("1, c", "a:")]),
        ("class A<int a, int b>; def X : A<7, b=8>;", [("7, b", "a:")]),
        ("class A<int a, int b, int c>; def X : A<1, 2, c=3>; def Y : A<c=3>;", [("1, 2", "a:"), ("2, c", "b:")]),
    ]
    outs = core.impl(["ws " + json.dumps({"files": {"/main.td": t}, "root": "/main.td", "queries": [["inlay_hint", "/main.td", 0, len(t.encode())]]}) for t, _ in probes], tag="nmo19")
    for (t, want), o in zip(probes, outs):
        try:
            got = sorted((h[0], h[1]) for h in (json.loads(o)[0] or []))
        except Exception:
            continue
        exp = sorted((t.index(m), lab) for m, lab in want)
        if got != exp:
            ck.fail(["C19", "hint", "positional-behind-named"], "the hints of %r are %s" % (t[:70], got), {"files": {"/main.td": t}, "root": "/main.td", "detail": {"probe": "named-order"}},
                    json.dumps(got), json.dumps(exp))
    ck.count("named_order_probes", len(probes), {t for t, _ in probes}, sample={"text": probes[0][0]})


def replay(ck, path):
    with open(path) as f:
        rp = json.load(f)
    case = rp.get("case", {})
    core.build_harness()
    if "files" in case and case.get("root"):
        qs = [["diagnostics"]] + [[q, p] for p in sorted(case["files"]) for q in ("document_symbol", "folding_range")]
        print(core.impl(["ws " + json.dumps({"files": case["files"], "root": case["root"], "queries": qs})], timeout=120)[0][:3000])
        print("detail:", json.dumps(case.get("detail"))[:1500])
    else:
        print(json.dumps(rp)[:2000])
    return 1
