"""C20 completion vocabulary closed under lexer/parser: proof by `decide` over regenerated tables
(Props/C20.lean) + run-time cross-validation of the translator + oracle on the implementation."""
import json
import re

from .. import core, gen
from ..core import hexs

TRUSTED = [
    "Lean 4.33 kernel (decide +kernel over regenerated finite tables); axioms per theorem under coverage.theorems",
    "translator/extract.py for completion.rs / lexer.rs / token_kind.rs / statement.rs / type.rs tables, cross-validated on every run against Analysis::completion and the real lexer",
    "lexer model Lex.lean (tied by correspondence, C01/C14 streams and the word streams here)",
]
RULE = ("every word of every completion vocabulary (regenerated tables and the run-time answer of Analysis::completion), "
        "every key of the lexer's keyword and bang-operator tables, single-character mutations of those keys, and generated "
        "class hierarchies for class completion; a case is one distinct word or one distinct program")
FINISH = dict(level="proof", trusted_base=TRUSTED, rule=RULE)
STMT_NT = {"assert": "Assert", "class": "Class", "def": "Def", "dump": "Dump", "foreach": "Foreach", "defm": "Defm",
           "defset": "Defset", "defvar": "Defvar", "if": "If", "include": "Include", "let": "Let", "multiclass": "MultiClass"}


def ws(files, root, queries):
    return "ws " + json.dumps({"files": files, "root": root, "queries": queries})


def first_tok(lexout):
    parts = lexout.split(" ")
    return parts[0].split(":")[0], len(parts)


def run(ck):
    ck.proof = core.proof_stage("C20")
    if not ck.proof["ok"]:
        ck.broke("proof", {"theorem_file": "lean/TgModel/Props/C20.lean", "detail": ck.proof["detail"]})
    if not core.ensure_built(ck):
        return ck.finish(**FINISH)
    t = core.tables()
    rng = ck.rng
    # ---- (T) cross-validation: run-time completion answers vs extracted tables
    out = core.impl([ws({"/a.td": "c"}, "/a.td", [["completion", "/a.td", 1, None], ["completion", "/a.td", 1, "!"]]),
                     ws({"/a.td": "class Foo<i"}, "/a.td", [["completion", "/a.td", 11, None]]),
                     ws({"/a.td": "class Foo<int a = t"}, "/a.td", [["completion", "/a.td", 19, None]])])
    rt = [json.loads(o) for o in out]
    rt_top = [x[0] for x in rt[0][0]]
    both = [x[0] for x in rt[0][1]]
    rt_bang = both[:len(both) - len(rt_top)] if both[len(both) - len(rt_top):] == rt_top else both
    rt_types = [x[0] for x in rt[1][0]]
    rt_vals = [x[0] for x in rt[2][0]]
    xv = {"toplevel": (rt_top, t["compl_toplevel"]), "bang": (rt_bang, t["compl_bang"]),
          "types": (sorted(rt_types), sorted(t["compl_types"] + t["compl_snippet_types"])), "values": (rt_vals, t["compl_values"])}
    for name, (a, b) in xv.items():
        if a != b:
            ck.broke("translator-crosscheck", {"table": name, "runtime": a, "extracted": b})
    # ---- correspondence: every vocabulary word + lexer table keys through both lexers
    kw_keys = [k for k, _ in t["keywords"]]
    bang_keys = [k for k, _ in t["bang_table"]]
    words = sorted(set(rt_top + rt_types + rt_vals + kw_keys + ["!" + w for w in rt_bang + bang_keys]))
    muts = set()
    for w in bang_keys + rt_bang:
        for i in range(len(w)):
            muts.add("!" + w[:i] + w[i + 1:])
            muts.add("!" + w[:i] + rng.choice("abcdefghijklmnopqrstuvwxyz2") + w[i + 1:])
        muts.add("!" + w + "x")
        muts.add("!" + w.upper())
    words_all = words + sorted(muts - set(words))
    a, b = core.compare(ck, "words", words_all, lambda w: "lex %s" % hexs(w))
    lexed = dict(zip(words_all, a))
    stmt_kinds = {k for k, _ in t["statement_arms"]}
    type_kinds = {k for k, _ in t["type_arms"]}
    bangops = set(t["bang_ops"]) | set(t["cond_ops"])
    # ---- oracle on the implementation
    for w in rt_top:
        k, n = first_tok(lexed[w])
        if n != 2 or k in ("Id", "Error") or k not in stmt_kinds:
            ck.fail(["C20", "keyword", w], "offered keyword %r lexes as %s" % (w, lexed[w]), {"word": w}, lexed[w], "a statement keyword token")
    for w in rt_types:
        k, n = first_tok(lexed[w])
        if n != 2 or k in ("Id", "Error") or k not in type_kinds:
            ck.fail(["C20", "type", w], "offered type %r lexes as %s" % (w, lexed[w]), {"word": w}, lexed[w], "a type keyword token")
    for w in rt_vals:
        k, n = first_tok(lexed[w])
        if n != 2 or k not in ("TrueVal", "FalseVal"):
            ck.fail(["C20", "value", w], "offered value %r lexes as %s" % (w, lexed[w]), {"word": w}, lexed[w], "TrueVal/FalseVal")
    for w in rt_bang:
        k, n = first_tok(lexed["!" + w])
        if n != 2 or k not in bangops:
            ck.fail(["C20", "offered-rejected", w], "bang operator %r is offered but lexes as %s" % (w, lexed["!" + w]),
                    {"word": "!" + w}, lexed["!" + w], "one bang-operator token")
    accepted = [w[1:] for w in words_all if w.startswith("!") and first_tok(lexed[w])[0] in bangops and first_tok(lexed[w])[1] == 2]
    for w in sorted(set(accepted)):
        if w not in rt_bang:
            ck.fail(["C20", "accepted-not-offered", w], "bang operator %r is accepted by the lexer but not offered after '!'" % w,
                    {"word": "!" + w}, "not offered", "offered")
    ck.count("words", len(words_all), set(words_all), sample={"word": "!add", "impl": lexed.get("!add")},
             vocab_sizes={k: len(v[0]) for k, v in xv.items()}, exhaustive=True)
    # ---- the same words in context: the token a word becomes must not depend on what was lexed before it (the lexer
    # model is a function of the remaining text; a lexer with hidden state would show here and as a model disagreement)
    CONTEXTS = ["class A;\n", "#define FOO\n", "#define 0\n", "#define 4abc\n", "#ifdef \"s\"\n\n// c\n", "#ifndef ;\n", "#ifdef\n", "#else\n", "#endif\n",
                "// c\n", "/* c */", "\"s\" ", "1 ", "0x1F ", "[{ c }] ", "!add ", "$x ", "a.", "x #", "... ", "- ", "\"unterminated\n", "/* /* */ */ "]
    ctx_words = sorted(set(rt_top + rt_types + rt_vals + ["!" + w for w in rt_bang]))
    ctx_texts = [(c, w, c + w + " ;") for c in CONTEXTS for w in ctx_words]
    ca, cb = core.compare(ck, "words_in_context", [x[2] for x in ctx_texts], lambda w: "lex %s" % hexs(w))
    for (c, w, text), r in zip(ctx_texts, ca):
        alone = first_tok(lexed[w])[0]
        toks = [x for x in r.split(" ") if x and x.split(":")[0] not in ("Whitespace", "LineComment", "BlockComment", "Eof")]
        # the word is the token before the final `;`
        kinds = [x.split(":")[0] for x in toks]
        got = kinds[-2] if len(kinds) >= 2 and kinds[-1] == "Semi" else None
        if alone not in ("Id", "Error") and got != alone:
            ck.fail(["C20", "context", w], "offered word %r is lexed as %s after %r (as %s on its own)" % (w, got, c, alone),
                    {"text": text}, r[-160:], alone)
    ck.count("words_in_context", len(ctx_texts), {x[2] for x in ctx_texts}, sample={"text": ctx_texts[len(ctx_texts) // 2][2]}, contexts=len(CONTEXTS))
    # ---- every offered statement keyword starts a statement the parser accepts
    sents = []
    for w in rt_top:
        nt = STMT_NT.get(w)
        for _ in range(10 if ck.tier == "quick" else 500):
            toks = gen.sentence(rng, nt or "Statement", budget=5)
            sents.append((w, gen.render(rng, toks, "spaced")))
    pa, pb = core.compare(ck, "statements", [s for _, s in sents], lambda s: "parse %s" % hexs(s))
    okw = {}
    for (w, s), r in zip(sents, pa):
        m = re.match(r"tree=\(SourceFile \(StatementList \((\w+) ", r)
        clean = r.endswith("errs=")
        okw.setdefault(w, []).append(clean and m is not None and s.startswith(w))
    for w, oks in okw.items():
        if not any(oks):
            ck.fail(["C20", "statement", w], "no generated %r statement parses without errors" % w, {"word": w}, "errors", "clean parse")
    ck.count("statements", len(sents), {s for _, s in sents}, sample={"sentence": sents[0][1][:100]})
    # ---- the same at every statement position of the file level: inside let / foreach / if / defset bodies (braced or a single
    # statement); what completion offers THERE must start a statement the parser accepts THERE
    SAMPLE = {"assert": 'assert 1, "m";', "class": "class K9;", "def": "def d9;", "defm": "defm dm9 : M0;", "defset": "defset list<A0> S9 = { }", "defvar": "defvar v9 = 1;",
              "dump": 'dump "x";', "foreach": "foreach j9 = [1] in def f9;", "if": "if 1 then def i9;", "include": 'include "inc9.td"', "let": "let q9 = 1 in def l9;",
              "multiclass": "multiclass MC9 { def x; }"}
    PRE = "class A0;\nmulticlass M0 { def y; }\n"
    POS = [("top", PRE + "@"), ("let-block", PRE + "let f = 1 in {\n@\n}\n"), ("let-single", PRE + "let f = 1 in\n@\n"), ("foreach-block", PRE + "foreach i = [0, 1] in {\n@\n}\n"),
           ("foreach-single", PRE + "foreach i = [0, 1] in\n@\n"), ("if-then", PRE + "if 1 then {\n@\n}\n"), ("if-else", PRE + "if 1 then def t; else {\n@\n}\n"),
           ("defset", PRE + "defset list<A0> S = {\n@\n}\n"), ("foreach-in-let", PRE + "let f = 1 in { foreach i = [0] in {\n@\n} }\n"),
           ("after-statement", PRE + "def before;\n@\ndef after;\n")]
    # positions right behind a statement that may or may not be continued (an `if` in every shape of its else branch, blocks of the
    # other containers): a keyword that continues the statement before it is an offer like any other and must be accepted THERE
    POS += [("after-if-without-else", PRE + "if 1 then { def t; }\n@\n"), ("after-if-with-else", PRE + "if 1 then { def t; } else { def u; }\n@\n"),
            ("after-else-if", PRE + "if 1 then { def t; } else if 0 then { def u; }\n@\n"), ("after-else-if-else", PRE + "if 1 then { def t; } else if 0 then { def u; } else { def w; }\n@\n"),
            ("after-else-block-ending-in-if", PRE + "if 1 then { def t; } else { if 0 then { def u; } }\n@\n"),
            ("after-else-block-ending-in-single-if", PRE + "if 1 then { def t; } else {\n  def b;\n  if 0 then def c;\n}\n@\ndef D;\n"),
            ("after-then-block-ending-in-if", PRE + "if 1 then { if 0 then { def u; } }\n@\n"),
            ("after-single-then-single-else", PRE + "if 1 then def t; else def u;\n@\n"), ("after-dangling-else", PRE + "if 1 then if 0 then def x; else def y;\n@\n"),
            ("after-nested-if-in-foreach", PRE + "foreach i = [1] in { if i then { def t; } else { if 0 then { def u; } } @ }\n"),
            ("after-if-in-let", PRE + "let f = 1 in { if 1 then { def t; } @ }\n"),
            ("after-foreach-block", PRE + "foreach i = [1] in { def t; }\n@\n"), ("after-let-block", PRE + "let f = 1 in { def t; }\n@\n"),
            ("after-defset", PRE + "defset list<A0> S = { }\n@\n"), ("after-multiclass", PRE + "multiclass M1 { def z; }\n@\n"), ("after-class-body", PRE + "class K1 { }\n@\n"),
            ("after-foreach-with-if", PRE + "foreach i = [1] in if i then def t;\n@\n")]
    SAMPLE["else"] = "else { def e9; }"
    plines = []
    for name, tpl in POS:
        text = tpl.replace("@", "e" if name.startswith("after-") and name != "after-statement" else "de")
        plines.append(ws({"/main.td": text}, "/main.td", [["completion", "/main.td", len(tpl[: tpl.index("@")].encode()) + 1, None]]))
    pouts = core.impl(plines, tag="kwpos")
    ptexts = []
    for (name, tpl), o in zip(POS, pouts):
        try:
            items = json.loads(o)[0] or []
        except Exception:
            items = []
        for it in items:
            w_ = it[0]
            if it[2] == "Keyword":
                # (a keyword that is not a statement keyword has no sample: offered at a statement position it is followed by a plain
                # statement, which the parser accepts only if the keyword alone was acceptable there)
                ptexts.append((name, w_, tpl.replace("@", SAMPLE.get(w_, w_ + " def k9;"))))
    ppa, ppb = core.compare(ck, "statements_in_position", [x[2] for x in ptexts], lambda s_: "parse %s" % hexs(s_))
    for (name, w_, text), r in zip(ptexts, ppa):
        if not r.endswith("errs="):
            ck.fail(["C20", "statement-in-position", "%s@%s" % (w_, name)], "completion offers the statement keyword %r at the position %s, but the parser rejects a %s statement there" % (w_, name, w_),
                    {"text": text}, r[-200:], "zero errors")
    ck.count("statements_in_position", len(ptexts), {x[2] for x in ptexts}, sample={"text": ptexts[0][2][:160]} if ptexts else None, positions=len(POS))
    # ---- class completion: exactly the classes of the workspace, one placeholder per parameter
    progs = []
    for _ in range(120 if ck.tier == "quick" else 10000):
        ncls = rng.randrange(1, 6)
        classes = {}
        main, inc = [], []
        to_inc = []
        for i in range(ncls):
            # names repeat on purpose: a forward declaration followed by the definition, or a re-declaration with another
            # parameter list (the later declaration is the class of the workspace)
            nm = rng.choice(["A", "B", "Foo", "Bar", "C1", "D"]) + rng.choice(["", "", str(i)])
            k = rng.randrange(0, 4)
            # parameter declarations with every kind of default value: literals, earlier parameters, bit ranges of them, operators,
            # records (also ones a defm creates), the parameter itself, an unknown name - each is one template parameter
            shapes = ["int p%d", "string p%d = \"s\"", "list<int> p%d", "bits<4> p%d = 0", "int p%d = !add(1, 2)", "list<int> p%d = [1, 2]",
                      "int p%d = ?", "string p%d = \"a\" # \"b\"", "Base0 p%d = d0", "Base0 p%d = dm_x", "int p%d = nosuchname", "bit p%d = !eq(1, 2)",
                      "dag p%d = (d0 1)", "code p%d = [{ c }]", "bits<4> p%d = {1, 0, 1, 0}", "Base0 p%d = !cast<Base0>(\"d0\")"]
            plist = []
            for j in range(k):
                sh = rng.choice(shapes) % j
                r = rng.random()
                if r < 0.12:
                    sh = "int p%d = p%d" % (j, j)
                elif r < 0.3 and j > 0:
                    sh = rng.choice(["bits<3> p%d = p%d{2...0}", "int p%d = p%d", "bit p%d = p%d{0}", "list<int> p%d = [p%d]", "int p%d = !add(p%d, 1)"]) % (j, j - 1)
                plist.append(sh)
            params = ", ".join(plist)
            decl = "class %s%s%s" % (nm, ("<" + params + ">") if k else "", rng.choice([";", " { int f = 1; }", " : Base0;"]))
            to_inc.append((rng.random() < 0.3, nm, k, decl))
        # the include is the first statement of main.td, so the declarations of inc.td come first
        for is_inc, nm, k, decl in [x for x in to_inc if x[0]] + [x for x in to_inc if not x[0]]:
            classes[nm] = k
            (inc if is_inc else main).append(decl)
        kind = rng.choice(["class", "class2", "def", "defm", "multiclass", "defbody"])
        head = ('include "inc.td"\n' if inc else "") + "class Base0;\nmulticlass M { def _x : Base0; }\ndef d0 : Base0;\ndefm dm : M;\n" + "\n".join(main) + "\n"
        classes["Base0"] = 0
        opener = {"class": "class Z : ", "class2": "class Z<int q> : Base0, ", "def": "def d1 : ", "defm": "defm dm : ",
                  "multiclass": "multiclass MM : ", "defbody": "class Z { int f; }\ndef d2 : Base0, "}[kind]
        text = head + opener
        pos = len(text.encode())
        # (the reference under the cursor may already have its argument list: the items are the same)
        text += "A" + rng.choice(["", "", "<1>", "<1, \"x\">", "<>", "<p = 1>"]) + rng.choice(["", ", Base0"]) + (" { }" if kind == "multiclass" else ";")
        files = {"/main.td": text}
        if inc:
            # (parameter types must resolve where they are written: a parameter whose type names an unknown class is a fault, and
            # whether it still counts as a parameter is not for this check to decide)
            files["/inc.td"] = "class Base0;\n" + "\n".join(inc)
        if kind in ("class", "class2", "defbody"):
            classes["Z"] = 1 if kind == "class2" else 0
        progs.append((files, pos + 1, classes))
    outs = core.impl([ws(f, "/main.td", [["completion", "/main.td", p, None]]) for f, p, _ in progs], tag="cls")
    for (files, p, classes), o in zip(progs, outs):
        try:
            items = json.loads(o)[0]
        except Exception:
            ck.fail(["C20", "class-completion", "crash"], "class completion query failed: %s" % o[:100], {"files": files, "pos": p}, o[:200], "items")
            continue
        got = sorted((it[0], len(re.findall(r"\$\{\d+\}", it[1] or ""))) for it in items or [] if it[2] == "Class")
        if got != sorted(classes.items()):
            ck.fail(["C20", "class-completion", core.sig_hash(sorted(classes.items()))],
                    "class completions differ from the classes of the workspace", {"files": files, "pos": p}, got, sorted(classes.items()))
    # the same queries on the indexer/handler model (tie of Props/C20Classes.lean: class_completions_exact, class_item_snippet):
    # the class items as a multiset (the real map is iterated in hash order)
    mouts = core.model([ws(f, "/main.td", [["completion", "/main.td", p, None]]) for f, p, _ in progs], tag="clsm")
    ndiff = 0
    for (files, p, _), o, m in zip(progs, outs, mouts):
        def canon(x):
            try:
                its = json.loads(x)[0]
                return sorted(json.dumps(it) for it in its) if isinstance(its, list) else its
            except Exception:
                return x[:200]
        if canon(o) != canon(m):
            ndiff += 1
            if ndiff <= 3:
                ck.broke("correspondence", {"stream": "class_completion", "case": {"files": files, "pos": p}, "impl": o[:600], "model": m[:600]})
    ck.cov["streams"].setdefault("class_completion", {"evaluations": 0, "distinct_nontrivial": 0})["model_disagreements"] = ndiff
    ck.count("class_completion", len(progs), {json.dumps(f, sort_keys=True) for f, _, _ in progs},
             sample={"files": progs[0][0], "pos": progs[0][1], "impl": outs[0][:200]})
    return ck.finish(**FINISH)


def replay(ck, path):
    with open(path) as f:
        rp = json.load(f)
    case = rp.get("case", {})
    core.build_harness()
    if "word" in case:
        o = core.impl(["lex %s" % hexs(case["word"])])
        print("impl lex %r: %s" % (case["word"], o[0]))
        return 1
    if "files" in case:
        o = core.impl([ws(case["files"], "/main.td", [["completion", "/main.td", case["pos"], None]])])
        print(o[0][:1000])
        return 1
    print(json.dumps(rp)[:800])
    return 1
