"""C16 include graphs: proof (Props/C16.lean over Include.lean) + exhaustive-small correspondence
(real AnalysisHost vs model) + oracle (termination, reachability, links, not-found, indexed once)."""
import itertools
import json
import re

from .. import core

TRUSTED = [
    "Lean 4.33 kernel; axioms per theorem under coverage.theorems",
    "hand-written model Include.lean (collect = collect_sources, indexFile = Include::index descent), tied to ide/src/file_system.rs + index.rs by exhaustive-small differential correspondence",
    "include resolution (file's directory first, then INCLUDE_DIR) is computed by the generator and checked against the implementation, it is abstracted in the model (some t / none)",
    "salsa: parse/resolved_include_map are functions of the inputs",
]
RULE = ("every edge set over <= 3 files (quick) / <= 4 files (thorough) including self-loops, each file having 0..2 include "
        "statements chosen among all files and a missing target, plus search-path variants and random graphs over 5-7 files; "
        "a graph is non-trivial if it has at least one resolvable include; all graphs are distinct")
FINISH = dict(level="proof", trusted_base=TRUSTED, rule=RULE)


def graphs(ck):
    quick = ck.tier == "quick"
    out = []
    for n in ([1, 2, 3] if quick else [1, 2, 3, 4]):
        targets = list(range(n)) + [None]
        per_file = [()]
        per_file += [(a,) for a in targets]
        per_file += [(a, b) for a in targets for b in targets]
        if n == 4:
            per_file = [()] + [(a,) for a in targets] + [(a, b) for a in range(4) for b in range(4) if a < b]
        for combo in itertools.product(per_file, repeat=n):
            out.append((n, [list(c) for c in combo]))
    rng = ck.rng
    for _ in range(200 if quick else 40000):
        n = rng.choice([5, 6, 7])
        g = []
        for f in range(n):
            k = rng.choice([0, 1, 1, 2, 3])
            g.append([rng.choice(list(range(n)) + [None]) for _ in range(k)])
        out.append((n, g))
    return out


WRAP = ["%s", "let v = 1 in { %s }", "foreach i = [1] in { %s }", "if 1 then { %s }", "defset list<int> s%d = { %s }", "if 0 then { def q%d; } else { %s }",
        "let v = 1 in { foreach j = [1, 2] in { %s } }",
        # blocks INSIDE a multiclass body: their statement lists are ordinary ones (an include directly in a multiclass body is a
        # syntax error, one inside a foreach / let / if of that body is not)
        "multiclass W%d<int p> { foreach k = [1] in { %s } }", "multiclass X%d { let v = 1 in { %s } def _a; }",
        "multiclass Y%d { if 1 then { def _t; } else { %s } }", "multiclass Z%d { foreach k = [1, 2] in { if 1 then { %s } } }"]


def files_for(n, g, variant, style=0):
    """file i is /w/f<i>.td; variant 1 puts odd files into the INCLUDE_DIR /inc and adds decoys; style > 0 puts include
    statements into let / foreach / if / defset blocks (each still on a line of its own) and adds declarations of every kind"""
    files, paths = {}, {}
    for i in range(n):
        paths[i] = "/inc/f%d.td" % i if (variant == 1 and i % 2 == 1) else "/w/f%d.td" % i
    for i in range(n):
        lines = []
        for j, t in enumerate(g[i]):
            inc = 'include "%s"' % ("missing.td" if t is None else "f%d.td" % t)
            w = WRAP[(style * (i + 1) + j) % len(WRAP)] if style else "%s"
            lines.append(w % ((i * 10 + j, inc) if w.count("%") == 2 else inc))
        lines.append("class C%d;" % i)
        if style:
            lines.append("def d%d : C%d { int f%d = %d; }" % (i, i, i, i))
            lines.append("multiclass M%d<int p> { def _x : C%d; }" % (i, i))
            lines.append("defm dm%d : M%d<%d>;" % (i, i, i))
            lines.append("defvar v%d = d%d.f%d;" % (i, i, i))
        files[paths[i]] = "\n".join(lines) + "\n"
    return files, paths


def expected_resolution(n, g, paths, variant):
    """which file each include resolves to under: including file's directory first, then INCLUDE_DIR"""
    res = []
    for i in range(n):
        d = paths[i].rsplit("/", 1)[0]
        row = []
        for t in g[i]:
            if t is None:
                row.append(None)
                continue
            cand = [d + "/f%d.td" % t] + (["/inc/f%d.td" % t] if variant == 1 else [])
            hit = None
            for c in cand:
                if c in paths.values():
                    hit = [k for k, v in paths.items() if v == c][0]
                    break
            row.append(hit)
        res.append(row)
    return res


def run(ck):
    ck.proof = core.proof_stage("C16")
    if not ck.proof["ok"]:
        ck.broke("proof", {"theorem_file": "lean/TgModel/Props/C16.lean", "detail": ck.proof["detail"]})
    if not core.ensure_built(ck):
        return ck.finish(**FINISH)
    gs = graphs(ck)
    cases = []
    for idx, (n, g) in enumerate(gs):
        variant = 1 if (idx % 5 == 4 and n >= 2) else 0
        files, paths = files_for(n, g, variant, style=(idx % 4))
        res = expected_resolution(n, g, paths, variant)
        cases.append((n, g, variant, files, paths, res))
    lines_impl, lines_model = [], []
    for n, g, variant, files, paths, res in cases:
        qs = [["diagnostics"]] + [["document_link", paths[i]] for i in range(n)] + [["document_symbol", paths[i]] for i in range(n)]
        spec = {"files": files, "root": paths[0], "queries": qs}
        if variant == 1:
            spec["include_dir"] = "/inc"
        lines_impl.append("ws " + json.dumps(spec))
        lines_model.append("graph %d 0 %s" % (n, ";".join((",".join("-" if t is None else str(t) for t in row) or ".") for row in res)))
    a = core.impl(lines_impl, timeout=25, tag="g16")
    b = core.model(lines_model, timeout=120, tag="m16")
    nontriv = set()
    ndis = 0
    for (n, g, variant, files, paths, res), ra, rb in zip(cases, a, b):
        key = json.dumps([n, g, variant])
        if any(t is not None for row in res for t in row):
            nontriv.add(key)
        sig = ["C16", "graph", key]
        if ra.startswith(("HANG", "CRASH", "PANIC")):
            ck.fail(sig, "selecting the root does not terminate / crashes on include graph %s" % key,
                    {"files": files, "root": paths[0], "include_dir": "/inc" if variant else None}, ra[:200], "terminates")
            continue
        try:
            out = json.loads(ra)
        except Exception:
            ck.fail(sig, "unparsable answer for graph %s" % key, {"files": files}, ra[:200], "json")
            continue
        inv = {v: k for k, v in paths.items()}
        fileset = sorted(inv[f] for f, _ in out[0] if f in inv)
        diags = []
        for f, ds in out[0]:
            for d in ds:
                if "include file not found" in d[3]:
                    text = files[f]
                    stmt = text[: d[1]].count("\n")
                    diags.append((inv[f], stmt))
        links = {}
        for i in range(n):
            lk = out[1 + i]
            if isinstance(lk, list) and paths[i] in [f for f, _ in out[0]]:
                links[i] = [(files[paths[i]][: l[0]].count("\n"), inv.get(l[2], -1)) for l in lk]
        syms = {}
        for i in range(n):
            sy = out[1 + n + i]
            syms[i] = [s["name"] for s in sy] if isinstance(sy, list) else None
        # model answer
        exp_files = reach(res)
        impl_canon = "files=%s diags=%s links=%s" % (fileset, sorted(diags), {i: links.get(i) for i in fileset})
        m_files, m_order, m_diags, m_links = parse_model(rb)
        model_canon = "files=%s diags=%s links=%s" % (m_files, sorted(m_diags), {i: m_links.get(i, []) for i in m_files})
        if impl_canon != model_canon:
            ndis += 1
            if ndis <= 3:
                ck.broke("correspondence", {"stream": "graphs", "case": key, "impl": impl_canon, "model": model_canon})
        # oracle (property clauses on the implementation, reference = plain reachability in python)
        exp_diags = sorted((f, i) for f in exp_files for i, t in enumerate(res[f]) if t is None)
        exp_links = {f: [(i, t) for i, t in enumerate(res[f]) if t is not None] for f in exp_files}
        if fileset != exp_files:
            ck.fail(sig, "workspace %s differs from the reachable files %s" % (fileset, exp_files), {"files": files, "root": paths[0]}, fileset, exp_files)
        elif sorted(diags) != exp_diags:
            ck.fail(sig, "not-found diagnostics differ", {"files": files, "root": paths[0]}, sorted(diags), exp_diags)
        elif {i: links.get(i) for i in fileset} != exp_links:
            ck.fail(sig, "document links differ from the resolved includes", {"files": files, "root": paths[0]}, links, exp_links)
        else:
            for f in exp_files:
                want = ["C%d" % f] + (["d%d" % f, "M%d" % f, "_x"] if "def d%d " % f in files[paths[f]] else [])
                # (defsets, defs and multiclasses of the wrappers are not counted)
                got = [x for x in (syms.get(f) or []) if not x.startswith("s") and not x.startswith("q") and not re.match(r"[WXYZ]\d+$|_a$|_t$", x)]
                if got != want:
                    ck.fail(sig, "declarations of file f%d are not indexed exactly once: %s" % (f, syms.get(f)),
                            {"files": files, "root": paths[0]}, syms.get(f), want)
                    break
    st = ck.cov["streams"].setdefault("graphs", {"evaluations": 0, "distinct_nontrivial": 0})
    st["model_disagreements"] = ndis
    ck.count("graphs", len(cases), nontriv, sample={"graph": cases[len(cases) // 3][1], "impl": a[len(cases) // 3][:300], "model": b[len(cases) // 3]})
    spellings(ck)
    shadowed(ck)
    broken_neighbours(ck)
    return ck.finish(extra_cov={"exhaustive": True}, **FINISH)


def spellings(ck):
    """how a path is spelled does not change where it is looked for: the including file's directory first, then INCLUDE_DIR -
    also for `./x.td`, `../d/x.td`, `d/../x.td`, a trailing slash on INCLUDE_DIR and an absolute path"""
    use = "def d : X;\n"
    cases = [
        ("dot-only-in-include-dir", {"/proj/main.td": 'include "./x.td"\n' + use, "/inc/./x.td": "class X;\n"}, "/inc", True),
        ("dotdot-only-in-include-dir", {"/proj/main.td": 'include "../common/x.td"\n' + use, "/inc/../common/x.td": "class X;\n"}, "/inc", True),
        ("plain-only-in-include-dir", {"/proj/main.td": 'include "x.td"\n' + use, "/inc/x.td": "class X;\n"}, "/inc", True),
        ("dot-next-to-the-file", {"/proj/main.td": 'include "./x.td"\n' + use, "/proj/./x.td": "class X;\n", "/inc/./x.td": "class Other;\n"}, "/inc", True),
        ("dotdot-next-to-the-file", {"/proj/sub/main.td": 'include "../x.td"\n' + use, "/proj/sub/../x.td": "class X;\n"}, None, True),
        ("through-a-directory-and-back", {"/proj/main.td": 'include "d/../x.td"\n' + use, "/proj/d/../x.td": "class X;\n"}, None, True),
        ("subdirectory-in-include-dir", {"/proj/main.td": 'include "lib/x.td"\n' + use, "/inc/lib/x.td": 'include "./y.td"\nclass X : Y;\n', "/inc/lib/./y.td": "class Y;\n"}, "/inc", True),
        ("nowhere", {"/proj/main.td": 'include "./x.td"\n' + use}, "/inc", False),
    ]
    lines = []
    for name, files, inc, _ in cases:
        root = sorted(p for p in files if p.endswith("main.td"))[0]
        spec = {"files": files, "root": root, "queries": [["diagnostics"], ["document_link", root], ["goto", root, files[root].index(": X") + 2]]}
        if inc:
            spec["include_dir"] = inc
        lines.append("ws " + json.dumps(spec))
    outs = core.impl(lines, tag="sp16")
    for (name, files, inc, resolves), o in zip(cases, outs):
        case = {"files": files, "root": sorted(p for p in files if p.endswith("main.td"))[0], "include_dir": inc}
        try:
            ans = json.loads(o)
        except Exception:
            ck.fail(["C16", "spelling", name], "workspace with include spelling %r aborts: %s" % (name, o[:80]), case, o[:200], "answers")
            continue
        nf = [d for _, ds in ans[0] for d in ds if "x.td" in d[3]]
        links = ans[1] or []
        if resolves and (nf or len(links) != 1 or ans[2] is None):
            ck.fail(["C16", "spelling", name], "an include that resolves (%s) gets %s" % (name, "a not-found diagnostic" if nf else ("no link" if len(links) != 1 else "no declarations")),
                    case, json.dumps([nf, links, ans[2]])[:300], "one link, no not-found diagnostic, the class is found")
        if not resolves and (not nf or links):
            ck.fail(["C16", "spelling", name], "an include that resolves nowhere gets %s" % ("a link" if links else "no diagnostic"), case, json.dumps([nf, links])[:300],
                    "a not-found diagnostic and no link")
    ck.count("spellings", len(cases), {c[0] for c in cases}, sample={"case": cases[0][0], "files": cases[0][1]})


def shadowed(ck):
    """the same spelling exists next to some including files AND in INCLUDE_DIR, files sit in several directories and are reached in
    different orders: every include still resolves to the including file's directory first, then INCLUDE_DIR - whatever was
    collected before.  Each file carries a fault of its own, so the diagnostics name exactly the files of the workspace."""
    rng = ck.rng
    dirs = ["/w", "/w/sub", "/w/q", "/inc"]
    cases = []
    fixed = [
        {"/w/main.td": ["x0.td", "sub/a.td"], "/inc/x0.td": [], "/w/sub/a.td": ["x0.td"], "/w/sub/x0.td": []},
        {"/w/main.td": ["sub/a.td", "x0.td"], "/inc/x0.td": [], "/w/sub/a.td": ["x0.td"], "/w/sub/x0.td": []},
        {"/w/main.td": ["sub/a.td", "q/b.td"], "/w/sub/a.td": ["x0.td"], "/inc/x0.td": [], "/w/q/b.td": ["c.td"], "/w/q/c.td": ["x0.td"], "/w/q/x0.td": []},
        {"/w/main.td": ["x0.td", "sub/x0.td"], "/w/x0.td": ["x1.td"], "/w/sub/x0.td": ["x1.td"], "/inc/x1.td": [], "/w/sub/x1.td": []},
    ]
    for f in fixed:
        cases.append(f)
    for _ in range(120 if ck.tier == "quick" else 6000):
        names = ["x%d.td" % k for k in range(rng.randrange(2, 5))]
        present = {"/w/main.td"} | {d + "/" + n for d in dirs for n in names if rng.random() < 0.55}
        spell = names + ["sub/" + n for n in names] + ["q/" + n for n in names]
        cases.append({pth: [rng.choice(spell) for _ in range(rng.choice([0, 1, 2, 2, 3]))] for pth in sorted(present)})
    lines, exps = [], []
    for c in cases:
        tags = {pth: "M%d" % i for i, pth in enumerate(sorted(c))}
        files = {pth: "".join('include "%s"\n' % sp for sp in incs) + "def u%s : %s;\n" % (tags[pth], tags[pth]) for pth, incs in c.items()}
        # expected: a walk from the root, each spelling looked up next to the including file, then in INCLUDE_DIR
        link, seen, todo = {}, {"/w/main.td"}, ["/w/main.td"]
        while todo:
            cur = todo.pop(0)
            d = cur.rsplit("/", 1)[0]
            row = []
            for sp in c[cur]:
                hit = next((x for x in (d + "/" + sp, "/inc/" + sp) if x in c), None)
                row.append(hit)
                if hit and hit not in seen:
                    seen.add(hit)
                    todo.append(hit)
            link[cur] = row
        order = sorted(seen)
        lines.append("ws " + json.dumps({"files": files, "root": "/w/main.td", "include_dir": "/inc", "queries": [["diagnostics"]] + [["document_link", f] for f in order]}))
        exps.append((files, tags, link, order))
    outs = core.impl(lines, tag="sh16")
    nshadow = 0
    for (files, tags, link, order), line, o in zip(exps, lines, outs):
        case = {"files": files, "root": "/w/main.td", "include_dir": "/inc"}
        try:
            ans = json.loads(o)
        except Exception:
            ck.fail(["C16", "shadowed", "abort"], "workspace aborts: %s" % o[:80], case, o[:200], "answers")
            continue
        got_ws = sorted({f for f, ds in ans[0] if any(d[3].endswith(": " + tags.get(f, "?")) for d in ds)})
        if got_ws != order:
            ck.fail(["C16", "shadowed", "workspace"], "the workspace is %s, the files reachable through includes (own directory first, then INCLUDE_DIR) are %s" % (got_ws, order),
                    case, json.dumps(got_ws), json.dumps(order))
            continue
        for f, lk in zip(order, ans[1:]):
            want = [t for t in link[f] if t]
            got = [x[2] for x in (lk or [])]
            if got != want:
                ck.fail(["C16", "shadowed", "link"], "the includes of %s link to %s, they resolve to %s" % (f, got, want), case, json.dumps(got), json.dumps(want))
                break
            nf = sum(1 for ff, ds in ans[0] if ff == f for d in ds if "not found" in d[3] and "class not found" not in d[3])
            if nf != sum(1 for t in link[f] if t is None):
                ck.fail(["C16", "shadowed", "not-found"], "%s has %d not-found diagnostics for %d includes that resolve nowhere" % (f, nf, sum(1 for t in link[f] if t is None)),
                        case, str(nf), "one per unresolved include")
                break
        if any(("/inc/" + sp) in files and (f.rsplit("/", 1)[0] + "/" + sp) in files and not f.startswith("/inc/") for f in order for sp in [x for x in cases[exps.index((files, tags, link, order))][f]]):
            nshadow += 1
    ck.count("shadowed_includes", len(cases), {json.dumps(c, sort_keys=True) for c in cases}, sample={"files": exps[0][0]}, with_a_spelling_in_both_places=nshadow)


def broken_neighbours(ck):
    """an include statement next to a syntax error (a stray `;` behind it, a statement in front that lacks its `;`, a block around it
    that is never closed, another include glued to it): it still gets its link if it resolves and its not-found diagnostic if not"""
    inc_ok, inc_no = 'include "a.td"', 'include "missing.td"'
    shapes = [("alone", "%s\n"), ("stray-semicolon", "%s;\n"), ("after-a-statement-without-semicolon", "class Y %s\n"), ("in-an-unclosed-let", "let x = 1 in {\n%s\n"),
              ("in-an-unclosed-foreach", "foreach i = [1] in {\n%s"), ("before-a-stray-brace", "%s }\nclass Z;\n"), ("before-junk", "%s ) ) class Z;\n"),
              ("after-junk", ") %s\nclass Z;\n"), ("in-an-unclosed-defset", "defset list<A> s = {\n%s\n"), ("behind-an-unterminated-def", "def d : A {\n%s\n"),
              ("in-a-disabled-then-enabled-region", "#ifdef NOPE\n#else\n%s;\n#endif\n"), ("no-final-newline-stray", "%s;")]
    cases = []
    for name, shape in shapes:
        cases.append((name + "/missing", shape % inc_no, 0, 1))
        cases.append((name + "/resolves", shape % inc_ok, 1, 0))
        cases.append((name + "/both", shape % (inc_no + "\n" + inc_ok), 1, 1))
        cases.append((name + "/both-glued", shape % (inc_ok + " " + inc_no), 1, 1))
    lines = []
    for name, text, _, _ in cases:
        files = {"/w/main.td": "class A;\n" + text, "/w/a.td": "class FromA;\n"}
        lines.append("ws " + json.dumps({"files": files, "root": "/w/main.td", "queries": [["diagnostics"], ["document_link", "/w/main.td"]]}))
    outs = core.impl(lines, tag="bn16")
    for (name, text, nlinks, nmissing), o in zip(cases, outs):
        case = {"files": {"/w/main.td": "class A;\n" + text, "/w/a.td": "class FromA;\n"}, "root": "/w/main.td", "include_dir": None}
        try:
            ans = json.loads(o)
        except Exception:
            ck.fail(["C16", "broken-neighbour", "abort"], "workspace aborts: %s" % o[:80], case, o[:200], "answers")
            continue
        nf = [d for f, ds in ans[0] if f == "/w/main.td" for d in ds if "missing.td" in d[3]]
        links = [x for x in (ans[1] or []) if x[2] == "/w/a.td"]
        if len(nf) != nmissing or len(links) != nlinks or len(ans[1] or []) != nlinks:
            ck.fail(["C16", "broken-neighbour", name.split("/")[0]], "include statements next to a syntax error (%s): %d not-found diagnostics and %d links for %d includes that resolve nowhere and %d that resolve"
                    % (name, len(nf), len(ans[1] or []), nmissing, nlinks), case, json.dumps([nf, ans[1]])[:300], "a diagnostic per unresolved include, a link per resolved one")
    ck.count("broken_neighbours", len(cases), {c[0] for c in cases}, sample={"text": cases[1][1]})


def reach(res):
    seen, todo = [], [0]
    while todo:
        f = todo.pop()
        if f in seen:
            continue
        seen.append(f)
        todo.extend(t for t in res[f] if t is not None)
    return sorted(seen)


def parse_model(r):
    import re
    m = re.match(r"files=\[(.*?)\] order=\[(.*?)\] diags=\[(.*?)\] links=(.*)$", r)
    if not m:
        return [], [], [], {}
    files = [int(x) for x in m.group(1).split(",") if x.strip()]
    order = [int(x) for x in m.group(2).split(",") if x.strip()]
    diags = [(int(a), int(b)) for a, b in re.findall(r"\((\d+), (\d+)\)", m.group(3))]
    links = {}
    for part in m.group(4).split(" "):
        if ":" in part:
            f, rest = part.split(":")
            links[int(f)] = [(int(x.split(">")[0]), int(x.split(">")[1])) for x in rest.split(",") if x]
    return files, order, diags, links


def replay(ck, path):
    with open(path) as f:
        rp = json.load(f)
    case = rp.get("case", {})
    core.build_harness()
    n = len(case.get("files", {}))
    qs = [["diagnostics"]] + [["document_symbol", p] for p in case.get("files", {})]
    spec = {"files": case.get("files"), "root": case.get("root"), "queries": qs}
    if case.get("include_dir"):
        spec["include_dir"] = case["include_dir"]
    print(core.impl(["ws " + json.dumps(spec)], timeout=30)[0][:1500])
    return 1
