"""C12 editor buffers are the source of truth: proof on the session model (Props/C12.lean) +
scripted sessions on the real server over a temp directory where editor and disk texts differ."""
import json

from .. import core, sessions

TRUSTED = [
    "Lean 4.33 kernel; axioms per theorem under coverage.theorems",
    "hand-written models Session.lean/Host.lean tied to lsp/src/{server,vfs}.rs + ide/src/file_system.rs by session correspondence",
    "the file system below /verif/.build/tmp (std::fs), url <-> path conversion of lsp-types",
]
RULE = ("sessions over a root and two included files where on-disk and editor texts differ: every sequence of <= 3 (quick) / <= 4 "
        "(thorough, sampled at the last length) didOpen/didChange operations over 9 (file, text) atoms, plus random sessions of 4-7 "
        "operations; the text analysed for each workspace file is identified through its class name; a session is non-trivial "
        "if an included file with differing disk and editor text is in the final workspace")
FINISH = dict(level="proof", trusted_base=TRUSTED, rule=RULE)


def run(ck):
    ck.proof = core.proof_stage("C12")
    if not ck.proof["ok"]:
        ck.broke("proof", {"theorem_file": "lean/TgModel/Props/C12.lean", "detail": ck.proof["detail"]})
    if not core.ensure_built(ck):
        return ck.finish(**FINISH)
    ss = sessions.sessions(ck.rng, ck.tier == "quick")
    lines, meta = [], []
    for i, (disk, ops) in enumerate(ss):
        line, d, ws = sessions.srv_line(i, disk, ops)
        lines.append(line)
        meta.append((disk, ops, d, ws))
    res = core.impl(lines, timeout=300, jobs=8, tag="s12")
    nontriv = set()
    for (disk, ops, d, ws), r in zip(meta, res):
        key = core.sig_hash([[f, v.k] for f, v in ops])
        _, exp, buffers = sessions.reference(disk, ops)
        if any(f in buffers and f != ops[-1][0] for f in ws):
            nontriv.add(key)
        case = {"disk": {sessions.FILES[f]: v.text for f, v in disk.items()}, "ops": [[sessions.FILES[f], v.text] for f, v in ops]}
        sig = ["C12", "session", key]
        try:
            view, versions, resp, data = sessions.parse_stream(r, d)
        except Exception:
            ck.fail(sig, "session aborts: %s" % r[:80], case, r[:200], "answers")
            continue
        if data["timeout"] or data["unanswered"]:
            ck.fail(sig, "session does not become idle / requests unanswered", case, {"unanswered": data["unanswered"]}, "idle")
            continue
        for i, f in enumerate(ws):
            syms = resp.get(i + 1)
            names = [s["name"] for s in syms] if isinstance(syms, list) else syms
            want = "T%d" % exp[f].k
            if not (isinstance(names, list) and want in names):
                src = "editor buffer" if f in buffers else "disk"
                ck.fail(sig, "document %s is analysed with a text other than its %s text (symbols %s, expected %s)" % (sessions.FILES[f], src, names, want),
                        case, names, want)
                break
    ck.count("sessions", len(ss), nontriv, sample={"ops": [[sessions.FILES[f], v.k] for f, v in ss[len(ss) // 2][1]]})
    return ck.finish(extra_cov={"traces_validated_against_impl": len(ss)}, **FINISH)


def replay(ck, path):
    with open(path) as f:
        rp = json.load(f)
    case = rp["case"]
    core.build_harness()
    script = []
    opened = set()
    for f, t in case["ops"]:
        script.append(["change" if f in opened else "open", f, t])
        opened.add(f)
    script.append(["idle"])
    rid = 1
    for f in sorted(set(case["disk"]) | opened):
        script.append(["req", rid, "documentSymbol", f])
        rid += 1
    o = core.impl(["srv " + json.dumps({"dir": "%s/tmp/replay12" % core.BUILD, "disk": case["disk"], "script": script, "timeout_ms": 8000})], timeout=60)
    print(o[0][:3000])
    return 1
