"""C12 editor buffers are the source of truth: proof on the session model (Props/C12.lean) +
scripted sessions on the real server over a temp directory where editor and disk texts differ."""
import json

from .. import core, sessions

TRUSTED = [
    "Lean 4.33 kernel; axioms per theorem under coverage.theorems",
    "hand-written models Session.lean/Host.lean tied to lsp/src/{server,vfs}.rs + ide/src/file_system.rs by session correspondence",
    "the file system below /verif/.build/tmp (std::fs), url <-> path conversion of lsp-types",
]
RULE = ("sessions over a root and two included files where on-disk and editor texts differ: every sequence of <= 3 (quick) / <= 4 "
        "(thorough, sampled at the last length) didOpen/didChange operations over 9 (file, text) atoms, plus random sessions of 4-7 "
        "operations; the text analysed for each workspace file is identified through its class name; a session is non-trivial "
        "if an included file with differing disk and editor text is in the final workspace")
FINISH = dict(level="proof", trusted_base=TRUSTED, rule=RULE)


def run(ck):
    ck.proof = core.proof_stage("C12")
    if not ck.proof["ok"]:
        ck.broke("proof", {"theorem_file": "lean/TgModel/Props/C12.lean", "detail": ck.proof["detail"]})
    if not core.ensure_built(ck):
        return ck.finish(**FINISH)
    ss = sessions.sessions(ck.rng, ck.tier == "quick")
    lines, meta = [], []
    for i, (disk, ops) in enumerate(ss):
        line, d, ws = sessions.srv_line(i, disk, ops)
        lines.append(line)
        meta.append((disk, ops, d, ws))
    res = core.impl(lines, timeout=300, jobs=8, tag="s12")
    nontriv = set()
    for (disk, ops, d, ws), r in zip(meta, res):
        key = core.sig_hash([[f, v.k] for f, v in ops])
        _, exp, buffers = sessions.reference(disk, ops)
        if any(f in buffers and f != ops[-1][0] for f in ws):
            nontriv.add(key)
        case = {"disk": {sessions.FILES[f]: v.text for f, v in disk.items()}, "ops": [[sessions.FILES[f], v.text] for f, v in ops]}
        sig = ["C12", "session", key]
        try:
            view, versions, resp, data = sessions.parse_stream(r, d)
        except Exception:
            ck.fail(sig, "session aborts: %s" % r[:80], case, r[:200], "answers")
            continue
        if data["timeout"] or data["unanswered"]:
            ck.fail(sig, "session does not become idle / requests unanswered", case, {"unanswered": data["unanswered"]}, "idle")
            continue
        for i, f in enumerate(ws):
            syms = resp.get(i + 1)
            names = [s["name"] for s in syms] if isinstance(syms, list) else syms
            want = "T%d" % exp[f].k
            if not (isinstance(names, list) and want in names):
                src = "editor buffer" if f in buffers else "disk"
                ck.fail(sig, "document %s is analysed with a text other than its %s text (symbols %s, expected %s)" % (sessions.FILES[f], src, names, want),
                        case, names, want)
                break
    ck.count("sessions", len(ss), nontriv, sample={"ops": [[sessions.FILES[f], v.k] for f, v in ss[len(ss) // 2][1]]})
    spelled_includes(ck)
    return ck.finish(extra_cov={"traces_validated_against_impl": len(ss)}, **FINISH)


def spelled_includes(ck):
    """an open document reached through an include that spells its path differently (`./b.td`, `sub/../b.td`) is still that open
    document: the editor's text is analysed, whatever the order of the events, and the document's own answers stay the editor's"""
    ed, disk = "\n\nclass InEditor;\n", "class OnDisk;\n"
    cases = []
    for sp in ("b.td", "./b.td", "sub/../b.td", "sub/./../b.td"):
        a = 'include "%s"\ndef d : InEditor;\n' % sp
        cases.append((sp + ":b-then-a", {"b.td": disk, "sub/keep.td": ""}, [["open", "b.td", ed], ["open", "a.td", a], ["idle"]], "a.td"))
        cases.append((sp + ":a-b-then-a-again", {"b.td": disk, "sub/keep.td": ""}, [["open", "a.td", a], ["open", "b.td", ed], ["change", "a.td", a + "\n"], ["idle"]], "a.td"))
        cases.append((sp + ":a-then-b-changed-twice", {"b.td": disk, "sub/keep.td": ""},
                      [["open", "b.td", disk], ["open", "a.td", a], ["change", "b.td", "class Mid;\n"], ["change", "b.td", ed], ["change", "a.td", a], ["idle"]], "a.td"))
    lines = []
    for i, (name, dk, script, root) in enumerate(cases):
        script = script + [["req", 1, "foldingRange", "b.td"], ["req", 2, "definition", "a.td", 1, 9], ["req", 3, "documentSymbol", "a.td"]]
        lines.append("srv " + json.dumps({"dir": "%s/tmp/sp12_%d" % (core.BUILD, i), "disk": dk, "script": script, "timeout_ms": 8000}))
    outs = core.impl(lines, timeout=120, jobs=4, tag="sp12")
    for (name, dk, script, root), line, o in zip(cases, lines, outs):
        case = {"cmd": line[:2500]}
        try:
            d = json.loads(o)
        except Exception:
            ck.fail(["C12", "spelled-include", name], "session aborts: %s" % o[:80], case, o[:200], "answers")
            continue
        resp = {m["id"]: m.get("result") for m in d["msgs"] if "id" in m and "method" not in m}
        pubs = {}
        for m in d["msgs"]:
            if m.get("method") == "textDocument/publishDiagnostics":
                pubs[m["params"]["uri"].rsplit("/", 1)[1]] = [x["message"] for x in m["params"]["diagnostics"]]
        folds = [(f["startLine"], f["endLine"]) for f in (resp.get(1) or [])]
        target = resp.get(2)
        bad = None
        if pubs.get("a.td"):
            bad = "the including document is analysed against another text of the open document: %s" % pubs["a.td"][:2]
        elif not (isinstance(target, dict) and target.get("uri", "").endswith("/b.td") and target["range"]["start"]["line"] == 2):
            bad = "go-to-definition into the open document answers %s (the editor's text declares the class on line 2)" % json.dumps(target)[:120]
        elif folds != [(2, 2)]:
            bad = "the open document's own folding ranges are %s (the editor's text has one statement on line 2)" % folds
        if bad:
            ck.fail(["C12", "spelled-include", name], bad, case, json.dumps({"pubs": pubs, "definition": target, "folds": folds})[:400], "the editor's text of b.td everywhere")
    ck.count("spelled_includes", len(cases), {c[0] for c in cases}, sample={"case": cases[2][0]})


def replay(ck, path):
    with open(path) as f:
        rp = json.load(f)
    case = rp["case"]
    core.build_harness()
    if "cmd" in case:
        o = core.impl([case["cmd"]], timeout=120)
        print(o[0][:3000])
        return 1
    script = []
    opened = set()
    for f, t in case["ops"]:
        script.append(["change" if f in opened else "open", f, t])
        opened.add(f)
    script.append(["idle"])
    rid = 1
    for f in sorted(set(case["disk"]) | opened):
        script.append(["req", rid, "documentSymbol", f])
        rid += 1
    o = core.impl(["srv " + json.dumps({"dir": "%s/tmp/replay12" % core.BUILD, "disk": case["disk"], "script": script, "timeout_ms": 8000})], timeout=60)
    print(o[0][:3000])
    return 1
