"""C03 analysis totality: every IDE query answers on every workspace state.

Proof (Props/C03.lean): theorems about the Lean model of the indexer and the handlers, in which every
Rust panic site is an explicit error value.  Tie: the model answers every `ws` query like the
implementation (panics included) on the correspondence streams.  Search/oracle: the sweep - every
query kind at every character boundary of every file of every workspace of the space, inlay hints
for all sub-ranges - must finish without a panic, a crash or a hang."""
import json

from .. import core, wsspace, idecorr

TRUSTED = [
    "Lean 4.33 kernel; axioms per theorem under coverage.theorems",
    "hand-written model TgModel/Ide/*.lean of crates/ide (indexer, symbol map, scopes, 9 handlers); Rust panics are error values; tied to the code by the `ws` correspondence streams of this run",
    "stack depth, salsa and rowan internals are not modelled: deep nesting is measured (bounded depths), not proved",
    "the harness catches panics per call (catch_unwind); an abort (stack overflow, allocation failure) kills the harness process and is reported as CRASH",
]
RULE = ("workspaces: semantic stress patterns (self/mutual references, redefinitions, shadowing, odd shapes) alone and after a prelude, "
        "generated programs and their token mutations, character-level prefixes of valid files, non-ASCII/CRLF injection, include "
        "chains/diamonds/missing files/sub-directories, bounded deep nesting, corpus files; for each: diagnostics, and per file "
        "document symbols, folding ranges, links, go-to-definition/references/hover/completion (with and without `!`) at every "
        "character boundary (sampled to 400 points for long files), inlay hints for all sub-ranges over those points (sampled to "
        "300 when more); a workspace is one case")
FINISH = dict(level="proof", trusted_base=TRUSTED, rule=RULE)


def run(ck):
    ck.proof = core.proof_stage("C03")
    if not ck.proof["ok"]:
        ck.broke("proof", {"theorem_file": "lean/TgModel/Props/C03.lean", "detail": ck.proof["detail"]})
    if not core.ensure_built(ck):
        return ck.finish(**FINISH)
    quick = ck.tier == "quick"
    # correspondence of the model (panic behaviour included)
    stats, mism = idecorr.run_streams(["grammar", "sem", "inc", "odd", "corpus"], 120 if quick else 1500, seed=ck.seed, corpus_limit=12 if quick else None)
    for s, st in stats.items():
        ck.count("model-" + s, st["cases"], set(range(st["agree"])), queries=st["queries"], model_disagreements=st["mismatch"])
    for m in mism[:3]:
        ck.broke("correspondence", {"stream": m["stream"], "files": m["case"]["files"], "root": m["case"]["root"], "diffs": json.loads(json.dumps(m["diffs"]))[:2]})
    wss = wsspace.workspaces(ck.rng, quick)
    lines = ["ws " + json.dumps({"files": f, "root": r, "sweep": {"max_points": 400 if quick else 1500, "max_hint_ranges": 300 if quick else 2000}}) for f, r, _ in wss]
    res = core.impl(lines, timeout=900, tag="c03")
    calls = 0
    origins = {}
    nontriv = set()
    for (files, root, origin), r in zip(wss, res):
        key = core.sig_hash(files)
        origins[origin] = origins.get(origin, 0) + 1
        case = {"files": trunc(files), "root": root, "origin": origin}
        if r.startswith(("PANIC", "CRASH", "HANG", "SKIPPED")):
            kind = r.split(" ", 1)[0]
            ck.fail(["C03", kind.lower(), origin, sig_msg(r)], "the analysis %s on a workspace (%s): %s" % ({"PANIC": "panics", "CRASH": "kills the process", "HANG": "does not return", "SKIPPED": "was skipped"}[kind], origin, r[:120]),
                    case, r[:300], "an answer to every query")
            continue
        try:
            d = json.loads(r)
        except Exception:
            ck.fail(["C03", "garbled", origin], "unreadable answer: %s" % r[:80], case, r[:200], "an answer")
            continue
        calls += d["calls"]
        if d["answered"] > 0:
            nontriv.add(key)
        for q, at, msg in d["panics"]:
            ck.fail(["C03", "panic", q.rstrip("!"), sig_msg(msg)], "%s panics: %s" % (q, msg[:100]), dict(case, query=[q, at]), msg[:300], "an answer")
    ck.count("sweep", len(wss), nontriv, sample={"files": trunc(wss[0][0])}, calls=calls, origins=origins)
    return ck.finish(extra_cov={"traces_validated_against_impl": sum(st["cases"] for st in stats.values())}, **FINISH)


def sig_msg(msg):
    """stable part of a panic message (no offsets/ids)"""
    import re
    return re.sub(r"[0-9]+", "N", msg)[:60]


def trunc(files):
    return {p: (t if len(t) < 1500 else t[:1500] + "...[%d bytes]" % len(t)) for p, t in files.items()}


def replay(ck, path):
    with open(path) as f:
        rp = json.load(f)
    case = rp.get("case", {})
    core.build_harness()
    if "query" in case and "files" in case:
        q, at = case["query"]
        qq = {"goto": ["goto"], "references": ["references"], "hover": ["hover"], "completion": ["completion"], "completion!": ["completion"]}.get(q)
        if qq and isinstance(at, list) and len(at) == 2:
            line = "ws " + json.dumps({"files": case["files"], "root": case["root"], "queries": [qq + at + (["!"] if q == "completion!" else [])]})
        else:
            line = "ws " + json.dumps({"files": case["files"], "root": case["root"], "sweep": {}})
        print(core.impl([line], timeout=120)[0][:1500])
    elif "files" in case:
        print(core.impl(["ws " + json.dumps({"files": case["files"], "root": case["root"], "sweep": {}})], timeout=300)[0][:1500])
    else:
        print(json.dumps(rp)[:1500])
    return 1
