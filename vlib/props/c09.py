"""C09 location fidelity: every range/location in every server response and notification, read
against the current text of the document it names, is the span the analysis computed for that
document.  Proof = composition of C10's round trip (Props/C09.lean); correspondence = server JSON
vs ide-level results converted by the reference position mapper (itself checked against the Lean
LineIndex model)."""
import json
import re
import urllib.parse

from .. import core
from ..core import hexs
from . import c10

TRUSTED = [
    "Lean 4.33 kernel; axioms per theorem under coverage.theorems",
    "the reference position mapper (python) is validated against the Lean LineIndex model on every text of the run",
    "ide-level results are taken from a second in-memory AnalysisHost over the same texts (harness `ws`)",
    "lsp-types/async-lsp serialisation, url <-> path conversion",
]
RULE = ("three- to five-file workspaces (symbols referenced from several included files) whose files have different line structure (blank-line/comment prefixes, LF/CRLF/CR, non-ASCII "
        "comments and strings; spans that themselves contain non-ASCII text: links to non-ASCII file names, type errors on non-ASCII strings, stray non-ASCII characters); requests: definition and references at every identifier, documentSymbol, foldingRange, documentLink, "
        "inlayHint for every file, plus published diagnostics; a workspace is non-trivial if a definition or reference crosses files")
FINISH = dict(level="proof", trusted_base=TRUSTED, rule=RULE)


def to_pos(text, off):
    """byte offset -> (line, utf16 col), reference"""
    b = text.encode()
    pre = b[:off].decode("utf-8", "ignore")
    line, col = 0, 0
    i = 0
    while i < len(pre):
        ch = pre[i]
        if ch == "\n" or (ch == "\r" and not (i + 1 < len(text) and text[i + 1] == "\n")):
            line, col = line + 1, 0
        else:
            col += 2 if ord(ch) >= 0x10000 else 1
        i += 1
    return line, col


def rng_json(text, a, b):
    s, e = to_pos(text, a), to_pos(text, b)
    return {"start": {"line": s[0], "character": s[1]}, "end": {"line": e[0], "character": e[1]}}


PREFIXES = ["", "\n\n", "// c\n// d\n", "/* é\n ü */\n", "\r\n\r\n", "// 😀\r", "\n// ä\n\n\n"]
EOLS = ["\n", "\r\n", "\n\n", " // ö😀\n", "\r"]


def workspaces(ck):
    rng = ck.rng
    out = []
    for _ in range(40 if ck.tier == "quick" else 3000):
        e1, e2, e3 = rng.choice(EOLS), rng.choice(EOLS), rng.choice(EOLS)
        inc = (rng.choice(PREFIXES) + "class Base<int w, string s = \"é\"> {%s  int f = w;%s}%s" % (e2, e2, e2)
               + rng.choice(PREFIXES) + "class Mid : Base<1> {%s  let f = 2;%s}%s" % (e2, e2, e2) + "def shared : Mid;%s" % e2)
        # sub.td and third.td use classes of inc.td too: the references of one symbol then lie in several files other than the
        # requesting one, each with its own line structure
        sub = rng.choice(PREFIXES) + "class Leaf;%sdefvar leafv = 1;%s" % (e3, e3) + rng.choice(PREFIXES) + "def subuse : Mid;%sclass SubBase : Base<7>;%s" % (e3, e3)
        third = rng.choice(PREFIXES) + rng.choice(PREFIXES) + "def thirduse : Mid { let f = 3; }%sdef third2 : Base<9>;%s" % (e1, e1)
        main = (rng.choice(PREFIXES) + 'include "inc.td"%s' % e1 + rng.choice(PREFIXES) + 'include "sub.td"%s' % e1 + 'include "third.td"%s' % e1
                + "class Top<int q> : Mid, Leaf {%s  let f = q;%s  Base b = Base<2, \"ü\">;%s}%s" % (e1, e1, e1, e1)
                + "def top : Top<3> { int g = leafv; }%s" % e1
                # references nested in arguments and wrapped over lines: the hints of an inner reference come after those of the outer
                # one's later arguments, which stand on later lines
                + "class Arg9<int a, int z = 0>; class Fn9<Arg9 b, int c, Arg9 d = Arg9<0>>;%s" % e1
                + "def nest9 : Fn9<Arg9<1, /* \u65e5\u672c */ 5>,%s            2,%s   Arg9<3>> { Fn9 inner = Fn9<Arg9<4>,%s 6>; }%s" % (e1, e1, e1, e1)
                + "foreach i = [1, 2] in {%s  def x#i : Undefined<i>;%s}%s" % (e1, e1, e1)
                + 'include "missing.td"%s' % e1)
        files = {"inc.td": inc, "sub.td": sub, "third.td": third}
        # spans that themselves contain non-ASCII text: a link to a file with a non-ASCII name, type errors on non-ASCII strings
        # (also as a template argument), a stray non-ASCII character (lexer + parser diagnostics)
        wide = rng.choice(["gr\u00f6\u00dfe", "\U0001F600x", "a\U000F0001b", "\u20acuro\U0010FFFF", "\u00e9"])
        if rng.random() < 0.8:
            main += 'include "%s.td"%s' % (wide, e1)
            files[wide + ".td"] = "class Wide%d;%s" % (len(wide), e3)
        if rng.random() < 0.8:
            main += 'class Err%s { int x = "%s"; int y = "plain"; }%sdef de : Base<"%s">;%s' % (rng.choice(["", "<int k>"]), wide, e1, wide, e1)
        if rng.random() < 0.5:
            main += "def s1 : Leaf; %s def s2 : Leaf;%s" % (rng.choice(["\U0001F600", "\u00e9", "\U000F0001\u00df"]), e1)
        files["main.td"] = main
        # texts without a final line terminator whose last line has non-ASCII text in front of declarations, references and a fault
        for ni, name in enumerate(sorted(files)):
            if rng.random() < 0.5:
                w8 = rng.choice(["caf\u00e9", "\U0001F980", "\u65e5\u672c", "\u00fc\U0001F600\u00df"])
                tag = "t%d" % ni
                tail = '/* %s */ def %s_a : Mid { string s = "%s"; } def %s_b : Base<5>, Missing%s;' % (w8, tag, w8, tag, tag)
                files[name] = files[name] + tail
            elif rng.random() < 0.3:
                files[name] = files[name].rstrip("\r\n")
        # a declaration cut off inside a literal that swallows its line break (an unterminated string ends with the break, an
        # unterminated code fragment runs to the end of the text): the fold ends at column 0 of the line after
        if rng.random() < 0.5:
            name = rng.choice(sorted(files))
            brk = rng.choice(["\n", "\r", "\r\n", "\n", "\r"])
            sep = "" if files[name].endswith(("\n", "\r")) else brk
            cut = rng.choice(['def cut9 : Mid {%s  string s = "abc%s' % (brk, brk), 'multiclass Cut9 {%s  def x {%s    string s = "ab\u00e9%s' % (brk, brk, brk),
                              'def cut9 : Mid {%s  code c = [{ abc%s  more%s' % (brk, brk, brk), 'foreach i9 = [1] in {%s  def y9 : Mid { string t = "q%s' % (brk, brk)])
            files[name] = files[name] + sep + cut
        out.append(files)
    return out


def run(ck):
    ck.proof = core.proof_stage("C09")
    if not ck.proof["ok"]:
        ck.broke("proof", {"theorem_file": "lean/TgModel/Props/C09.lean", "detail": ck.proof["detail"]})
    if not core.ensure_built(ck):
        return ck.finish(**FINISH)
    wss = workspaces(ck)
    # validate the reference mapper against the Lean model on every text
    texts = sorted({t for w in wss for t in w.values()})
    mo = core.model(["li %s 0" % hexs(t) for t in texts], tag="li09")
    nbad = 0
    for t, r in zip(texts, mo):
        exp = []
        off = 0
        for ch in t:
            l, c = to_pos(t, off)
            exp.append("%d=%d,%d" % (off, l, c))
            off += len(ch.encode())
        l, c = to_pos(t, off)
        exp.append("%d=%d,%d" % (off, l, c))
        if not r.startswith("T " + ";".join(exp) + " F"):
            nbad += 1
            if nbad <= 2:
                ck.broke("correspondence", {"stream": "reference-mapper-vs-lean", "text": t[:200], "model": r[:300], "reference": ";".join(exp)[:300]})
    # ide-level results
    ide_lines = []
    for w in wss:
        files = {"/w/" + k: v for k, v in w.items()}
        qs = [["diagnostics"]]
        for p in sorted(files):
            qs += [["idents", p], ["document_symbol", p], ["folding_range", p], ["document_link", p], ["inlay_hint", p, 0, len(files[p].encode())]]
        ide_lines.append("ws " + json.dumps({"files": files, "root": "/w/main.td", "queries": qs}))
    ide = core.impl(ide_lines, timeout=120, tag="i09")
    plans = []
    for w, o in zip(wss, ide):
        d = json.loads(o)
        files = sorted("/w/" + k for k in w)
        per = {}
        for i, p in enumerate(files):
            base = 1 + 5 * i
            per[p] = {"idents": d[base], "symbols": d[base + 1], "folding": d[base + 2], "links": d[base + 3], "hints": d[base + 4]}
        qs = []
        for p in files:
            for a, b, _ in per[p]["idents"]:
                qs.append(["goto", p, a])
                qs.append(["references", p, a])
        plans.append((w, d[0], per, qs))
    ide2 = core.impl(["ws " + json.dumps({"files": {"/w/" + k: v for k, v in w.items()}, "root": "/w/main.td", "queries": qs}) for w, _, _, qs in plans],
                     timeout=120, tag="j09")
    # LSP-level
    lines, metas = [], []
    for i, ((w, diags, per, qs), o2) in enumerate(zip(plans, ide2)):
        ans = json.loads(o2)
        d = "%s/tmp/c09_%d" % (core.BUILD, i)
        script = [["open", "main.td", w["main.td"]], ["idle"]]
        reqs = []
        rid = 1
        for k in range(0, len(qs), 2):
            p, off = qs[k][1], qs[k][2]
            rel = p[3:]
            if rel not in w:
                continue
            l, c = to_pos(w[rel], off)
            # requests are only valid for documents the server knows: the workspace files
            script.append(["req", rid, "definition", rel, l, c])
            reqs.append((rid, "definition", p, ans[k]))
            rid += 1
            script.append(["req", rid, "references", rel, l, c])
            reqs.append((rid, "references", p, ans[k + 1]))
            rid += 1
        for p in sorted(per):
            rel = p[3:]
            for kind in ("documentSymbol", "foldingRange", "documentLink"):
                script.append(["req", rid, kind, rel])
                reqs.append((rid, kind, p, per[p]))
                rid += 1
            el, ec = to_pos(w[rel], len(w[rel].encode()))
            script.append(["req", rid, "inlayHint", rel, 0, 0, el, ec])
            reqs.append((rid, "inlayHint", p, per[p]))
            rid += 1
            # ... and for a range that starts in the middle of one line and ends near the start of a later one (a forward range
            # whose end column is smaller than its start column)
            tb = w[rel].encode()
            starts = [0] + [m.end() for m in re.finditer(rb"\r\n|\n|\r", tb)]
            hpos = {h[0] for h in (per[p]["hints"] or [])}
            cand_a = [st + 3 for k_, st in enumerate(starts[:-1]) if starts[k_ + 1] - st >= 6 and tb[st:st + 3].isascii() and (st + 3) not in hpos]
            cand_b = [st + 1 for st in starts if st + 1 < len(tb) and tb[st:st + 1].isascii() and tb[st:st + 1] not in (b"\r", b"\n") and (st + 1) not in hpos]
            if cand_a and cand_b and cand_b[-1] > cand_a[0]:
                a_, b_ = cand_a[0], cand_b[-1]
                (al, ac), (bl, bc) = to_pos(w[rel], a_), to_pos(w[rel], b_)
                if bl > al and bc < ac:
                    script.append(["req", rid, "inlayHint", rel, al, ac, bl, bc])
                    reqs.append((rid, "inlayHintSub", p, (per[p], a_, b_)))
                    rid += 1
        lines.append("srv " + json.dumps({"dir": d, "disk": {k: v for k, v in w.items() if k != "main.td"}, "script": script, "timeout_ms": 10000, **({"caps": "full"} if len(script) % 2 else {})}))
        metas.append((w, diags, reqs, d))
    res = core.impl(lines, timeout=300, jobs=8, tag="s09")
    nontriv = set()
    for (w, diags, reqs, d), r in zip(metas, res):
        key = core.sig_hash(w)
        case = {"files": w}
        sig = ["C09", "location", key]
        try:
            data = json.loads(r)
        except Exception:
            ck.fail(sig, "session aborts: %s" % r[:80], case, r[:200], "answers")
            continue
        if data["timeout"] or data["unanswered"]:
            ck.fail(sig, "requests unanswered: %s" % data["unanswered"][:5], case, None, "answers")
            continue
        resp = {m["id"]: unquote_uris(m.get("result")) for m in data["msgs"] if "id" in m and "method" not in m}
        pubs = {}
        for m in data["msgs"]:
            if m.get("method") == "textDocument/publishDiagnostics":
                pubs[urllib.parse.unquote(m["params"]["uri"]).rsplit("/", 1)[1]] = m["params"]["diagnostics"]
        uri = lambda p: "file://%s/%s" % (d, p[3:])
        bad = None
        for rid, kind, p, exp in reqs:
            got = resp.get(rid)
            if kind == "definition":
                want = None if exp is None else {"uri": uri(exp[0]), "range": rng_json(w[exp[0][3:]], exp[1], exp[2])}
                if exp is not None and exp[0] != p:
                    nontriv.add(key)
            elif kind == "references":
                want = None if exp is None else [{"uri": uri(x[0]), "range": rng_json(w[x[0][3:]], x[1], x[2])} for x in exp]
            elif kind == "documentSymbol":
                want = None if exp["symbols"] is None else [sym_json(w[p[3:]], s) for s in exp["symbols"]]
                got = None if got is None else [sym_strip(s) for s in got]
            elif kind == "foldingRange":
                want = None if exp["folding"] is None else [{"startLine": to_pos(w[p[3:]], a)[0], "endLine": to_pos(w[p[3:]], b)[0]} for a, b in exp["folding"]]
                got = None if got is None else [{"startLine": g["startLine"], "endLine": g["endLine"]} for g in got]
            elif kind == "documentLink":
                want = None if exp["links"] is None else [{"range": rng_json(w[p[3:]], a, b), "target": uri(t)} for a, b, t in exp["links"]]
                got = None if got is None else [{"range": g["range"], "target": g.get("target")} for g in got]
            elif kind == "inlayHintSub":
                hs, a_, b_ = exp
                want = sorted(({"position": dict(zip(("line", "character"), to_pos(w[p[3:]], h[0]))), "label": h[1]} for h in (hs["hints"] or []) if a_ < h[0] < b_),
                              key=lambda x: json.dumps(x, sort_keys=True))
                got = sorted(({"position": g["position"], "label": g["label"]} for g in (got or [])), key=lambda x: json.dumps(x, sort_keys=True))
            else:
                want = None if exp["hints"] is None else sorted(({"position": dict(zip(("line", "character"), to_pos(w[p[3:]], h[0]))), "label": h[1]} for h in exp["hints"]), key=lambda x: json.dumps(x, sort_keys=True))
                got = None if got is None else sorted(({"position": g["position"], "label": g["label"]} for g in got), key=lambda x: json.dumps(x, sort_keys=True))
            if got != want:
                bad = (kind, p, got, want)
                break
        if bad is None:
            for f, ds in diags:
                rel = f[3:]
                want = sorted((json.dumps(rng_json(w[rel], a, b), sort_keys=True), msg) for _, a, b, msg in ds)
                got = sorted((json.dumps(g["range"], sort_keys=True), g["message"]) for g in pubs.get(rel, []))
                if got != want:
                    bad = ("publishDiagnostics", f, got, want)
                    break
        if bad:
            ck.fail(sig, "%s for %s: the range sent to the client does not denote the analysed span in the named document" % (bad[0], bad[1]),
                    case, json.dumps(bad[2])[:600], json.dumps(bad[3])[:600])
    # republished diagnostics: an edit that keeps every BYTE offset and message but changes the line structure (a blank becomes a
    # line break, a 2-byte character becomes two ASCII letters); what the client holds afterwards must denote the spans in the
    # NEW text
    rlines, rmeta = [], []
    for i, w in enumerate(wss):
        m1 = w["main.td"]
        variants = []
        k = m1.find(" : ")
        if k >= 0:
            variants.append(m1[:k] + "\n" + m1[k + 1:])
        k = m1.find("\u00fc")       # `ü` (2 bytes, 1 UTF-16 unit) -> `ue` (2 bytes, 2 units)
        if k >= 0:
            variants.append(m1[:k] + "ue" + m1[k + 1:])
        k = m1.find("\r\n")
        if k >= 0:
            variants.append(m1[:k] + "\n " + m1[k + 2:])
        for vi, m2 in enumerate(variants):
            if len(m2.encode()) != len(m1.encode()):
                continue
            d = "%s/tmp/c09r_%d_%d" % (core.BUILD, i, vi)
            script = [["open", "main.td", m1], ["idle"], ["change", "main.td", m2], ["idle"]]
            rlines.append("srv " + json.dumps({"dir": d, "disk": {k_: v for k_, v in w.items() if k_ != "main.td"}, "script": script, "timeout_ms": 10000, **({"caps": "full"} if len(script) % 2 else {})}))
            w2 = dict(w)
            w2["main.td"] = m2
            rmeta.append((w2, d))
    rres = core.impl(rlines, timeout=300, jobs=8, tag="r09")
    rides = core.impl(["ws " + json.dumps({"files": {"/w/" + k_: v for k_, v in w2.items()}, "root": "/w/main.td", "queries": [["diagnostics"]]}) for w2, _ in rmeta],
                      timeout=120, tag="ri09")
    for (w2, d), r, o in zip(rmeta, rres, rides):
        try:
            data = json.loads(r)
            diags = json.loads(o)[0]
        except Exception:
            continue
        if data.get("timeout"):
            ck.fail(["C09", "republish", "timeout"], "session with an edit does not become idle", {"files": w2}, None, "idle")
            continue
        pubs = {}
        for m in data["msgs"]:
            if m.get("method") == "textDocument/publishDiagnostics":
                pubs[urllib.parse.unquote(m["params"]["uri"]).rsplit("/", 1)[1]] = m["params"]["diagnostics"]
        for f, ds in diags:
            rel = f[3:]
            want = sorted((json.dumps(rng_json(w2[rel], a, b), sort_keys=True), msg) for _, a, b, msg in ds)
            got = sorted((json.dumps(g["range"], sort_keys=True), g["message"]) for g in pubs.get(rel, []))
            if got != want:
                ck.fail(["C09", "location", "republish:" + core.sig_hash(w2)], "publishDiagnostics for %s after an edit that keeps byte offsets but changes the line structure: "
                        "the range the client holds does not denote the analysed span in the current text" % f, {"files": w2}, json.dumps(got)[:600], json.dumps(want)[:600])
                break
    ck.count("republish", len(rlines), {core.sig_hash(l) for l in rlines}, sample={"line": rlines[0][:300]} if rlines else None)
    # edits of a document that is included back by a file it includes (mutual headers, a longer cycle, a self-include): while the
    # includes are walked the edited document is read again; what the client holds afterwards must denote spans in the text it shows
    clines, cmeta = [], []
    tops = ["// one more line\n", "// \u65e5\u672c\n\n", "/* a\r\n b */\r\n"]
    for ci, (disk, doc, edits) in enumerate([
            ({"a.td": 'include "b.td"\nclass Foo : Bar;\ndef x : Foo, Missing;\n', "b.td": 'include "a.td"\nclass Bar;\n'}, "a.td", 1),
            ({"a.td": 'include "b.td"\nclass Foo : Bar;\ndef x : Foo, Missing;\n', "b.td": 'include "a.td"\nclass Bar;\n'}, "a.td", 2),
            ({"a.td": 'include "b.td"\nclass Foo : Bar;\n', "b.td": 'include "a.td"\nclass Bar;\ndef y : Bar, Missing;\n'}, "b.td", 1),
            ({"a.td": 'include "b.td"\ndef x : Missing;\n', "b.td": 'include "c.td"\n', "c.td": 'include "a.td"\nclass C;\n'}, "a.td", 2),
            ({"a.td": 'include "a.td"\ndef x : Missing;\n'}, "a.td", 1),
            ({"a.td": 'include "b.td"\ndef x : Missing;\n', "b.td": 'class Bar;\n'}, "a.td", 2)]):
        for ti, top in enumerate(tops):
            text = disk[doc]
            script = [["open", doc, text], ["idle"]]
            for e in range(edits):
                text = top + text
                script += [["change", doc, text], ["idle"]]
            d = "%s/tmp/c09c_%d_%d" % (core.BUILD, ci, ti)
            clines.append("srv " + json.dumps({"dir": d, "disk": disk, "script": script, "timeout_ms": 10000, **({"caps": "full"} if (ci + ti) % 2 else {})}))
            w2 = dict(disk)
            w2[doc] = text
            cmeta.append((w2, doc))
    cres = core.impl(clines, timeout=300, jobs=8, tag="c09")
    cides = core.impl(["ws " + json.dumps({"files": {"/w/" + k_: v for k_, v in w2.items()}, "root": "/w/" + doc, "queries": [["diagnostics"]]}) for w2, doc in cmeta], timeout=120, tag="ci09")
    for (w2, doc), r, o in zip(cmeta, cres, cides):
        try:
            data = json.loads(r)
            diags = json.loads(o)[0]
        except Exception:
            ck.fail(["C09", "cyclic-edit", "abort"], "session aborts: %s" % r[:80], {"files": w2, "document": doc}, r[:200], "answers")
            continue
        if data.get("timeout"):
            ck.fail(["C09", "cyclic-edit", "timeout"], "session with an edit does not become idle", {"files": w2, "document": doc}, None, "idle")
            continue
        pubs = {}
        for m in data["msgs"]:
            if m.get("method") == "textDocument/publishDiagnostics":
                pubs[urllib.parse.unquote(m["params"]["uri"]).rsplit("/", 1)[1]] = m["params"]["diagnostics"]
        for f, ds in diags:
            rel = f[3:]
            want = sorted((json.dumps(rng_json(w2[rel], a, b), sort_keys=True), msg) for _, a, b, msg in ds)
            got = sorted((json.dumps(g["range"], sort_keys=True), g["message"]) for g in pubs.get(rel, []))
            if got != want:
                ck.fail(["C09", "location", "cyclic-edit:" + core.sig_hash(w2)], "publishDiagnostics for %s after edits of %s, which is included back by a file it includes: "
                        "the range the client holds does not denote the analysed span in the current text" % (f, doc), {"files": w2, "document": doc}, json.dumps(got)[:600], json.dumps(want)[:600])
                break
    ck.count("cyclic_edits", len(clines), {core.sig_hash(l) for l in clines}, sample={"line": clines[0][:300]})
    # the conversion layer model (TgModel/Lsp.lean; theorems K_denotes / server_locations_denote_all of Props/C09.lean): the model's
    # LSP answer for the ide-level answer must be what the reference mapper expects (which the server's JSON was compared with above)
    mlines, mmeta = [], []
    for (w, diags, reqs, d) in metas:
        files = {"/w/" + k: v for k, v in w.items()}
        def add(kind, file, answer, want):
            q = {"files": files, "kind": kind, "answer": answer}
            if file is not None:
                q["file"] = file
            mlines.append("lspmap " + json.dumps(q))
            mmeta.append((kind, file, want, w))
        rj = lambda text, a, b: [list(to_pos(text, a)), list(to_pos(text, b))]
        def symw(text, s_):
            return {"name": s_["name"], "range": rj(text, s_["range"][0], s_["range"][1]), "children": [symw(text, c) for c in s_["children"]]}
        seen = set()
        for rid, kind, p, exp in reqs:
            if kind == "definition":
                add("definition", None, exp, None if exp is None else {"uri": exp[0], "range": rj(w[exp[0][3:]], exp[1], exp[2])})
            elif kind == "references":
                add("references", None, exp, None if exp is None else [{"uri": x[0], "range": rj(w[x[0][3:]], x[1], x[2])} for x in exp])
            elif (kind, p) in seen:
                continue
            elif kind == "documentSymbol":
                add("document_symbol", p, exp["symbols"], None if exp["symbols"] is None else [symw(w[p[3:]], s_) for s_ in exp["symbols"]])
            elif kind == "foldingRange":
                add("folding_range", p, exp["folding"], None if exp["folding"] is None else [[to_pos(w[p[3:]], a)[0], to_pos(w[p[3:]], b)[0]] for a, b in exp["folding"]])
            elif kind == "documentLink":
                add("document_link", p, exp["links"], None if exp["links"] is None else [{"range": rj(w[p[3:]], a, b), "target": t} for a, b, t in exp["links"]])
            elif kind == "inlayHint":
                add("inlay_hint", p, exp["hints"], None if exp["hints"] is None else [{"label": h[1], "position": list(to_pos(w[p[3:]], h[0]))} for h in exp["hints"]])
            seen.add((kind, p))
        add("diagnostics", None, diags, [[f, [{"message": msg, "range": rj(w[f[3:]], a, b)} for _, a, b, msg in ds]] for f, ds in diags])
    mo2 = core.model(mlines, timeout=300, tag="lm09")
    def strip(kind, x):
        if x is None:
            return None
        if kind == "document_symbol":
            def st(s_):
                return {"name": s_["name"], "range": s_["range"], "children": [st(c) for c in (s_.get("children") or [])]}
            return [st(s_) for s_ in x]
        if kind == "inlay_hint":
            return [{"label": h["label"], "position": h["position"]} for h in x]
        return x
    nlm = 0
    for (kind, file, want, w), r in zip(mmeta, mo2):
        try:
            got = strip(kind, json.loads(r))
        except Exception:
            got = r[:200]
        if kind == "document_symbol" and got is not None and want is not None:
            ok = got == want and all(s_.get("selection_range", s_["range"]) == s_["range"] for s_ in json.loads(r))
        else:
            ok = got == want
        if not ok:
            nlm += 1
            if nlm <= 3:
                ck.broke("correspondence", {"stream": "lsp-conversion-model", "kind": kind, "file": file, "files": w, "model": json.dumps(got)[:400], "reference": json.dumps(want)[:400]})
    ck.count("lsp_conversion_model", len(mlines), {core.sig_hash(l) for l in mlines}, sample={"line": mlines[0][:300], "model": mo2[0][:200]}, model_disagreements=nlm)
    ck.count("workspaces", len(wss), nontriv, sample={"files": wss[0]}, requests=sum(len(m[2]) for m in metas))
    return ck.finish(extra_cov={"traces_validated_against_impl": len(wss)}, **FINISH)


def unquote_uris(x):
    """URIs are compared after percent-decoding (file names may be non-ASCII)"""
    if isinstance(x, list):
        return [unquote_uris(y) for y in x]
    if isinstance(x, dict):
        return {k: (urllib.parse.unquote(v) if k in ("uri", "target") and isinstance(v, str) else unquote_uris(v)) for k, v in x.items()}
    return x


def sym_json(text, s):
    r = rng_json(text, s["range"][0], s["range"][1])
    out = {"name": s["name"], "range": r, "selectionRange": r}
    if s["children"]:
        out["children"] = [sym_json(text, c) for c in s["children"]]
    return out


def sym_strip(s):
    out = {"name": s["name"], "range": s["range"], "selectionRange": s["selectionRange"]}
    if s.get("children"):
        out["children"] = [sym_strip(c) for c in s["children"]]
    return out


def replay(ck, path):
    with open(path) as f:
        rp = json.load(f)
    print(json.dumps(rp)[:3000])
    return 1
