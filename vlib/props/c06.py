"""C06 definition/reference coherence: proof on the SymbolMap model for arbitrary operation logs
+ replay of the real indexer's operation log through the model (op-sequence correspondence)
+ the four coherence clauses evaluated directly on Analysis::goto_definition/references."""
import json

from .. import core, gen
from ..core import hexs

TRUSTED = [
    "Lean 4.33 kernel; axioms per theorem under coverage.theorems",
    "hand-written model SymbolMap.lean tied to ide/src/symbol_map.rs by replaying the real operation log (hook) and comparing find_symbol_at-based answers at identifier offsets",
    "iset::IntervalMap: insert replaces an equal interval, point lookup returns the first overlapping interval in (start,end) order, half-open intervals (read off the iset source)",
    "the log hypotheses TextOk / DisjointLocs / RefStable / NamedRefs / RefsValid are evaluated on every real log by the check, not proved for the indexer",
]
RULE = ("workspaces: seed programs, grammar-derived sentences over a small identifier pool (so that names resolve), their "
        "token mutations, two-file include workspaces, include graphs with cycles through the root/self-includes/diamonds over a shared name pool, corpus files; queries at start/inside/end of identifier tokens and "
        "between tokens; a workspace is non-trivial if its op log contains at least one reference")
FINISH = dict(level="proof", trusted_base=TRUSTED, rule=RULE)

SEEDS = [
    "class A<int x> { int f = x; } class B : A<1> { let f = 2; int g = f; } def d : B;",
    "class A; class A { int a; } def x : A; def y : A { let a = 1; }",
    "multiclass M<int p> { def _a { int v = p; } } defm m : M<1>; defm : M<2>;",
    "defset list<A> S = { def q; } class A; defvar v = S; foreach i = [1,2] in { def z#i { int k = i; } }",
    "class A { int x; } class B : A { let x = 1; int y = x; } class C : B { let x = 2; let y = x; }",
    "defvar a = 1; defvar a = a; def a; class a; defvar b = a;",
    "class R<int a, int a> { int a = a; } def r : R<1, 2> { let a = a; }",
    "class A : A { let x = 1; }",
    "def d { int x = !foldl(0, [1], acc, v, !add(acc, v)); list<int> l = !foreach(v, [1], v); }",
    "class P<string s = \"a\" # \"b\"> { string t = s # NAME; } def : P; def : P<\"x\">;",
    # names the indexer makes up itself, spelled out by the user
    "class Foo; def : Foo; def user { Foo f = anonymous_0; }",
    "class Foo; multiclass M { def _x; } def anonymous_1 : Foo; defm : M; def : Foo { int n = 1; } def user { Foo f = anonymous_1; list<Foo> l = [anonymous_1, anonymous_0]; }",
    "class Reg; multiclass MC { def _lo : Reg; } defm D : MC; class Use<int n, Reg r = D_lo>; def X : Use<1, D_lo> { Reg q = D_lo; }",
    "def { int w = 1; } def { int w = 2; } defvar a = anonymous_0; defvar b = anonymous_1.w; def anonymous_0; defvar c = anonymous_0;",
    # named template arguments (the name is a reference to the parameter), bit-range lets, a defm inside a defset, re-declared fields
    "class A<int x, int y = 0> { bits<4> f; int g = x; } def d : A<x = 1> { let f{1-0} = 1; } def e : A<y = 2, x = 3>; def h : A<1, y = 2> { let f{3} = y; }",
    "class A<int x>; multiclass M<int q> { def _m : A<x = q>; } defset list<A> s = { defm in_s : M<q = 1>; def plain : A<x = 2>; } defvar v = s;",
    "class A { int x = 0; int y = x; } class B : A { int x = 1; int z = x; } def d : B { int x = 2; int w = x; let y = x; }",
    "class A; def \"a\" \"b\" : A; def \"c\" : A; def \"\" : A; def \"a\" # \"b\" : A; def user { A r = c; }",
    # one name token that several declarations could claim: a top-level `let` over defs that get the field from different declarations
    # (different classes, a body `let` in between, the parents in either order), nested lets of one field, a `let` over an include
    "class C { int X = 0; } class R { int X = 0; } let X = 1 in { def D1 : C; def D2 : R; } def use { int a = D1.X; int b = D2.X; }",
    "class C { int X = 0; } class D : C { let X = 1; } let X = 2 in { def a : C; def b : D; } let X = 3 in let X = 4 in def c : D;",
    "class C { int X = 0; } class R { int X = 0; } let X = 1 in { def a : C, R; def b : R, C; def c : C { let X = 5; } } let X = 7, X = 8 in def e : R;",
    "class C { int X = 0; string N = \"\"; } multiclass M { def _a : C; } let X = 1, N = \"n\" in { defm m : M; foreach i = [1, 2] in def f#i : C { int Y = X; } }",
]


PRELUDE = ("class A; class B<int x, int y = 1> { int f = x; } class Foo { int v1; string _t; } class Bar : Foo { let v1 = 2; }\n"
           "def Inst; def Reg : Bar; multiclass M<int i> { def _q { int y = i; } } defvar v1 = 1; defset list<A> x = { def i : A; } def : Foo { int af = 1; } defm : M<1>; defm m : M<2>;\n")


def workspaces(ck):
    rng = ck.rng
    quick = ck.tier == "quick"
    out = [({"/main.td": s}, "/main.td") for s in SEEDS]
    for _ in range(250 if quick else 20000):
        toks = gen.sentence(rng, budget=rng.choice([5, 7, 9]))
        if rng.random() < 0.4:
            toks = gen.mutate(rng, toks)
        pre = PRELUDE if rng.random() < 0.8 else ""
        out.append(({"/main.td": pre + gen.render(rng, toks, rng.choice(["spaced", "messy"]))}, "/main.td"))
    for _ in range(60 if quick else 4000):
        a = gen.render(rng, gen.sentence(rng, budget=6), "spaced")
        b = gen.render(rng, gen.sentence(rng, budget=6), "spaced")
        c = gen.render(rng, gen.sentence(rng, budget=4), "spaced")
        out.append(({"/main.td": 'include "inc.td"\n' + a + '\ninclude "inc.td"\n', "/inc.td": 'include "sub/c.td"\n' + PRELUDE + b, "/sub/c.td": c}, "/main.td"))
    # include graphs with cycles (through the root too), self-includes and diamonds; the same few names are declared and
    # used before and after the include statements of every file
    frags = ["class A;", "class B : A;", "class A { int f = v; }", "defvar v = 1;", "defvar w = v;", "def d : A;", "def e : B { int g = v; }",
             "class B<int v> : A { int h = v; }", "defvar v = w;", "multiclass A { def x : B; }", "defm m : A;", "def d;", "class d : d;",
             "def : A;", "def : B { int n = v; }", "def u : A { A f = anonymous_0; }", "defvar z = anonymous_1;", "defm : A;", "def anonymous_0;"]
    names = ["/main.td", "/sub.td", "/dir/c.td"]
    for _ in range(200 if quick else 15000):
        nfiles = rng.choice([1, 2, 2, 3])
        ws = {}
        for i in range(nfiles):
            parts = [rng.choice(frags) for _ in range(rng.randint(1, 4))]
            for _ in range(rng.randint(1, 2)):
                tgt = rng.choice(names[:nfiles])
                rel = {"/main.td": "main.td", "/sub.td": "sub.td", "/dir/c.td": "dir/c.td"}[tgt]
                if names[i] == "/dir/c.td":
                    rel = {"/main.td": "../main.td", "/sub.td": "../sub.td", "/dir/c.td": "c.td"}[tgt]
                parts.insert(rng.randint(0, len(parts)), 'include "%s"' % rel)
            ws[names[i]] = " ".join(parts) + "\n"
        out.append((ws, "/main.td"))
    # twin files: two or three included files with the same layout, so that one symbol is referenced at the SAME byte range
    # in several files (consecutive entries of its reference list differ only in the file)
    lib = ("class A<int p = 0> { int f = p; }\nclass B : A;\ndef shared : A;\nmulticlass M<int q> { def _x : A<q>; }\ndefvar gv = 1;\n"
           "defset list<A> S = { def ins : A; }\n")
    twin_bodies = ["def u%d : A<gv> { let f = gv; }\n", "defm m%d : M<gv>;\nclass C%d : B;\n", "def v%d { A r = shared; list<A> l = S; int k = gv; }\n",
                   "class D%d<A a = shared> : A<1> { int g = a.f; }\n", "foreach i = [gv] in def w%d#i : B { let f = i; }\n"]
    for tb in twin_bodies:
        for n in (2, 3):
            ws = {"/main.td": 'include "lib.td"\n' + "".join('include "t%d.td"\n' % k for k in range(n)) + (tb.replace("%d", "9")), "/lib.td": lib}
            for k in range(n):
                ws["/t%d.td" % k] = tb.replace("%d", str(k))
            out.append((ws, "/main.td"))
    files = gen.corpus_files()
    for name, t in (files[:6] if quick else files):
        if len(t) < (40000 if quick else 400000):
            out.append(({"/main.td": t}, "/main.td"))
    return out


def positions(idents, textlen, rng, cap):
    ps = set()
    chosen = idents if len(idents) <= cap else rng.sample(idents, cap)
    for a, b, _ in chosen:
        ps.update([a, (a + b) // 2, b - 1, b])
        if a > 0:
            ps.add(a - 1)
    ps.update([0, textlen])
    return sorted(p for p in ps if 0 <= p <= textlen)


def check_log(ops, files):
    """evaluates the hypotheses of the C06 theorems on a real log; returns list of violated names"""
    bad = []
    syms = []
    regs = []
    for op in ops:
        if op[0] in ("D", "A"):
            syms.append((op[0], op[1]))
            if op[0] == "D":
                regs.append((tuple(op[2:5]), len(syms) - 1, "D"))
                txt = files.get(op[2], "").encode()[op[3]:op[4]].decode("utf-8", "replace")
                if txt != op[1]:
                    bad.append("TextOk(define %r at %s)" % (op[1], op[2:5]))
        else:
            if not (isinstance(op[1], int) and op[1] < len(syms)):
                bad.append("RefsValid")
                continue
            if syms[op[1]][0] != "D":
                bad.append("NamedRefs")
            regs.append((tuple(op[2:5]), op[1], "R"))
            txt = files.get(op[2], "").encode()[op[3]:op[4]].decode("utf-8", "replace")
            if txt != syms[op[1]][1]:
                bad.append("TextOk(reference %r at %s)" % (syms[op[1]][1], op[2:5]))
    nonempty = sorted({r[0] for r in regs if r[0][2] > r[0][1]})
    for x, y in zip(nonempty, nonempty[1:]):
        if x[0] == y[0] and y[1] < x[2]:
            bad.append("DisjointLocs(%s,%s)" % (x, y))
            break
    seen_ref = {}
    for loc, s, k in regs:
        if loc in seen_ref and seen_ref[loc] != s:
            bad.append("RefStable(%s)" % (loc,))
            break
        if k == "R":
            seen_ref[loc] = s
    return bad


def run(ck):
    ck.proof = core.proof_stage("C06")
    if not ck.proof["ok"]:
        ck.broke("proof", {"theorem_file": "lean/TgModel/Props/C06.lean", "detail": ck.proof["detail"]})
    if not core.ensure_built(ck):
        return ck.finish(**FINISH)
    rng = ck.rng
    wss = workspaces(ck)
    # round 1: op log + identifier tokens
    r1 = core.impl(["ws " + json.dumps({"files": f, "root": r, "oplog": True, "queries": [["idents", p] for p in sorted(f)]}) for f, r in wss],
                   timeout=120, tag="c06a")
    cases = []
    for (files, root), o in zip(wss, r1):
        key = core.sig_hash(files)
        if o.startswith(("PANIC", "CRASH", "HANG", "SKIPPED")):
            ck.fail(["C06", "analysis-abort", key], "analysis aborts on a workspace: %s" % o[:60], {"files": trunc(files), "root": root}, o[:200], "an answer")
            continue
        try:
            d = json.loads(o)
        except Exception:
            continue
        if isinstance(d["ops"], dict):
            ck.fail(["C06", "index-panic", key], "indexing panics", {"files": trunc(files), "root": root}, str(d["ops"])[:200], "an index")
            continue
        paths = sorted(files)
        qs, meta = [], []
        for p, ids in zip(paths, d["r"]):
            if not isinstance(ids, list):
                continue
            for pos in positions(ids, len(files[p].encode()), rng, 60 if ck.tier == "quick" else 400):
                qs.append(["goto", p, pos])
                qs.append(["references", p, pos])
                meta.append((p, pos))
        cases.append((files, root, d["ops"], dict(zip(paths, d["r"])), qs, meta))
    r2 = core.impl(["ws " + json.dumps({"files": f, "root": r, "queries": qs}) for f, r, _, _, qs, _ in cases], timeout=300, tag="c06b")
    mlines = []
    for files, root, ops, ids, qs, meta in cases:
        paths = sorted(files)
        fidx = {p: i for i, p in enumerate(paths)}
        enc = []
        for op in ops:
            if op[0] in ("D", "A"):
                enc.append("%s,%s,%d,%d,%d" % (op[0], hexs(op[1]) or "", fidx.get(op[2], 99), op[3], op[4]))
            else:
                enc.append("R,%d,%d,%d,%d" % (op[1] if isinstance(op[1], int) and op[1] < 10 ** 9 else 999999999, fidx.get(op[2], 99), op[3], op[4]))
        mlines.append("symmap %s %s" % (";".join(enc) or "X", ",".join("%d:%d" % (fidx[p], pos) for p, pos in meta) or "0:0"))
    r3 = core.model(mlines, timeout=300, tag="c06m")
    ndis = 0
    nontriv = set()
    for (files, root, ops, ids, qs, meta), o, mo in zip(cases, r2, r3):
        key = core.sig_hash(files)
        paths = sorted(files)
        if any(op[0] == "R" for op in ops):
            nontriv.add(key)
        try:
            res = json.loads(o)
        except Exception:
            ck.fail(["C06", "analysis-abort", key], "queries abort: %s" % o[:60], {"files": trunc(files), "root": root}, o[:200], "answers")
            continue
        # hypotheses of the theorems on the real log
        viol = check_log(ops, files)
        if viol:
            ck.broke("log-hypothesis", {"violated": viol[:4], "files": trunc(files), "note": "the C06 theorems do not apply to this log"})
        # correspondence: model replay
        manswers = mo.split(" ")
        canon = []
        for i, (p, pos) in enumerate(meta):
            g, r = res[2 * i], res[2 * i + 1]
            gs = "G-" if g is None else "G%d:%d:%d" % (paths.index(g[0]) if g[0] in paths else 99, g[1], g[2])
            rs = "R-" if r is None else "R[" + ",".join("%d:%d:%d" % (paths.index(x[0]) if x[0] in paths else 99, x[1], x[2]) for x in r) + "]"
            canon.append(gs + "|" + rs)
        if canon != manswers[:len(canon)]:
            ndis += 1
            if ndis <= 3:
                j = next((k for k, (x, y) in enumerate(zip(canon, manswers)) if x != y), 0)
                ck.broke("correspondence", {"stream": "oplog-replay", "files": trunc(files), "query": meta[j] if j < len(meta) else None,
                                            "impl": canon[j] if j < len(canon) else None, "model": manswers[j] if j < len(manswers) else None})
        # oracle: the four clauses on the implementation
        tok_at = {}
        for p in paths:
            for a, b, t in (ids.get(p) if isinstance(ids.get(p), list) else []):
                tok_at[(p, a, b)] = t
        goto = {}
        refs = {}
        for i, (p, pos) in enumerate(meta):
            goto[(p, pos)] = res[2 * i]
            refs[(p, pos)] = res[2 * i + 1]
        for (p, pos), g in goto.items():
            if g is None:
                continue
            cur = [(a, b, t) for (pp, a, b), t in tok_at.items() if pp == p and a <= pos < b]
            sig = ["C06", "incoherent", core.sig_hash([trunc(files), p, pos])]
            case = {"files": trunc(files), "root": root, "query": ["goto", p, pos]}
            if not cur:
                ck.fail(sig, "go-to-definition answers at an offset that is not inside an identifier", case, g, None)
                continue
            a, b, t = cur[0]
            tgt = tok_at.get((g[0], g[1], g[2]))
            if tgt is None:
                # a record declared with a string name (`def "c" : A;`): the target is the name inside the literal - the same
                # text, but not an identifier token (listed finding; anything else stays a violation of its own)
                ftext = files.get(g[0], "").encode("utf-8")
                inner = ftext[g[1]:g[2]].decode("utf-8", "replace")
                if inner == t and g[1] > 0 and ftext[g[1] - 1:g[1]] == b'"' and ftext[g[2]:g[2] + 1] == b'"':
                    ck.fail("C06|target-in-string-name", "go-to-definition on a use of a record declared with a string name lands on the name inside the string literal, "
                            "which is not an identifier token (its text equals the identifier)", case, g, t)
                    tgt = t      # the remaining clauses are still checked for this position
            if tgt is None or tgt != t:
                ck.fail(sig, "definition target is not an identifier with the text under the cursor (%r vs %r)" % (tgt, t), case, g, t)
                continue
            rl = refs.get((p, pos)) or []
            okref = True
            for r in rl:
                if tok_at.get((r[0], r[1], r[2])) != t:
                    ck.fail(sig, "a reference range is not an identifier with the same text", case, r, t)
                    okref = False
                    break
                g2 = goto.get((r[0], r[1]))
                if (r[0], r[1]) in goto and g2 != g:
                    ck.fail(sig, "go-to-definition from a reference gives a different target", case, g2, g)
                    okref = False
                    break
            if okref and not ([p, a, b] == g or [p, a, b] in rl):
                ck.fail(sig, "the identifier under the cursor is neither the target nor one of the references", case, {"target": g, "refs": rl[:5]}, [p, a, b])
    st = ck.cov["streams"].setdefault("workspaces", {"evaluations": 0, "distinct_nontrivial": 0})
    st["model_disagreements"] = ndis
    nq = sum(len(c[5]) for c in cases)
    ck.count("workspaces", len(cases), nontriv, sample={"files": trunc(cases[0][0]), "ops": cases[0][2][:8]}, queries=2 * nq)
    return ck.finish(extra_cov={"traces_validated_against_impl": len(cases)}, **FINISH)


def trunc(files):
    return {p: (t if len(t) < 1500 else t[:1500] + "...[%d bytes]" % len(t)) for p, t in files.items()}


def replay(ck, path):
    with open(path) as f:
        rp = json.load(f)
    case = rp.get("case", {})
    core.build_harness()
    if "query" in case:
        q = case["query"]
        o = core.impl(["ws " + json.dumps({"files": case["files"], "root": case.get("root", "/main.td"), "oplog": True,
                                           "queries": [q, ["references", q[1], q[2]]]})])
        print(o[0][:2000])
    else:
        print(json.dumps(rp)[:1500])
    return 1
