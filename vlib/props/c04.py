"""C04 grammar conformance: documented sentences parse clean, non-sentences are flagged."""
import json

from .. import core, gen, earley
from ..core import hexs

TRUSTED = [
    "Lean 4.33 kernel; axioms per theorem under coverage.theorems",
    "vlib/gen.py GRAMMAR is a hand transcription of /repo/syntax.md extended by the rule comments in grammar/*.rs; the same grammar is stated in Lean (GrammarSpec.lean)",
    "the Earley recogniser (vlib/earley.py) decides derivability of token-kind sequences for the converse direction: that part is testing, labelled as such",
    "parser model Grammar.lean tied to grammar/*.rs by tree correspondence",
]
RULE = ("sentences derived from the documented grammar (every alternative of every rule covered, coverage measured) rendered "
        "spaced/tight/messy; all single token deletions/duplications/transpositions and sampled insertions/replacements of short "
        "sentences, classified by the Earley recogniser; the 39 LLVM corpus files; a case is one distinct token-kind sequence")
FINISH = dict(level="proof", trusted_base=TRUSTED, rule=RULE)


def kinds_of(toks, tables_bang):
    out = []
    for k, text in toks:
        if k == "BANGOP":
            out.append(tables_bang.get(text[1:], "XAdd"))
        else:
            out.append(k)
    return out


def lex_kinds(lexout):
    ks = []
    for item in lexout.split(" "):
        k = item.split(":")[0]
        if k in ("Whitespace", "LineComment", "BlockComment", "PreProcessor", "Eof"):
            continue
        ks.append(k)
    return ks


def run(ck):
    ck.proof = core.proof_stage("C04")
    if not ck.proof["ok"]:
        ck.broke("proof", {"theorem_file": "lean/TgModel/Props/C04.lean", "detail": ck.proof["detail"]})
    if not core.ensure_built(ck):
        return ck.finish(**FINISH)
    rng = ck.rng
    quick = ck.tier == "quick"
    t = core.tables()
    bang = {k: v for k, v in t["bang_table"]}
    # ---- (a) sentences parse clean
    cover = set()
    sents = []
    for nt in list(gen.GRAMMAR):
        for _ in range(6 if quick else 60):
            toks = gen.sentence(rng, nt if nt in ("SourceFile", "Statement") else "Statement", budget=rng.choice([3, 5, 7, 9]), cover=cover)
            sents.append(toks)
    for _ in range(300 if quick else 6000):
        sents.append(gen.sentence(rng, "SourceFile", budget=rng.choice([4, 6, 8, 10]), cover=cover))
    total_alts = sum(1 for e in all_alts())
    texts = [gen.render(rng, s, rng.choice(["spaced", "tight", "messy"])) for s in sents]
    a, b = core.compare(ck, "sentences", texts, lambda s: "parse %s" % hexs(s))
    nontriv = set()
    for toks, text, r in zip(sents, texts, a):
        ks = tuple(kinds_of(toks, bang))
        nontriv.add(ks)
        if not r.endswith("errs="):
            ck.fail(["C04", "sentence-rejected", " ".join(ks[:40])], "a sentence of the documented grammar yields syntax errors: %s" % text[:80],
                    {"cmd": "parse", "text_hex": hexs(text)}, r[-200:], "zero errors")
    ck.count("sentences", len(sents), nontriv, sample={"text": texts[0][:100]}, alternatives_covered=len(cover), alternatives_total=total_alts)
    # ---- (b) non-sentences are flagged
    muts = []
    short = [s for s in sents if 2 <= len(s) <= 14]
    rng.shuffle(short)
    for s in short[: (120 if quick else 1500)]:
        n = len(s)
        for i in range(n):
            muts.append(s[:i] + s[i + 1:])                      # deletion
            muts.append(s[:i] + [s[i]] + s[i:])                  # duplication
            if i + 1 < n:
                muts.append(s[:i] + [s[i + 1], s[i]] + s[i + 2:])  # transposition
        for _ in range(3):
            muts.append(gen.mutate(rng, s))
            muts.append(gen.mutate(rng, gen.mutate(rng, s)))
    mtexts = [gen.render(rng, m, "spaced") for m in muts]
    la = core.impl(["lex %s" % hexs(x) for x in mtexts], tag="l04")
    pa, pb = core.compare(ck, "mutations", mtexts, lambda s: "parse %s" % hexs(s))
    seen = set()
    n_non = 0
    for m, text, lo, r in zip(muts, mtexts, la, pa):
        ks = tuple(lex_kinds(lo))
        if ks in seen:
            continue
        seen.add(ks)
        if "Error" in ks:
            continue   # lexical errors are always reported (C02/C14); the grammar question is about token sequences
        derivable = earley.accepts(list(ks))
        clean = r.endswith("errs=")
        if derivable and not clean:
            ck.fail(["C04", "sentence-rejected", " ".join(ks[:40])], "a derivable token sequence yields syntax errors: %s" % text[:80],
                    {"cmd": "parse", "text_hex": hexs(text)}, r[-200:], "zero errors")
        if not derivable:
            n_non += 1
            if clean:
                ck.fail(["C04", "nonsentence-accepted", shape(ks)], "a token sequence that is not derivable from the documented grammar parses with zero errors: %s" % text[:80],
                        {"cmd": "parse", "text_hex": hexs(text), "kinds": list(ks)}, "zero errors", "at least one syntax error")
    ck.count("mutations", len(muts), seen, sample={"text": mtexts[0][:100]}, non_sentences=n_non)
    # ---- corpus
    files = gen.corpus_files()
    ca, cb = core.compare(ck, "corpus", [x for _, x in files], lambda s: "parseh %s" % hexs(s))
    for (name, text), r in zip(files, ca):
        if not r.endswith("ne=0"):
            ck.fail(["C04", "corpus", name], "real-world LLVM file %s parses with syntax errors" % name, {"cmd": "parseh", "file": name}, r, "ne=0")
    ck.count("corpus", len(files), {n for n, _ in files}, sample={"file": files[0][0]})
    return ck.finish(**FINISH)


def shape(ks):
    """normalised signature of a non-sentence: the kind sequence (short) — findings are listed per shape"""
    return " ".join(ks) if len(ks) <= 12 else core.sig_hash(list(ks))


def all_alts():
    def walk(e):
        if e[0] == "alt":
            for x in e[1:]:
                yield x
        if e[0] in ("seq", "alt"):
            for x in e[1:]:
                yield from walk(x)
        elif e[0] in ("opt", "star", "plus"):
            yield from walk(e[1])
    for e in gen.GRAMMAR.values():
        yield from walk(e)


def replay(ck, path):
    with open(path) as f:
        rp = json.load(f)
    core.build_harness()
    hx = rp["case"].get("text_hex")
    if hx:
        print("text :", bytes.fromhex(hx).decode()[:300])
        print("impl :", core.impl(["parse %s" % hx])[0][-400:])
    return 1
