"""C04 grammar conformance: documented sentences parse clean, non-sentences are flagged.

Proof (Props/C04.lean): reporting discipline for every DSL program, the fragment theorem
`forward_partial` against the *regenerated* documented grammar, a type-level converse, and the
refutation of the full forward statement.  Tie: translator (syntax.md + rule comments -> Lean and
JSON grammar), parser model vs implementation on every generated text.  Search/oracle: an Earley
recogniser over token kinds for the documented grammar and for the documented grammar patched by
each listed deviation."""
import json

from .. import core, gen, docgrammar
from ..core import hexs

TRUSTED = [
    "Lean 4.33 kernel; axioms per theorem under coverage.theorems",
    "translator/extract_grammar.py reads syntax.md and the rule comments literally except for the listed errata (reported under coverage.errata); the Lean grammar table and the recogniser's grammar are generated from the same extraction",
    "the Earley recogniser (vlib/docgrammar.py) decides derivability of token-kind sequences; the converse direction outside the proved fragment is decided case by case by it: that part is testing, labelled as such",
    "parser model Grammar.lean tied to grammar/*.rs by tree correspondence on every text of this run",
    "typed-accessor reachability is not covered by a theorem; see level_note",
]
RULE = ("token-kind sequences: sentences generated from the documented grammar (every alternative / option / repetition count of "
        "every rule: coverage measured), sentences of the documented grammar patched by all listed deviations, all single token "
        "deletions, duplications, transpositions and sampled insertions/replacements of short sentences; each rendered to text "
        "(spaced/tight/messy trivia), parsed by implementation and model; the 39 vendored LLVM files; a case is one distinct "
        "token-kind sequence")
FINISH = dict(level="proof", trusted_base=TRUSTED, rule=RULE)


def kind_text(rng, kind, bang_text):
    if kind in gen.FIXED_TEXT:
        return gen.FIXED_TEXT[kind]
    if kind in bang_text:
        return "!" + bang_text[kind]
    return gen.tok_text(rng, kind)


def lex_kinds(lexout):
    ks = []
    for item in lexout.split(" "):
        k = item.split(":")[0]
        if k in ("Whitespace", "LineComment", "BlockComment", "Eof", ""):
            continue
        ks.append(k)
    return ks


def run(ck):
    ck.proof = core.proof_stage("C04")
    if not ck.proof["ok"]:
        ck.broke("proof", {"theorem_file": "lean/TgModel/Props/C04.lean", "detail": ck.proof["detail"]})
    if not core.ensure_built(ck):
        return ck.finish(**FINISH)
    rng = ck.rng
    quick = ck.tier == "quick"
    t = core.tables()
    bang_text = {v: k for k, v in t["bang_table"]}
    gdoc, meta = docgrammar.doc_grammar()
    restricts = [d for d in docgrammar.DEVIATIONS if d[1] == docgrammar.RESTRICT]
    extends = [d for d in docgrammar.DEVIATIONS if d[1] == docgrammar.EXTEND]
    g_restricted = {d[0]: docgrammar.with_deviations(gdoc, [d[0]]) for d in restricts}
    g_all = docgrammar.with_deviations(gdoc, [d[0] for d in docgrammar.DEVIATIONS])
    gdoc_relaxed = docgrammar.relax_trailing(gdoc)
    g_extended = {d[0]: docgrammar.relax_trailing(docgrammar.with_deviations(gdoc, [d[0]])) for d in extends}
    g_all_ext = docgrammar.relax_trailing(docgrammar.with_deviations(gdoc, [d[0] for d in extends]))

    # ---- token-kind sequences ------------------------------------------------------------------
    cover = set()
    seqs = []
    for nt in gdoc.rules:
        for _ in range(4 if quick else 40):
            start = nt if nt in ("SourceFile", "Statement") else "Statement"
            seqs.append(("doc", gdoc.sentence(rng, start, budget=rng.choice([3, 5, 7, 9]), cover=cover)))
    for _ in range(400 if quick else 8000):
        seqs.append(("doc", gdoc.sentence(rng, "SourceFile", budget=rng.choice([4, 6, 8, 10]), cover=cover)))
    for _ in range(300 if quick else 6000):
        seqs.append(("all", g_all.sentence(rng, "SourceFile", budget=rng.choice([4, 6, 8, 10]))))
    # every `X+` of the documented grammar expanded zero times (the lower bound of a repetition)
    for pp in gdoc.plus_paths():
        for _ in range(6 if quick else 60):
            z = gdoc.sentence_without(rng, pp, budget=rng.choice([4, 6, 8]))
            if z is not None:
                seqs.append(("zero-plus", z))
    # every statement form directly inside every container form, with and without braces, in the then and in the else
    # branch, one and two levels deep (`else if`, `foreach .. in let .. in def`, a class inside a defset inside an if, ...)
    stmt_nts = ["Assert", "Class", "Def", "Defm", "Defset", "Defvar", "Dump", "Foreach", "If", "Let", "MultiClass", "Include"]
    mc_nts = ["Def", "Defm", "Defvar", "Foreach", "If", "Let", "Assert", "Dump"]

    def wrap(kind, inner, braces, other=None):
        body = (["LBrace"] + inner + ["RBrace"]) if braces else inner
        if kind == "then":
            return ["If", "IntVal", "Then"] + body
        if kind == "else":
            return ["If", "IntVal", "Then"] + (other or ["Def", "Id", "Semi"]) + ["ElseKw"] + body
        if kind == "foreach":
            return ["Foreach", "Id", "Equal", "LSquare", "IntVal", "RSquare", "In"] + body
        if kind == "let":
            return ["Let", "Id", "Equal", "IntVal", "In"] + body
        if kind == "defset":
            return ["Defset", "Int", "Id", "Equal", "LBrace"] + inner + ["RBrace"]
        return ["MultiClass", "Id", "LBrace"] + inner + ["RBrace"]
    for _ in range(1 if quick else 6):
        for kind in ["then", "else", "foreach", "let", "defset", "multiclass"]:
            # (every statement form in every container, also those the container does not admit - a class, defset, multiclass or
            # include directly in a multiclass body is not derivable and must be rejected; the recogniser decides)
            for nt in stmt_nts:
                inner = gdoc.sentence(rng, nt, budget=rng.choice([2, 3, 4]))
                for braces in (False, True):
                    seqs.append(("nest", wrap(kind, inner, braces)))
                    if kind != "multiclass":
                        k2 = rng.choice(["then", "else", "foreach", "let", "defset"])
                        seqs.append(("nest", wrap(k2, wrap(kind, inner, braces), rng.random() < 0.5, other=gdoc.sentence(rng, "If", budget=3) if rng.random() < 0.3 else None)))
    # a statement cut short in front of the closing brace of every container (`foreach .. in { let A = 1 in }`): the end of a block
    # inside every construct, where the enclosing rule takes the brace as its own and somebody has to report what is missing
    for _ in range(1 if quick else 6):
        for nt in stmt_nts:
            full = gdoc.sentence(rng, nt, budget=rng.choice([2, 3, 4]))
            for cutat in range(1, len(full)):
                pre = full[:cutat]
                for kind in ["then", "else", "foreach", "let", "defset", "multiclass"]:
                    seqs.append(("cut-in-block", wrap(kind, pre, True)))
                    seqs.append(("cut-in-block", wrap(kind, ["Def", "Id", "Semi"] + pre, True)))
                k2 = rng.choice(["then", "else", "foreach", "let", "defset"])
                seqs.append(("cut-in-block", wrap(k2, wrap(rng.choice(["foreach", "let", "then"]), pre, True), True)))
    # value contexts: short `defvar a = <value>;` sentences covering the value rules (suffixes, slices, ranges, dags, lists, bits,
    # class values, operators), and EVERY insertion of a value-level token or short phrase (`# x`, `.f`, `{0}`, `[0]`, `<int>`,
    # `:$a`) at EVERY position: what may follow what inside a value
    vbases = []
    for _ in range(60 if quick else 600):
        v = gdoc.sentence(rng, "Value", budget=rng.choice([2, 3, 4, 5]))
        if 1 <= len(v) <= 9:
            vbases.append(["Defvar", "Id", "Equal"] + v + ["Semi"])
    vbases += [["Defvar", "Id", "Equal", "Id", "LSquare", "IntVal", "IntVal", "RSquare", "Semi"],            # x[0 -3]
               ["Defvar", "Id", "Equal", "Id", "LSquare", "IntVal", "DotDotDot", "IntVal", "RSquare", "Semi"],
               ["Defvar", "Id", "Equal", "Id", "LSquare", "IntVal", "Minus", "IntVal", "Comma", "Id", "RSquare", "Semi"],
               ["Defvar", "Id", "Equal", "Id", "LBrace", "IntVal", "IntVal", "RBrace", "Semi"],                # x{3 -0}
               ["Defvar", "Id", "Equal", "Id", "LBrace", "IntVal", "Minus", "IntVal", "Comma", "IntVal", "RBrace", "Semi"],
               ["Defvar", "Id", "Equal", "LParen", "Id", "Id", "Colon", "VarName", "Comma", "IntVal", "RParen", "Semi"]]
    # argument lists inside argument lists: named and positional arguments of an inner class value next to those of the outer list
    inner_named = ["Id", "Less", "Id", "Equal", "IntVal", "Greater"]
    inner_pos = ["Id", "Less", "IntVal", "Greater"]
    for outer_head in (["Def", "Id", "Colon"], ["Class", "Id", "Colon"], ["Defm", "Id", "Colon"], ["Defvar", "Id", "Equal"]):
        for args in ([inner_named, ["IntVal"]], [["IntVal"], inner_named], [inner_named, inner_pos], [inner_pos, inner_named, ["IntVal"]],
                     [["LSquare"] + inner_named + ["RSquare"], ["StrVal"]], [inner_named, ["Id", "Equal", "IntVal"]], [["Id", "Equal"] + inner_named, ["Id", "Equal", "IntVal"]],
                     [inner_named + ["Dot", "Id"], ["IntVal"], ["Id", "Equal", "IntVal"]]):
            flat = []
            for k_, a_ in enumerate(args):
                flat += ([] if k_ == 0 else ["Comma"]) + a_
            vbases.append(outer_head + ["Id", "Less"] + flat + ["Greater", "Semi"])
    phrases = [[k] for k in ["Paste", "Dot", "LBrace", "RBrace", "LSquare", "RSquare", "Less", "Greater", "Colon", "Comma", "IntVal", "Id", "StrVal",
                             "Minus", "DotDotDot", "Question", "LParen", "RParen", "Equal", "VarName"]]
    phrases += [["Paste", "Id"], ["Dot", "Id"], ["LBrace", "IntVal", "RBrace"], ["LSquare", "IntVal", "RSquare"], ["Less", "Int", "Greater"],
                ["Colon", "VarName"], ["Paste", "StrVal"], ["LSquare", "IntVal", "IntVal", "RSquare"], ["Dot", "Id", "Dot", "Id"]]
    vseen = set()
    for vb in vbases:
        if tuple(vb) in vseen:
            continue
        vseen.add(tuple(vb))
        seqs.append(("value-ctx", vb))
        for i in range(3, len(vb)):
            for ph in phrases:
                seqs.append(("value-ins", vb[:i] + ph + vb[i:]))
    base = [s for _, s in seqs if 2 <= len(s) <= 14]
    rng.shuffle(base)
    vocab = sorted({k for _, s in seqs for k in s})
    for s in base[: (150 if quick else 2500)]:
        n = len(s)
        for i in range(n):
            seqs.append(("mut", s[:i] + s[i + 1:]))
            seqs.append(("mut", s[:i] + [s[i]] + s[i:]))
            if i + 1 < n:
                seqs.append(("mut", s[:i] + [s[i + 1], s[i]] + s[i + 2:]))
        for _ in range(4):
            i = rng.randrange(n + 1)
            seqs.append(("mut", s[:i] + [rng.choice(vocab)] + s[i:]))
            i = rng.randrange(n)
            seqs.append(("mut", s[:i] + [rng.choice(vocab)] + s[i + 1:]))
    # distinct sequences only
    fixed_texts = [docgrammar.WITNESS[d[0]] for d in docgrammar.DEVIATIONS]
    seen = set()
    uniq = []
    for origin, s in seqs:
        key = tuple(s)
        if key in seen:
            continue
        seen.add(key)
        uniq.append((origin, s))
    texts = []
    # raw texts: every prefix of the seed programs (the end of input inside every construct, strings / code blocks / comments cut
    # short: lexical Error tokens in every position) - compared with the model; those without lexical errors are classified too
    from . import c02 as _c02
    cuts = []
    for sd in _c02.SEEDS:
        step = 1 if not quick else 2
        cuts += [sd[:i] for i in range(1, len(sd) + 1, step)]
    uniq = [("witness", None)] * len(fixed_texts) + [("text", t) for t in sorted(set(cuts))] + uniq
    for origin, s in uniq:
        if origin == "witness":
            texts.append(fixed_texts[len(texts)])
            continue
        if origin == "text":
            texts.append(s)
            continue
        toks = [(k, kind_text(rng, k, bang_text)) for k in s]
        texts.append(gen.render(rng, toks, rng.choice(["spaced", "spaced", "tight", "messy"])))
    la = core.impl(["lex %s" % hexs(x) for x in texts], tag="l04")
    pa, pb = core.compare(ck, "sequences", texts, lambda s: "parse %s" % hexs(s))
    counts = {"doc_sentences": 0, "non_sentences": 0, "relaxed_only": 0, "lexically_different": 0}
    nontriv = set()
    found = {}
    doc_clean = set()
    for (origin, s), text, lo, r in zip(uniq, texts, la, pa):
        ks = lex_kinds(lo)
        if "Error" in ks or "PreProcessor" in ks or any(k in ("Ifdef", "Ifndef", "Else", "Endif", "Define") for k in ks):
            counts["lexically_different"] += 1
            continue
        if origin not in ("witness", "text") and ks != s:
            counts["lexically_different"] += 1     # e.g. "1" "-" "2" rendered tight: judged on what the lexer delivers
        key = tuple(ks)
        if key in nontriv:
            continue
        nontriv.add(key)
        clean = r.endswith("errs=")
        in_doc = gdoc.accepts(ks)
        case = {"cmd": "parse", "text_hex": hexs(text), "kinds": ks[:80]}
        if in_doc:
            counts["doc_sentences"] += 1
            if clean:
                doc_clean.add(key)
            if not clean:
                why = [name for name, g in g_restricted.items() if not g.accepts(ks)]
                if why:
                    for name in why:
                        found.setdefault(("sentence-rejected", name), (text, case, r))
                else:
                    ck.fail(["C04", "sentence-rejected", shape(ks)], "a sentence of the documented grammar yields syntax errors and no listed deviation explains it: %s" % text[:100],
                            case, r[-200:], "zero errors")
            continue
        in_relaxed = gdoc_relaxed.accepts(ks)
        if in_relaxed:
            counts["relaxed_only"] += 1       # trailing separator: the property leaves it open
            continue
        counts["non_sentences"] += 1
        if clean:
            why = [name for name, g in g_extended.items() if g.accepts(ks)]
            if not why and g_all_ext.accepts(ks):
                # several extensions at once: attribute to every extension whose removal makes it underivable
                for d in extends:
                    others = [e[0] for e in extends if e[0] != d[0]]
                    if not docgrammar.relax_trailing(docgrammar.with_deviations(gdoc, others)).accepts(ks):
                        why.append(d[0])
            if why:
                for name in why:
                    found.setdefault(("nonsentence-accepted", name), (text, case, r))
            else:
                ck.fail(["C04", "nonsentence-accepted", shape(ks)], "a token sequence that is not derivable from the documented grammar (trailing separators allowed) "
                        "parses with zero errors and no listed deviation explains it: %s" % text[:100], case, "zero errors", "at least one syntax error")
    # a listed deviation must show on its own witness; one that does not is stale and must not be used to explain anything
    stale = [d[0] for d in docgrammar.DEVIATIONS if not any(k[1] == d[0] for k in found)]
    if stale:
        ck.notes.append("listed deviations whose witness no longer shows them (not used as explanations): %s" % stale)
        for kind_name in [k for k in found if k[1] in stale]:
            del found[kind_name]
    desc = {d[0]: d[3] for d in docgrammar.DEVIATIONS}
    for (kind, name), (text, case, r) in sorted(found.items()):
        ck.fail(["C04", kind, name], "%s [%s]; e.g. %s" % (desc[name], "documented sentence rejected" if kind == "sentence-rejected" else "undocumented input accepted without error",
                                                          " ".join(text.split())[:80]), case, r[-160:] if kind == "sentence-rejected" else "zero errors",
                "zero errors" if kind == "sentence-rejected" else "at least one syntax error")
    # ---- typed accessors: every constituent of a cleanly parsed documented sentence is reachable, in source order
    acc_texts = [text for (origin, s), text, lo, r in zip(uniq, texts, la, pa)
                 if r.endswith("errs=") and tuple(lex_kinds(lo)) in doc_clean]
    acc_texts = acc_texts[: (600 if quick else 12000)]
    wa, wb = core.compare(ck, "accessors", acc_texts, lambda s: "astwalk %s" % hexs(s))
    ta = core.impl(["parse %s" % hexs(x) for x in acc_texts], tag="t04")
    unreach = {}
    n_nodes = 0
    with open(core.os.path.join(core.BUILD, "asttable.json")) as f:
        type_kinds = set(json.load(f)["enums"]["Type"])
    for text, w, tr in zip(acc_texts, wa, ta):
        if not w.startswith("walk=") or not tr.startswith("tree="):
            continue
        reached = []
        for item in w[5:w.rindex(" ne=")].split(" "):
            if not item:
                continue
            label, rest = item.split("=", 1)
            kind, rng_ = rest.split("@")
            a, b = rng_.split("-")
            reached.append((kind, int(a), int(b)))
        nodes = tree_nodes(tr[5:tr.rindex(" errs=")])
        n_nodes += len(nodes)
        rs = set(reached)
        for kind, a, b, parent in nodes:
            if parent is None or kind == "Error":
                continue
            if (kind, a, b) not in rs and (parent[3] is None or (parent[0], parent[1], parent[2]) in rs):
                unreach.setdefault((parent[0], "Type" if kind in type_kinds else kind), (text, (kind, a, b)))
        # source order: the ranges an accessor sequence reports never go backwards within one parent
        # (the listing is pre-order, so starts are non-decreasing along every root-to-leaf accessor chain)
    for (pk, ck_), (text, node) in sorted(unreach.items()):
        ck.fail(["C04", "unreachable", "%s>%s" % (pk, ck_)], "a %s constituent of a %s node is not reachable through the typed accessors of ast.rs; e.g. %s" % (ck_, pk, " ".join(text.split())[:80]),
                {"cmd": "astwalk", "text_hex": hexs(text), "node": list(node)}, "not returned by any accessor of %s" % pk, "reachable")
    ck.count("accessors", len(acc_texts), set(acc_texts), sample={"text": acc_texts[0][:80] if acc_texts else ""}, nodes_checked=n_nodes)
    pts = gdoc.choice_points()
    ck.count("sequences", len(uniq), nontriv, sample={"text": texts[len(texts) // 3][:100]},
             choice_points_covered=len(cover & pts), choice_points_total=len(pts), **counts)
    # ---- corpus
    files = gen.corpus_files()
    ca, cb = core.compare(ck, "corpus", [x for _, x in files], lambda s: "parseh %s" % hexs(s))
    for (name, text), r in zip(files, ca):
        if not r.endswith("ne=0"):
            ck.fail(["C04", "corpus", name], "real-world LLVM file %s parses with syntax errors" % name, {"cmd": "parseh", "file": name}, r, "ne=0")
    ck.count("corpus", len(files), {n for n, _ in files}, sample={"file": files[0][0]})
    return ck.finish(extra_cov={"errata": meta["errata"], "extended_by_comment": meta["extended_by_comment"],
                                "deviations_listed": [d[0] for d in docgrammar.DEVIATIONS]}, **FINISH)


def tree_nodes(dump):
    """parse the s-expression dump `(Kind child ...)` / `Kind:len` into [(kind, start, end, parent tuple or None)]"""
    toks = dump.split(" ")
    out = []
    stack = []
    off = 0
    for t in toks:
        if not t:
            continue
        if t.startswith("("):
            node = [t[1:], off, None, stack[-1] if stack else None]
            stack.append(node)
            out.append(node)
        elif t == ")":
            node = stack.pop()
            node[2] = off
        else:
            off += int(t.rsplit(":", 1)[1])
    return [(n[0], n[1], n[2], None if n[3] is None else (n[3][0], n[3][1], n[3][2], n[3][3])) for n in out]


def shape(ks):
    """normalised signature of an unexplained case: the kind sequence (short) or its hash"""
    return " ".join(ks) if len(ks) <= 12 else core.sig_hash(list(ks))


def replay(ck, path):
    with open(path) as f:
        rp = json.load(f)
    core.build_harness()
    hx = rp["case"].get("text_hex")
    if hx:
        print("text :", bytes.fromhex(hx).decode()[:300])
        print("impl :", core.impl(["parse %s" % hx])[0][-400:])
    return 1
