"""C13 diagnostics are sound and complete on the supported core language.

Proof (Props/C13.lean): the typing relation the diagnostics use is characterised exactly
(canBeCastedTo_iff against an inductive `Castable`), template-argument checking reports exactly
too many / unspecified / ill-typed arguments (checkTemplateArgs_run + the lemmas about checkPure),
bang-operator arity checks report iff the operand count differs (expectValues_contract).  Tie: Ide
model vs implementation (incl. every bang-operator arm with right/wrong arity and types).  Oracle:
well-typed generated programs must be silent; every single seeded fault must be reported at its
site and nowhere in untouched files."""
import json

from .. import core, idecorr, semcheck, validcorpus

TRUSTED = ['Lean 4.33 kernel; axioms per theorem under coverage.theorems', 'hand-written model TgModel/Ide/*.lean of crates/ide (indexer, symbol map, scopes, 9 handlers), tied to the code by the `ws` correspondence streams of this run (answers and the symbol-map operation log)', "the generator's expectations follow the TableGen Programmer's Reference; where llvm-tblgen is installed a sample of the generated programs is audited against it and an unreported seeded fault only counts if llvm-tblgen rejects the mutated program"]
RULE = ("well-typed programs of the generator's core fragment (must produce no diagnostic at all) and single seeded faults of the eleven listed classes (undefined class / multiclass / identifier / include, missing / surplus template argument, type-incompatible initialiser / argument, wrong operator arity, syntax error in the root / in an included file): every fault class present in a program at least once plus random further sites; a program or a seeded fault is one case")
FINISH = dict(level="proof", trusted_base=TRUSTED, rule=RULE)


def run(ck):
    ck.proof = core.proof_stage("C13")
    if not ck.proof["ok"]:
        ck.broke("proof", {"theorem_file": "lean/TgModel/Props/C13.lean", "detail": ck.proof["detail"]})
    if not core.ensure_built(ck):
        return ck.finish(**FINISH)
    quick = ck.tier == "quick"
    stats, mism = idecorr.run_streams(["bang", "sem", "inc", "odd"], 150 if quick else 2000, seed=ck.seed + 13, oplog=True)
    for s, st in stats.items():
        ck.count("model-" + s, st["cases"], set(range(st["agree"])), queries=st["queries"], model_disagreements=st["mismatch"])
    for m in mism[:3]:
        ck.broke("correspondence", {"stream": m["stream"], "files": m["case"]["files"], "root": m["case"]["root"],
                                    "diffs": json.loads(json.dumps(m["diffs"], default=str))[:2]})
    progs, cov, nfaults, nontriv, audited = semcheck.check_all(ck, "C13", 120 if quick else 2000, faults_per_program=(12 if quick else 60),
                                                               tblgen_sample=(25 if quick else 400))
    semcheck.check_witnesses(ck, "C13")
    validcorpus.check(ck)
    semcheck.scope_leak_probes(ck, "C13")
    semcheck.block_scope_matrix(ck, "C13")
    semcheck.shadow_probes(ck, "C13")
    semcheck.typed_parent_fault_probe(ck)
    semcheck.attribution_probes(ck)
    ck.count("generated", len(progs) + nfaults, nontriv if not nfaults else set(range(len(nontriv) + nfaults)),
             sample={"files": progs[0].files}, seeded_faults=nfaults,
             coverage=semcheck.cov_summary(cov, ["faultclass:", "fault:", "bang:", "decl:"]), llvm_tblgen_audit=audited)
    return ck.finish(extra_cov={"traces_validated_against_impl": sum(st["cases"] for st in stats.values())}, **FINISH)


def replay(ck, path):
    with open(path) as f:
        rp = json.load(f)
    case = rp.get("case", {})
    core.build_harness()
    if "files" in case and case.get("root"):
        qs = [["diagnostics"]] + [[q, p] for p in sorted(case["files"]) for q in ("document_symbol", "folding_range")]
        print(core.impl(["ws " + json.dumps({"files": case["files"], "root": case["root"], "queries": qs})], timeout=120)[0][:3000])
        print("detail:", json.dumps(case.get("detail"))[:1500])
    else:
        print(json.dumps(rp)[:2000])
    return 1
