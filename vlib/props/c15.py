"""C15 preprocessor: proof (Props/C15.lean: selection theorem for arbitrary nesting + refinement
of the concrete model) + exhaustive correspondence over short directive sequences + reference
evaluation as oracle on the implementation."""
import itertools
import json

from .. import core, gen
from ..core import hexs

TRUSTED = [
    "Lean 4.33 kernel; axioms per theorem under coverage.theorems",
    "hand-written models Prep.lean (concrete) and PrepSpec.lean (abstract machine + reference evaluation); Prep.lean tied to preprocessor.rs by exhaustive-small and random differential correspondence",
    "lexer model Lex.lean for the hypothesis that directive text lexes into directive tokens (C14 / correspondence)",
]
RULE = ("all sequences up to length N (4 quick, 7 thorough) over {#ifdef X, #ifdef Y, #ifndef X, #ifndef Y, #else, #endif, "
        "#define X, #define Y, marker statement, lexically invalid token}, one per line; directives without macro name; random deeper nestings inside "
        "generated programs; a case is non-trivial if it contains at least one conditional; all sequences are distinct")
FINISH = dict(level="proof", trusted_base=TRUSTED, rule=RULE)
# M = a marker declaration; J = a lexically invalid token on a line of its own (an unterminated string): in an enabled region it is
# an Error token with a diagnostic, in a disabled region it must leave no trace at all
SYMS = ["#ifdef X", "#ifdef Y", "#ifndef X", "#ifndef Y", "#else", "#endif", "#define X", "#define Y", "M", "J"]


def render(seq):
    out = []
    for i, s in enumerate(seq):
        out.append("def m%d;" % i if s == "M" else ('"j%d' % i if s == "J" else s))
    return "\n".join(out)


def reference(seq):
    """reference evaluation for a *well-nested* sequence; returns (well_nested, enabled marker indices).
    Well-nested: every #else/#endif closes an open conditional, at most one #else each, all closed at the end."""
    macros = set()
    stack = []  # [enabled_before, cond_true, in_else]
    enabled = True
    markers = []
    for i, s in enumerate(seq):
        if s.startswith("#ifdef") or s.startswith("#ifndef"):
            m = s.split()[1]
            val = (m in macros) if s.startswith("#ifdef") else (m not in macros)
            # a macro is defined only by an earlier *enabled* #define; in a disabled region val is irrelevant
            stack.append([enabled, val, False])
            enabled = enabled and val
        elif s == "#else":
            if not stack or stack[-1][2]:
                return False, None
            stack[-1][2] = True
            enabled = stack[-1][0] and not stack[-1][1]
        elif s == "#endif":
            if not stack:
                return False, None
            enabled = stack.pop()[0]
        elif s.startswith("#define"):
            if enabled:
                macros.add(s.split()[1])
        else:
            if enabled:
                markers.append((i, s))
    if stack:
        return False, None
    return True, markers


def unterminated(seq):
    """more conditionals opened than closed when the text ends (counting nesting naively)"""
    depth = 0
    for s in seq:
        if s.startswith("#if"):
            depth += 1
        elif s == "#endif" and depth > 0:
            depth -= 1
    return depth > 0


def delivered_markers(prep_out):
    toks = [t for t in prep_out.split(" ")]
    kinds = [t.split(":")[0] for t in toks]
    nontrivia = [k for k in kinds if k not in ("Whitespace", "LineComment", "BlockComment", "PreProcessor", "Eof")]
    return nontrivia


def run(ck):
    ck.proof = core.proof_stage("C15")
    if not ck.proof["ok"]:
        ck.broke("proof", {"theorem_file": "lean/TgModel/Props/C15.lean", "detail": ck.proof["detail"]})
    if not core.ensure_built(ck):
        return ck.finish(**FINISH)
    quick = ck.tier == "quick"
    n = 4 if quick else 7     # the property says: exhaustively up to length 7
    total = 0
    batch = []

    def flush(batch):
        texts = [render(s) for s in batch]
        a, _ = core.compare(ck, "exhaustive:prep", texts, lambda t: "prep %s" % hexs(t))
        pa, _ = core.compare(ck, "exhaustive:parse", texts, lambda t: "parseh %s" % hexs(t))
        nontriv = set()
        for seq, text, r, pr in zip(batch, texts, a, pa):
            if any(s.startswith("#if") for s in seq):
                nontriv.add(text)
            wn, markers = reference(seq)
            kinds = delivered_markers(r)
            ne = int(pr.rsplit("ne=", 1)[1]) if "ne=" in pr else -1
            if wn:
                exp = []
                njunk = 0
                for _, sym in markers:
                    exp += ["Def", "Id", "Semi"] if sym == "M" else ["Error"]
                    njunk += sym == "J"
                # which markers: compare count and identity through token lengths
                if kinds != exp:
                    ck.fail(["C15", "selection", " / ".join(seq)], "delivered tokens differ from the reference evaluation for: %s" % " / ".join(seq),
                            {"cmd": "prep", "text_hex": hexs(text)}, kinds, exp)
                elif njunk == 0 and ne != 0:
                    ck.fail(["C15", "diagnostic-from-wellnested", " / ".join(seq)], "well-nested arrangement yields syntax errors (no enabled text has any): %s" % " / ".join(seq),
                            {"cmd": "parse", "text_hex": hexs(text)}, pr, "ne=0")
                elif njunk > 0 and ne < njunk:
                    ck.fail(["C15", "enabled-error-lost", " / ".join(seq)], "a lexical error in enabled text is not reported: %s" % " / ".join(seq),
                            {"cmd": "parse", "text_hex": hexs(text)}, pr, "ne>=%d" % njunk)
            elif unterminated(seq) and ne == 0:
                last_open_enabled = "enabled" if "Def" in kinds or not kinds else "disabled"
                ck.fail("C15|unterminated-not-reported", "conditional left unterminated at end of file is not reported: %s" % " / ".join(seq),
                        {"cmd": "parse", "text_hex": hexs(text)}, pr, "at least one syntax error")
        # an unterminated conditional is reported AS SUCH (another error near the end of the text does not stand in for it): the
        # diagnostics of the file name the missing #endif
        unt = [(seq, text) for seq, text in zip(batch, texts) if (not reference(seq)[0]) and unterminated(seq)]
        if len(unt) > 6000:
            unt = unt[:: max(1, len(unt) // 6000)]
        ws_out = core.impl([core_ws({"/main.td": t}, "/main.td", [["diagnostics"]]) for _, t in unt], tag="unt15")
        for (seq, text), o in zip(unt, ws_out):
            try:
                msgs = [d[3] for _, ds in json.loads(o)[0] for d in ds]
            except Exception:
                continue
            # (recognised by what it talks about, not by its wording)
            if not any(any(w in m.lower() for w in ("#endif", "endif", "unterminated", "conditional", "eof", "end of file")) for m in msgs):
                ck.fail(["C15", "unterminated-not-named", " / ".join(seq)], "the conditional left unterminated at the end of the file is not reported (other diagnostics: %s): %s" % (msgs[:2], " / ".join(seq)),
                        {"cmd": "ws", "text_hex": hexs(text)}, msgs[:4], "a diagnostic naming the missing #endif")
        ck.count("exhaustive", len(batch), nontriv, sample={"sequence": batch[len(batch) // 2], "impl_prep": a[len(batch) // 2][:200]})

    for k in range(n + 1):
        for tup in itertools.product(SYMS, repeat=k):
            batch.append(tup)
            total += 1
            if len(batch) >= 60000:
                flush(batch)
                batch = []
    if batch:
        flush(batch)
    # ---- the same arrangements under other layouts: what separates a directive from its macro name (blanks, tabs, block comments -
    # trivia, as everywhere else in the token stream), what follows the name on its line, indentation, blank lines and CRLF do
    # not change what the conditionals select
    layouts = [("\t", "", "\n", ""), ("  ", " // note", "\n", "  "), (" /* c */ ", "", "\n", ""), ("/**/", " /* t */", "\r\n", "\t"),
               (" /* a */ /* b\n */ ", "", "\n\n", ""), (" ", "\t// X", "\r\n\r\n", " ")]
    lseqs = [tup for k in range(1, (3 if quick else 4) + 1) for tup in itertools.product(SYMS, repeat=k) if any(x.startswith("#") and " " in x for x in tup)]
    if len(lseqs) * len(layouts) > 40000:
        lseqs = lseqs[:: max(1, len(lseqs) * len(layouts) // 40000)]
    ltexts, lmeta = [], []
    for seq in lseqs:
        for sep, trail, nl, ind in layouts:
            lines = []
            for i, sym in enumerate(seq):
                if sym == "M":
                    lines.append(ind + "def m%d;" % i)
                elif sym == "J":
                    lines.append(ind + '"j%d' % i)
                elif " " in sym:
                    d, name = sym.split(" ")
                    lines.append(ind + d + sep + name + trail)
                else:
                    lines.append(ind + sym + trail)
            ltexts.append(nl.join(lines))
            lmeta.append(seq)
    la, _ = core.compare(ck, "layouts:prep", ltexts, lambda t: "prep %s" % hexs(t))
    lp, _ = core.compare(ck, "layouts:parse", ltexts, lambda t: "parseh %s" % hexs(t))
    for seq, text, r, pr in zip(lmeta, ltexts, la, lp):
        wn, markers = reference(seq)
        if not wn:
            continue
        exp = []
        for _, sym in markers:
            exp += ["Def", "Id", "Semi"] if sym == "M" else ["Error"]
        kinds = delivered_markers(r)
        ne = int(pr.rsplit("ne=", 1)[1]) if "ne=" in pr else -1
        if kinds != exp:
            ck.fail(["C15", "selection-layout", " / ".join(seq)], "delivered tokens differ from the reference evaluation when the arrangement %s is laid out as %r" % (" / ".join(seq), text[:80]),
                    {"cmd": "prep", "text_hex": hexs(text)}, kinds, exp)
        elif not any(sym == "J" for _, sym in markers) and ne != 0:
            ck.fail(["C15", "diagnostic-from-wellnested-layout", " / ".join(seq)], "well-nested arrangement yields syntax errors under the layout %r" % text[:80],
                    {"cmd": "parse", "text_hex": hexs(text)}, pr, "ne=0")
    ck.count("layouts", len(ltexts), set(ltexts), sample={"text": ltexts[len(ltexts) // 2]})
    # ---- directives without macro name
    bad = []
    for d in ["#ifdef", "#ifndef", "#define"]:
        for tail in ["", "\n", " 1\n", ' "s"\n', " ;\n", " // c\n", " /* c */ \n", " #endif\n", " class\n"]:
            for pre in ["", "class A;\n", "#define X\n#ifdef X\n"]:
                bad.append(pre + d + tail + "def z;")
    a, _ = core.compare(ck, "missing_name", bad, lambda t: "parse %s" % hexs(t))
    for t, r in zip(bad, a):
        if r.endswith("errs="):
            ck.fail(["C15", "missing-name", t], "directive without macro name is not reported: %r" % t, {"cmd": "parse", "text_hex": hexs(t)}, r[-100:], "an error")
    ck.count("missing_name", len(bad), set(bad), sample={"text": bad[3]})
    # ---- random deeper nestings embedded in generated programs, checked through the IDE layer:
    # disabled text produces neither declarations nor diagnostics
    rng = ck.rng
    progs = []
    for _ in range(150 if quick else 30000):
        depth = rng.choice([2, 3, 4, 5])
        seq = []

        def nest(d):
            for _ in range(rng.choice([1, 2, 3])):
                c = rng.random()
                if d <= 0 or c < 0.35:
                    seq.append(rng.choice(["M", "M", "#define X", "#define Y", "J"]))
                else:
                    seq.append(rng.choice(SYMS[:4]))
                    nest(d - 1)
                    if rng.random() < 0.5:
                        seq.append("#else")
                        nest(d - 1)
                    seq.append("#endif")
        nest(depth)
        progs.append(tuple(seq))
    texts = []
    for seq in progs:
        lines = []
        for i, s in enumerate(seq):
            if s == "M":
                lines.append("def m%d;" % i)
            elif s == "J":
                lines.append(rng.choice(['"j%d', "!frob%d(1)", "@ %d", "1..%d", "$ %d"]) % i)
            else:
                lines.append(s)
            # disabled regions may hold garbage; put some after every conditional opener
        texts.append("\n".join(lines))
    core.compare(ck, "random:prep", texts, lambda t: "prep %s" % hexs(t), counted=True)
    qs = [core_ws({"/main.td": t}, "/main.td", [["diagnostics"], ["document_symbol", "/main.td"]]) for t in texts]
    outs = core.impl(qs, tag="ws15")
    for seq, t, o in zip(progs, texts, outs):
        wn, markers = reference(seq)
        try:
            res = json.loads(o)
        except Exception:
            ck.fail(["C15", "ide-crash", core.sig_hash(t)], "analysis failed on nested conditionals: %s" % o[:80], {"text_hex": hexs(t)}, o[:200], "answer")
            continue
        diags = [d for f, ds in res[0] for d in ds]
        names = [s["name"] for s in (res[1] or [])]
        exp = ["m%d" % i for i, sym in markers if sym == "M"]
        enabled_junk = any(sym == "J" for _, sym in markers)
        if enabled_junk:
            if not diags:
                ck.fail(["C15", "enabled-error-lost", " / ".join(seq)], "a lexical error in enabled text is not reported: %s" % " / ".join(seq),
                        {"text_hex": hexs(t)}, {"symbols": names, "diagnostics": []}, "at least one diagnostic")
        elif names != exp or diags:
            ck.fail(["C15", "declarations", " / ".join(seq)], "declarations/diagnostics differ from the enabled markers: %s" % " / ".join(seq),
                    {"text_hex": hexs(t)}, {"symbols": names, "diagnostics": diags[:3]}, {"symbols": exp, "diagnostics": []})
    ck.count("random_nested", len(texts), set(texts), sample={"text": texts[0][:200], "impl": outs[0][:200]})
    return ck.finish(extra_cov={"exhaustive": True, "exhaustive_sequences": total}, **FINISH)


def core_ws(files, root, queries):
    return "ws " + json.dumps({"files": files, "root": root, "queries": queries})


def replay(ck, path):
    with open(path) as f:
        rp = json.load(f)
    case = rp.get("case", {})
    core.build_harness()
    if "text_hex" in case:
        o = core.impl(["prep %s" % case["text_hex"], "parse %s" % case["text_hex"]])
        print("text:", bytes.fromhex(case["text_hex"]).decode())
        print("impl prep :", o[0][:400])
        print("impl parse:", o[1][:400])
    return 1
