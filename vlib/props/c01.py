"""C01 lossless syntax tree: proof (Props/C01.lean) + correspondence (parse trees, token streams)
+ oracle on the implementation (leaves == input, running token offsets)."""
import json

from .. import core, gen
from ..core import hexs

TRUSTED = [
    "Lean 4.33 kernel; axioms per theorem listed under coverage.theorems",
    "translator/extract.py (token/syntax kind enums, keyword/bang/directive tables, RECOVER_TOKENS, VALUE_START, TYPE_FIRST_TOKENS)",
    "hand-written models Lex.lean / Prep.lean / Dsl.lean / Grammar.lean, tied to lexer.rs / preprocessor.rs / parser.rs / grammar/*.rs by sampled differential correspondence only",
    "rowan: token ranges are running sums of token lengths; GreenNodeBuilder semantics as modelled in Dsl.lean",
    "Rust std char::is_whitespace / is_alphabetic tables (TgModel/Unicode.lean, Text.lean), re-validated against the harness on every run",
]
RULE = ("inputs: exhaustive token-class sequences (one representative per lexical class incl. error classes), "
        "random token soups, grammar-derived sentences rendered spaced/tight/messy, their token-level mutations, "
        "byte/non-ASCII noise insertions, special characters (BOM, zero-width / no-break spaces, line separators, FF, NUL) at the text's edges, nested #ifdef arrangements, bracket/statement/directive nesting at boundary depths "
        "(2^k-1, 2^k, 2^k+1 up to 513 quick / 1025 thorough, each followed by text that must survive), corpus files and corpus prefixes; "
        "a case is non-trivial if its text is non-empty and distinct from all others in its stream")
FINISH = dict(level="proof", trusted_base=TRUSTED, rule=RULE)


def inputs(ck):
    rng = ck.rng
    quick = ck.tier == "quick"
    streams = {}
    streams["regress"] = gen.regressions("C01")
    seqs = gen.class_sequences(2 if quick else 3)
    streams["class_seq"] = [gen.join_reps(s) for s in seqs]
    streams["class_seq_spaced"] = [gen.join_reps(s, " ") for s in seqs[: (2000 if quick else 60000)]]
    streams["soup"] = [gen.join_reps(gen.random_token_soup(rng, rng.randrange(3, 12)), rng.choice(["", " ", "\n"]))
                       for _ in range(1500 if quick else 200000)]
    sents, muts, noisy = [], [], []
    for i in range(600 if quick else 40000):
        toks = gen.sentence(rng, budget=rng.choice([4, 6, 8, 10]))
        mode = rng.choice(["spaced", "tight", "messy"])
        sents.append(gen.render(rng, toks, mode))
        m = toks
        for _ in range(rng.choice([1, 1, 2])):
            m = gen.mutate(rng, m)
        muts.append(gen.render(rng, m, mode))
        noisy.append(gen.noise(rng, sents[-1]))
    streams["sentences"] = sents
    streams["mutations"] = muts
    streams["noise"] = noisy
    streams["prep"] = [gen.prep_nests(rng, rng.choice([1, 2, 3, 4])) + rng.choice(["", "class Z;", "#ifdef Q\nclass W"])
                       for _ in range(300 if quick else 30000)]
    # characters that tools like to treat specially (byte order mark, zero-width and no-break spaces, Unicode line separators,
    # form feed, NUL, DEL), alone and doubled, at the very beginning, after the first token, and at the very end of a text
    specials = ["\ufeff", "\u200b", "\u00a0", "\u2028", "\u2029", "\u0085", "\x0c", "\x00", "\x7f", "\ufffe", "\U000e0001"]
    edge = []
    bases = ["", "class A;", "// c\nclass A;\n", "#ifndef G\n#define G\ndef a : B<1>;\n#endif\n", "def x { string s = \"a\"; }"] + sents[:(10 if quick else 200)]
    for b in bases:
        sp = b.find(" ") if " " in b else len(b)
        for c in specials:
            for cc in (c, c + c):
                edge += [cc + b, b + cc, b[:sp] + cc + b[sp:], cc + b + cc]
    streams["special_edges"] = edge
    # letter-like words outside ASCII glued to every place where the lexer looks ahead over a word before deciding what the token is
    # (behind a paste `#`, a directive, a number prefix, `!`, `$`, a dot, an identifier), with identifiers and keywords later in the text
    ahead = ["#", "a#", "\"s\"#", "!", "0x", "0b", "1", "+", "-", "$", ".", "..", "a", "#ifdef ", "#define ", "#", "//", "[{", "\"", "<"]
    words = ["\u00e9", "\u65e5\u672c", "\u03b1", "\u00f1x", "x\u00e9", "\u00aa", "\u2167", "\u0300", "\uff11", "\U0001d400"]
    tails = [" b;", "\nclass C;\n", "", "#\u00e9 b", " : B;\nclass C;\n", "\n#endif\nclass C;\n", "#b c"]
    heads = ["", "def a", "#ifdef X\nfoo", "class A;\n"]
    streams["letterlike"] = [h + a + w + t for h in heads for a in ahead for w in words for t in tails]
    streams["nesting"] = gen.deep_nests(rng, quick)
    files = gen.corpus_files()
    streams["corpus"] = [t for _, t in files]
    prefixes = []
    for name, t in files:
        n = 6 if quick else 60
        small = len(t) < 6000
        for _ in range(n):
            cut = rng.randrange(len(t) + 1)
            prefixes.append(t[:cut])
        if not quick and small:
            step = max(1, len(t) // 600)
            prefixes.extend(t[:c] for c in range(0, len(t), step))
    streams["corpus_prefix"] = prefixes
    return streams


def run(ck):
    ck.proof = core.proof_stage("C01")
    if not ck.proof["ok"]:
        ck.broke("proof", {"theorem_file": "lean/TgModel/Props/C01.lean", "detail": ck.proof["detail"]})
    if not core.ensure_built(ck):
        return ck.finish(**FINISH)
    streams = inputs(ck)
    for name, texts in streams.items():
        if not texts:
            continue
        big = name.startswith("corpus")
        cmd = "parseh" if big else "parse"
        a, b = core.compare(ck, name, texts, lambda t: "%s %s" % (cmd, hexs(t)))
        # token streams straight from lexer / preprocessor for the small inputs
        if not big:
            core.compare(ck, name + ":prep", texts, lambda t: "prep %s" % hexs(t), counted=True)
        # Stage C: oracle on the implementation
        o = core.impl(["oracle01 %s" % hexs(t) for t in texts], tag="o" + name)
        nontriv = set()
        for t, r, ra in zip(texts, o, a):
            if t:
                nontriv.add(t if len(t) < 200 else hash(t))
            if not r.startswith("ok"):
                ck.fail(["C01", "oracle", r.split(" ")[0], gen_sig(t)], "leaves/ranges do not reproduce the input: %s" % r[:100],
                        {"cmd": "oracle01", "text_hex": hexs(t[:4000])}, observed=r[:300], expected="ok")
            if ra.startswith("PANIC") or ra.startswith("CRASH") or ra.startswith("HANG"):
                ck.fail(["C01", "parse-abort", gen_sig(t)], "parser aborts: %s" % ra[:80],
                        {"cmd": "parse", "text_hex": hexs(t[:4000])}, observed=ra[:300], expected="a tree")
        sample = {"stream": name, "text": texts[len(texts) // 2][:120], "impl": a[len(texts) // 2][:160]}
        ck.count(name, len(texts), nontriv, sample=sample)
    return ck.finish(**FINISH)


def gen_sig(t):
    return t if len(t) <= 64 else core.sig_hash(t)


def replay(ck, path):
    with open(path) as f:
        rp = json.load(f)
    case = rp.get("case", {})
    if "text_hex" not in case:
        print("replay names an obligation, not an input:", json.dumps(rp.get("detail"))[:500])
        return 1
    core.build_harness()
    out = core.impl(["oracle01 %s" % case["text_hex"], "parse %s" % case["text_hex"]])
    mo = core.model(["parse %s" % case["text_hex"]])
    print("impl oracle:", out[0][:300])
    print("impl parse :", out[1][:300])
    print("model parse:", mo[0][:300])
    return 0 if out[0].startswith("ok") and out[1] == mo[0] else 1
