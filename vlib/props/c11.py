"""C11 published diagnostics converge: proof on the session/publish model (Props/C11.lean) +
notification streams of scripted sessions on the real server, compared with the model and with
the reference (diagnostics of the final state, no stale entries, versions never decrease)."""
import json

from .. import core, sessions

TRUSTED = [
    "Lean 4.33 kernel; axioms per theorem under coverage.theorems",
    "hand-written model Session.lean (update = one notification per workspace file + clearing of documents that left the workspace, "
    "updates run to completion one after the other) tied to lsp/src/server.rs by notification-stream correspondence",
    "quiescence is detected through the task counters of the verif hook",
    "diagnostics are abstract in the model (any function of the observable inputs); the correspondence instantiates them with the analysed text's id",
]
RULE = ("the same session space as C12 (texts drawn from clean and faulty variants, include statements added and removed, root switches "
        "by opening another document); a session is non-trivial if some document leaves the workspace or a fault is fixed")
FINISH = dict(level="proof", trusted_base=TRUSTED, rule=RULE)


def run(ck):
    ck.proof = core.proof_stage("C11")
    if not ck.proof["ok"]:
        ck.broke("proof", {"theorem_file": "lean/TgModel/Props/C11.lean", "detail": ck.proof["detail"]})
    if not core.ensure_built(ck):
        return ck.finish(**FINISH)
    ss = sessions.sessions(ck.rng, ck.tier == "quick")
    lines, mlines, meta = [], [], []
    for i, (disk, ops) in enumerate(ss):
        # every second session runs with its snapshot tasks delayed pseudo-randomly at their schedule points, so that
        # tasks the server does not order itself overtake each other
        line, d, ws = sessions.srv_line(i, disk, ops, jitter=(i if i % 2 else None))
        lines.append(line)
        # model encoding: text ids are positions in `texts`
        texts, tid = [], {}
        def idof(v):
            if v.k not in tid:
                tid[v.k] = len(texts)
                texts.append(v)
            return tid[v.k]
        dk = ",".join("%d:%d" % (f, idof(v)) for f, v in sorted(disk.items()))
        oo = ";".join("%d:%d" % (f, idof(v)) for f, v in ops)
        tx = ";".join((",".join(str(j) for j in v.incs) or ".") for v in texts)
        mlines.append("session %s %s %s" % (tx, dk or ".", oo))
        meta.append((disk, ops, d, ws, dict((v2, k) for k, v2 in tid.items()), texts))
    res = core.impl(lines, timeout=300, jobs=8, tag="s11")
    mres = core.model(mlines, timeout=120, tag="m11")
    nontriv = set()
    ndis = 0
    for (disk, ops, d, ws, _, texts), r, mr in zip(meta, res, mres):
        key = core.sig_hash([[f, v.k] for f, v in ops])
        _, exp, buffers = sessions.reference(disk, ops)
        case = {"disk": {sessions.FILES[f]: v.text for f, v in disk.items()}, "ops": [[sessions.FILES[f], v.text] for f, v in ops]}
        sig = ["C11", "session", key]
        try:
            view, versions, resp, data = sessions.parse_stream(r, d)
        except Exception:
            ck.fail(sig, "session aborts: %s" % r[:80], case, r[:200], "answers")
            continue
        if data["timeout"]:
            ck.fail(sig, "server does not become idle", case, None, "idle")
            continue
        touched = set()
        for j in range(1, len(ops) + 1):
            w, _, _ = sessions.reference(disk, ops[:j])
            touched.update(w)
        if touched - set(ws):
            nontriv.add(key)
        bad = None
        for f in ws:
            want = [exp[f].k] if exp[f].faulty else []
            got = view.get(f)
            # (a text with the cut-short declaration has syntax errors and nothing else besides its Und fault)
            # ... and one diagnostic per include statement whose file is neither open nor on disk, naming that file
            missing = [sessions.FILES[j] for j in exp[f].incs if j not in ws]
            inc_msgs = [m for m in (got[2] if got else []) if any(name in m for name in missing)]
            rest = [m for m in (got[2] if got else []) if m not in inc_msgs]
            syn_ok = got is not None and (bool(rest) == bool(getattr(exp[f], "syn", False))) and all(m.startswith("expected") for m in rest) and len(inc_msgs) == len(missing)
            if got is None or got[0] != want or not syn_ok:
                bad = "published diagnostics of %s are %s, final state has %s%s" % (sessions.FILES[f], got, want, (" plus syntax errors" if getattr(exp[f], "syn", False) else "") + (" plus unresolved includes %s" % missing if missing else ""))
                break
        if bad is None:
            for f, got in view.items():
                if f not in ws and (got[0] or got[2]):
                    bad = "document %s is not part of the final workspace but keeps diagnostics %s" % (f if isinstance(f, str) else sessions.FILES[f], got)
                    break
        if bad is None:
            for f, vs in versions.items():
                if any(b < a for a, b in zip(vs, vs[1:])):
                    bad = "versions published for %s decrease: %s" % (f, vs)
                    break
        if bad:
            ck.fail(sig, bad, case, {str(k): v for k, v in view.items()}, "converged view")
        # correspondence with the model: final view per document, with diagnostics := analysed text id
        import re
        mm = re.match(r"files=\[(.*?)\] view: (.*) version=(\d+)$", mr)
        if not mm:
            ndis += 1
            if ndis <= 3:
                ck.broke("correspondence", {"stream": "sessions", "case": case, "model": mr[:200]})
            continue
        mfiles = sorted(int(x) for x in mm.group(1).split(",") if x.strip())
        mview = {}
        for part in mm.group(2).split(" "):
            m2 = re.match(r"(\d+)=(\[.*?\])@(\d+)$", part.replace(", ", ","))
            if m2:
                ids = [int(x) for x in m2.group(2).strip("[]").split(",") if x]
                mview[int(m2.group(1))] = ([texts[i].k for i in ids], int(m2.group(3)))
        iview = {}
        for f in set(list(view) + ws):
            if isinstance(f, str):
                continue
            if f in ws:
                i = ws.index(f)
                syms = resp.get(i + 1)
                ks = [int(s["name"][1:]) for s in syms if s["name"].startswith("T")] if isinstance(syms, list) else []
                iview[f] = (ks, view.get(f, (None, None))[1])
            elif f in view:
                iview[f] = ([], view[f][1])
        impl_c = "files=%s view=%s" % (ws, sorted(iview.items()))
        model_c = "files=%s view=%s" % (mfiles, sorted(mview.items()))
        if impl_c != model_c:
            ndis += 1
            if ndis <= 3:
                ck.broke("correspondence", {"stream": "sessions", "case": case, "impl": impl_c, "model": model_c})
    st = ck.cov["streams"].setdefault("sessions", {"evaluations": 0, "distinct_nontrivial": 0})
    st["model_disagreements"] = ndis
    ck.count("sessions", len(ss), nontriv, sample={"ops": [[sessions.FILES[f], v.k] for f, v in ss[len(ss) // 2][1]], "model": mres[len(ss) // 2]})
    overlapping_runs(ck)
    return ck.finish(extra_cov={"traces_validated_against_impl": len(ss)}, **FINISH)


def overlapping_runs(ck):
    """a notification for a document that is not a file starts a diagnostics run without waiting for the one that is going: two runs
    overlap and may finish in either order (the jitter decides); whatever the order, a document that left the workspace ends cleared"""
    bad_b = "class B\n"
    cases = []
    for jit in range(1, 9):
        cases.append(("include-removed", jit, {"b.td": bad_b}, [["open", "a.td", 'include "b.td"\nclass A;\n'], ["idle"], ["change", "a.td", "class A;\n"],
                                                                ["openuri", "untitled:Untitled-1", "class U;\n"], ["changeuri", "untitled:Untitled-1", "class V;\n"], ["idle"]], ["b.td"]))
        cases.append(("document-switch", jit, {}, [["open", "a.td", "class A\n"], ["idle"], ["open", "c.td", "class C;\n"],
                                                    ["changeuri", "untitled:Untitled-1", "class V;\n"], ["openuri", "untitled:Untitled-2", "class W;\n"], ["idle"]], ["a.td"]))
    lines = ["srv " + json.dumps({"dir": "%s/tmp/ovl11_%d" % (core.BUILD, i), "disk": dk, "script": sc, "timeout_ms": 10000, "jitter": jit})
             for i, (_, jit, dk, sc, _) in enumerate(cases)]
    outs = core.impl(lines, timeout=180, jobs=4, tag="ovl11")
    for (name, jit, dk, sc, gone), line, o in zip(cases, lines, outs):
        try:
            d = json.loads(o)
        except Exception:
            ck.fail(["C11", "overlap", name], "session aborts: %s" % o[:80], {"cmd": line[:2000]}, o[:200], "answers")
            continue
        last = {}
        for m in d["msgs"]:
            if m.get("method") == "textDocument/publishDiagnostics":
                last[m["params"]["uri"].rsplit("/", 1)[1]] = [x["message"] for x in m["params"]["diagnostics"]]
        stale = [f for f in gone if last.get(f)]
        if d.get("timeout") or stale:
            ck.fail(["C11", "overlap", name], "after overlapping diagnostics runs %s keeps %s although it left the workspace" % (stale, [last.get(f) for f in stale]) if stale
                    else "the server does not become idle", {"cmd": line[:2000]}, json.dumps(last)[:300], "cleared")
    ck.count("overlapping_runs", len(cases), {(c[0], c[1]) for c in cases}, sample={"script": cases[0][3]})


def replay(ck, path):
    from . import c12
    return c12.replay(ck, path)
