"""C08 server liveness: proof on the synchronisation model (Props/C08.lean, all job lists, all
schedules) + schedule correspondence: every maximal schedule of the model for small job lists is
replayed on the real server with its threads paused at the hook's schedule points + uncontrolled
bursts of notifications and requests."""
import json
import os

from .. import core

TRUSTED = [
    "Lean 4.33 kernel; axioms per theorem under coverage.theorems",
    "hand-written model Sched.lean at the granularity of the hook's schedule points; tied to lsp/src/server.rs + from_proto.rs by replaying the model's schedules on the real server",
    "salsa 0.16.1: an input write (and synthetic_write) blocks until every snapshot is dropped; no automatic cancellation",
    "std::sync::RwLock admission, tokio blocking pool (every spawned task eventually gets a thread), OS scheduler fairness",
    "replay is one-directional for enabled steps (every model step must be executable by the server); blocked steps are probed at selected points only",
]
RULE = ("job lists: one to three document notifications (same document, or further never-seen documents) combined with zero, one or two requests of every kind; for each, all maximal "
        "schedules of the model (quick: a fixed sample of at most 40 per job list, thorough: all up to 4000) replayed on the real "
        "server; plus blocked-step probes and uncontrolled bursts; a schedule is non-trivial if a task step occurs between two "
        "main-loop steps; schedules are distinct by construction")
FINISH = dict(level="proof", trusted_base=TRUSTED, rule=RULE)
TEXT = "class A<int x> { int f = x; }\ndef d : A<1>;\n"
READS = {"hover": 1, "definition": 2, "references": 2, "completion": 1, "documentSymbol": 1, "foldingRange": 1, "documentLink": 2, "inlayHint": 1}


def req(i, kind):
    if kind == "inlayHint":
        return ["req", i, kind, "a.td", 0, 0, 2, 0]
    if kind in ("documentSymbol", "foldingRange", "documentLink"):
        return ["req", i, kind, "a.td"]
    return ["req", i, kind, "a.td", 1, 8]     # on `A` in `def d : A<1>`


def joblists(ck):
    quick = ck.tier == "quick"
    kinds = list(READS)
    out = []
    out.append([["open", "a.td", TEXT]])
    out.append([["open", "a.td", TEXT], ["change", "a.td", TEXT + "// c\n"]])
    for k in kinds:
        out.append([["open", "a.td", TEXT], req(1, k)])
        out.append([["open", "a.td", TEXT], req(1, k), ["change", "a.td", TEXT + "// c\n"]])
    # a document that the server has never seen is opened while tasks working on another document are alive
    out.append([["open", "a.td", TEXT], ["open", "b.td", TEXT]])
    out.append([["open", "a.td", TEXT], ["change", "a.td", TEXT + "// c\n"], ["open", "b.td", TEXT]])
    for k in (kinds if not quick else ["definition", "hover", "documentLink"]):
        out.append([["open", "a.td", TEXT], req(1, k), ["open", "b.td", TEXT]])
    out.append([["open", "a.td", TEXT], ["open", "b.td", TEXT], ["open", "c.td", TEXT]])
    # one didChange that carries several full-text content changes (legal LSP; they apply in order, it is one notification)
    out.append([["open", "a.td", TEXT], ["change", "a.td", [TEXT + "// 1\n", TEXT + "// 2\n"]]])
    out.append([["open", "a.td", TEXT], req(1, "hover"), ["change", "a.td", [TEXT + "// 1\n", TEXT + "// 2\n", TEXT]]])
    if not quick:
        for k1 in kinds[:4]:
            for k2 in kinds[:4]:
                out.append([["open", "a.td", TEXT], req(1, k1), req(2, k2), ["change", "a.td", TEXT + "// c\n"]])
    else:
        out.append([["open", "a.td", TEXT], req(1, "definition"), req(2, "hover"), ["change", "a.td", TEXT + "// c\n"]])
    return out


def model_jobs(jobs):
    enc = []
    for j in jobs:
        if j[0] in ("open", "change"):
            enc.append("e1")            # diagnostics task: one vfs read per workspace file (1 file)
        else:
            enc.append("q%d" % READS[j[2]])
    return ",".join(enc)


def run(ck):
    ck.proof = core.proof_stage("C08")
    if not ck.proof["ok"]:
        ck.broke("proof", {"theorem_file": "lean/TgModel/Props/C08.lean", "detail": ck.proof["detail"]})
    if not core.ensure_built(ck):
        return ck.finish(**FINISH)
    quick = ck.tier == "quick"
    rng = ck.rng
    jls = joblists(ck)
    mo = core.model(["sched 1 %d %s" % (300 if quick else 6000, model_jobs(j)) for j in jls], timeout=300, tag="m08")
    lines, meta = [], []
    nstates = 0
    for jobs, r in zip(jls, mo):
        parts = r.split(" ")
        if "deadlocks=0" not in r:
            ck.broke("model", {"detail": "the fixed model reports a reachable deadlock", "jobs": model_jobs(jobs), "model": r[:300]})
        scheds = [p[2:].split(",") for p in parts[2:] if p.startswith("F:")]
        nstates += len(scheds)
        cap = 40 if quick else 4000
        if len(scheds) > cap:
            scheds = rng.sample(scheds, cap)
        for i, sc in enumerate(scheds):
            lines.append("sched " + json.dumps({"dir": "%s/tmp/sched%d" % (core.BUILD, len(lines)), "disk": {}, "jobs": jobs,
                                                "schedule": sc, "step_timeout_ms": 2000}))
            meta.append((jobs, sc))
    # blocked-step probe: the second edit must wait for the first edit's diagnostics task
    probe_jobs = [["open", "a.td", TEXT], ["change", "a.td", TEXT + "// c\n"]]
    probe = ["M", "M", "M", "M", "M", "M!", "T0", "T0", "T0", "M", "M", "M", "T0", "T0", "T0"]
    lines.append("sched " + json.dumps({"dir": "%s/tmp/schedp" % core.BUILD, "disk": {}, "jobs": probe_jobs, "schedule": probe, "step_timeout_ms": 2000}))
    meta.append((probe_jobs, probe))
    # the same probe with the first diagnostics task advanced to its vfs read: as long as
    # the task has not finished, the next edit must wait, whatever the task has already done; also for an edit of another document
    for second in (["change", "a.td", TEXT + "// c\n"], ["open", "b.td", TEXT]):
        for k in (1,):      # k = 2 would be task:end, where the snapshot has already been released
            pj = [["open", "a.td", TEXT], second]
            pr = ["M"] * 4 + ["T0"] * k + ["M", "M!"] + ["T0"] * (3 - k) + ["M", "M", "M", "T0", "T0", "T0"]
            lines.append("sched " + json.dumps({"dir": "%s/tmp/schedp%d%s" % (core.BUILD, k, second[1][0]), "disk": {}, "jobs": pj, "schedule": pr, "step_timeout_ms": 2000}))
            meta.append((pj, pr))
    # and with a request task in the same positions
    for kind in ("definition", "hover"):
        # (not at task:end: a request task has released its snapshot when it reaches that point, the diagnostics task has not;
        # the model does not distinguish the two and the property does not care)
        for k in range(0, READS[kind] + 1):
            pj = [["open", "a.td", TEXT], req(1, kind), ["change", "a.td", TEXT + "// c\n"]]
            # after the open: T0 = diagnostics task (finish it), then spawn the request task, advance it k steps, probe
            pr = ["M"] * 4 + ["T0"] * 3 + ["M"] + ["T0"] * k + ["M", "M!"] + ["T0"] * (READS[kind] + 2 - k) + ["M", "M", "M", "T0", "T0", "T0"]
            lines.append("sched " + json.dumps({"dir": "%s/tmp/schedq%d%s" % (core.BUILD, k, kind), "disk": {}, "jobs": pj, "schedule": pr, "step_timeout_ms": 2000}))
            meta.append((pj, pr))
    res = core.impl(lines, timeout=600, jobs=8, tag="s08")
    nontriv = set()
    ndis = 0
    for (jobs, sc), r in zip(meta, res):
        key = "%s|%s" % (model_jobs(jobs), ",".join(sc))
        s = ",".join(sc)
        if "M,T" in s and ",M" in s[s.index("M,T"):]:
            nontriv.add(key)
        try:
            d = json.loads(r)
        except Exception:
            d = {"ok": False, "reason": r[:100], "drained": False}
        if not d.get("ok") or not d.get("drained"):
            ndis += 1
            if not d.get("drained"):
                ck.fail(["C08", "deadlock", key], "the server does not drain (a request or notification is never completed) under schedule %s" % key,
                        {"jobs": jobs, "schedule": sc}, d, "all tasks finish, all requests answered")
            elif ndis <= 3:
                ck.broke("correspondence", {"stream": "schedules", "jobs": jobs, "schedule": sc, "impl": d})
    st = ck.cov["streams"].setdefault("schedules", {"evaluations": 0, "distinct_nontrivial": 0})
    st["model_disagreements"] = ndis
    ck.count("schedules", len(meta), nontriv, sample={"jobs": model_jobs(meta[len(meta) // 2][0]), "schedule": meta[len(meta) // 2][1], "impl": res[len(meta) // 2][:300]})
    # uncontrolled bursts
    big = "class A;\n" + "def x : Undefined;\n" * 800
    bursts = []
    for i in range(6 if quick else 60):
        script = [["open", "a.td", big]]
        for k in range(rng.randrange(2, 6)):
            if rng.random() < 0.4:
                script.append(["open", "n%d.td" % k, big + "// n%d\n" % k])      # a never-seen document
            if rng.random() < 0.3:
                script.append(["change", "a.td", [big + "// %da\n" % k, big + "// %db\n" % k]])     # several content changes in one notification
            script.append(["change", "a.td", big + "// %d\n" % k])
            if rng.random() < 0.7:
                script.append(req(100 + k, rng.choice(list(READS)))[:])
        script.append(req(999, "documentSymbol"))
        bursts.append("srv " + json.dumps({"dir": "%s/tmp/burst%d" % (core.BUILD, i), "disk": {}, "script": script, "timeout_ms": 15000, **({"caps": "full"} if i % 2 == 0 else {})}))
    # many requests in flight when an edit arrives: 6 to 24 requests of every kind sent back to back on a document that takes a
    # while to index, then an edit (or a never-seen document), then more requests; twice in a row
    huge = "class A;\n" + "".join("def h%d : A { int f = %d; }\n" % (j, j) for j in range(4000))
    for i, n in enumerate([6, 9, 16, 24] if quick else [5, 6, 7, 8, 9, 12, 16, 24, 32, 48, 64]):
        script = [["open", "a.td", huge]]
        rid = 100
        for rnd in range(2):
            for j in range(n):
                rid += 1
                script.append(req(rid, sorted(READS)[(j + i) % len(READS)]))
            script.append(["change", "a.td", huge + "// %d\n" % rnd] if (i + rnd) % 3 else ["open", "n%d.td" % rnd, huge])
        script.append(req(999, "documentSymbol"))
        bursts.append("srv " + json.dumps({"dir": "%s/tmp/flight%d" % (core.BUILD, i), "disk": {}, "script": script, "timeout_ms": 40000, **({"caps": "full"} if i % 2 else {})}))
    br = core.impl(bursts, timeout=300, jobs=4, tag="b08")
    for b, r in zip(bursts, br):
        try:
            d = json.loads(r)
        except Exception:
            d = {"timeout": True, "unanswered": [r[:60]]}
        if d.get("timeout") or d.get("unanswered"):
            ck.fail(["C08", "burst", core.sig_hash(b)], "a burst of notifications and requests leaves requests unanswered: %s" % d.get("unanswered"),
                    {"cmd": b[:3000]}, {"timeout": d.get("timeout"), "unanswered": d.get("unanswered")}, "every request answered")
    ck.count("bursts", len(bursts), {core.sig_hash(b) for b in bursts}, sample={"burst": bursts[0][:300]})
    # unusual but legal message sequences: every request is answered (with a result or an error) and the server keeps
    # answering afterwards - a request for a document that was never opened, an inverted range, documents that are not files,
    # an empty change list, didSave / didClose, completion with a trigger character, all request kinds on an unknown document
    td = {"uri": "$DIR/a.td"}
    odd = {
        "request-for-unopened-document": [["open", "a.td", "class A;\n"], ["idle"], ["req", 1, "hover", "b.td", 0, 0], ["req", 2, "documentSymbol", "a.td"]],
        "inlay-hint-range-ends-before-it-starts": [["open", "a.td", "class A<int x>;\ndef d : A<1>;\n"], ["idle"], ["req", 1, "inlayHint", "a.td", 1, 5, 0, 0], ["req", 2, "hover", "a.td", 0, 7]],
        "document-that-is-not-a-file": [["openuri", "untitled:Untitled-1", "class U;\n"], ["changeuri", "untitled:Untitled-1", "class V;\n"], ["open", "a.td", "class A;\n"], ["idle"],
                                        ["req", 1, "documentSymbol", "a.td"]],
        "document-without-a-directory": [["openuri", "file:///", "class R;\n"], ["open", "a.td", "class A;\n"], ["idle"], ["req", 1, "documentSymbol", "a.td"]],
        "empty-change-list": [["open", "a.td", "class A;\n"], ["change", "a.td", []], ["idle"], ["req", 1, "documentSymbol", "a.td"]],
        "save-close-and-triggered-completion": [["open", "a.td", "class A;\ndefvar x = !\n"], ["idle"],
                                                 ["reqraw", 1, "textDocument/completion", {"textDocument": td, "position": {"line": 1, "character": 12},
                                                                                            "context": {"triggerKind": 2, "triggerCharacter": "!"}}],
                                                 ["notify", "textDocument/didSave", {"textDocument": td}], ["close", "a.td"], ["req", 2, "documentSymbol", "a.td"],
                                                 ["open", "a.td", "class B;\n"], ["req", 3, "documentSymbol", "a.td"]],
        "every-request-kind-on-an-unknown-document": [["open", "a.td", "class A;\n"], ["idle"]] + [req(10 + j, k)[:3] + ["nowhere.td"] + req(10 + j, k)[4:] for j, k in enumerate(sorted(READS))]
                                                      + [["req", 99, "documentSymbol", "a.td"]],
        # answers of every shape: null (empty document, nothing under the cursor), hover with documentation, symbols of every
        # kind, completion items of every kind (keyword, type, class with snippet), a non-empty link list; then an orderly end
        "answers-of-every-shape": [["open", "e.td", ""], ["idle"], ["req", 1, "completion", "e.td", 0, 0], ["req", 2, "hover", "e.td", 0, 0], ["req", 3, "documentSymbol", "e.td"],
                                   ["open", "a.td", "include \"e.td\"\n// doc line one\n// doc line two\nclass A<int x>;\nclass T;\nclass B<T t, A a = A<1>> : A<2> { int f = 1; }\n"
                                                    "multiclass M<int p> { def _q : A<p>; }\ndefset list<A> s = { def in_s : A<3>; }\ndefm dm : M<4>;\ndefvar v = 1;\n"],
                                   ["idle"], ["req", 4, "hover", "a.td", 3, 6], ["req", 5, "documentSymbol", "a.td"], ["req", 6, "documentLink", "a.td"],
                                   ["req", 7, "completion", "a.td", 5, 8], ["req", 8, "completion", "a.td", 5, 22], ["req", 9, "completion", "a.td", 5, 30],
                                   ["req", 10, "foldingRange", "a.td"], ["req", 11, "inlayHint", "a.td", 0, 0, 12, 0], ["req", 12, "references", "a.td", 3, 6],
                                   ["idle"], ["reqraw", 13, "shutdown", None], ["idle"], ["notify", "exit", None]],     # (the client waits for its answers before it ends the session)
        # a document that is not a file arrives while the diagnostics run of a big file is still going (two runs overlap: such a
        # notification does not wait for the snapshots), then the file is edited
        "non-file-document-while-a-run-is-going": [["open", "a.td", huge], ["openuri", "untitled:Untitled-1", "class U;\n"], ["changeuri", "untitled:Untitled-1", "class V;\n"],
                                                    ["change", "a.td", huge + "// x\n"], ["req", 1, "documentSymbol", "a.td"], ["idle"],
                                                    ["openuri", "untitled:Untitled-2", "class W;\n"], ["change", "a.td", huge + "// y\n"], ["req", 2, "hover", "a.td", 0, 7]],
        "position-far-outside-the-text": [["open", "a.td", "class A;\n"], ["idle"], ["req", 1, "hover", "a.td", 4000000000, 4000000000], ["req", 2, "completion", "a.td", 7, 0],
                                          ["req", 3, "inlayHint", "a.td", 0, 0, 4000000000, 0], ["req", 4, "documentSymbol", "a.td"]],
    }
    # requests of every kind for a file that is on disk but was never opened or included, while the diagnostics run of a big file is
    # still going, while nothing is going, and after an edit: each is answered (a result or an error) and the server goes on
    on_disk = {"b.td": "class B { int x = 1; }\ndef d : B;\n"}
    kinds_b = [["foldingRange", "b.td"], ["documentSymbol", "b.td"], ["documentLink", "b.td"], ["inlayHint", "b.td", 0, 0, 5, 0], ["definition", "b.td", 1, 8],
               ["references", "b.td", 0, 7], ["hover", "b.td", 0, 7], ["completion", "b.td", 0, 0]]
    for ki, kb in enumerate(kinds_b):
        odd["%s-for-a-file-only-on-disk-while-a-run-is-going" % kb[0]] = [
            ["open", "a.td", huge], ["req", 1] + kb, ["req", 2, "hover", "a.td", 0, 7], ["idle"],
            ["req", 3] + kb, ["idle"], ["change", "a.td", huge + "// x\n"], ["req", 4] + kb, ["req", 5, "documentSymbol", "a.td"]]
    odd_disk = {name: (on_disk if "only-on-disk" in name else {}) for name in odd}
    olines = ["srv " + json.dumps({"dir": "%s/tmp/odd%d" % (core.BUILD, i), "disk": odd_disk[name], "script": sc, "timeout_ms": 20000}) for i, (name, sc) in enumerate(odd.items())]
    orr = core.impl(olines, timeout=120, jobs=4, tag="o08")
    for (name, sc), line, r in zip(odd.items(), olines, orr):
        try:
            d = json.loads(r)
        except Exception:
            d = {"timeout": True, "unanswered": [r[:60]]}
        if d.get("timeout") or d.get("unanswered"):
            ck.fail(["C08", "odd-message", name], "after %s the server leaves requests unanswered: %s" % (name.replace("-", " "), d.get("unanswered")),
                    {"cmd": line[:3000]}, {"timeout": d.get("timeout"), "unanswered": d.get("unanswered")}, "every request answered (result or error)")
    ck.count("odd_messages", len(odd), set(odd), sample={"script": list(odd.values())[0]})
    # the repository's own binary (includes main.rs' service stack), worst case: one CPU
    from .. import stdio_driver
    ok, out, binary = core.build_lsp_bin()
    if not ok:
        ck.broke("lsp-binary-build", {"error": out[-1500:]})
    else:
        with open(os.path.join(core.REPO, "crates", "lsp", "src", "main.rs")) as f:
            main_rs = f.read()
        stack = [l.strip() for l in main_rs.splitlines() if ".layer(" in l]
        if any("ConcurrencyLayer" in l for l in stack):
            ck.notes.append("main.rs installs a ConcurrencyLayer; the in-process harness (srv/sched) does not")
        cfgs = [(2, "0"), (20, "0"), (200, "0,1"), (300, None)] if quick else [(2, "0"), (5, "0"), (20, "0"), (100, "0"), (200, "0,1"), (400, "0,1"), (1000, None)]
        for n, cpus in cfgs:
            got = stdio_driver.burst(binary, n, cpus)
            if got < n:
                ck.fail(["C08", "binary-burst", "n=%d cpus=%s" % (n, cpus)],
                        "the server binary answers only %d of %d back-to-back requests (cpus=%s)" % (got, n, cpus),
                        {"binary_burst": n, "cpus": cpus}, got, n)
        ck.count("binary_bursts", len(cfgs), {str(c) for c in cfgs}, sample={"requests": cfgs[0][0], "cpus": cfgs[0][1]}, service_stack=stack)
    return ck.finish(extra_cov={"traces_validated_against_impl": len(meta), "model_schedules_enumerated": nstates}, **FINISH)


def replay(ck, path):
    with open(path) as f:
        rp = json.load(f)
    case = rp.get("case", {})
    core.build_harness()
    if "schedule" in case:
        print(core.impl(["sched " + json.dumps({"dir": "%s/tmp/schedr" % core.BUILD, "disk": {}, "jobs": case["jobs"], "schedule": case["schedule"], "step_timeout_ms": 2000})], timeout=60)[0][:1500])
    elif "cmd" in case:
        print(core.impl([case["cmd"]], timeout=60)[0][:800])
    return 1
