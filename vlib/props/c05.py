"""C05 name resolution: go-to-definition and references follow TableGen scoping.

Proof (Props/C05.lean): the scope stack of the indexer model - lookup is innermost-first
(findLocal_innermost), an inserted variable shadows outer bindings and disappears with its
block (pop_insertVariable_push), every block construct leaves the scope stack as it found it
(…_balanced, under the stated side conditions), resolveId = locals, then defs, then defsets, and
"symbol not found" is reported exactly when it fails.  Tie: Ide model vs implementation on the
`ws` streams (answers + operation log).  Oracle: the scope-tracking generator, whose use ->
declaration map is known by construction."""
import json

from .. import core, idecorr, semcheck

TRUSTED = ['Lean 4.33 kernel; axioms per theorem under coverage.theorems', 'hand-written model TgModel/Ide/*.lean of crates/ide (indexer, symbol map, scopes, 9 handlers), tied to the code by the `ws` correspondence streams of this run (answers and the symbol-map operation log)', "the generator's expectations follow the TableGen Programmer's Reference; where llvm-tblgen is installed a sample of the generated programs is audited against it and an unreported seeded fault only counts if llvm-tblgen rejects the mutated program"]
RULE = ("well-scoped multi-file programs of the scope-tracking generator (every declaration kind x enclosing construct, every use position the indexer visits, optional syntax present/absent, nesting, shadowing, includes at the top/between statements/inside blocks, deliberate out-of-scope uses after the declaring construct has ended); go-to-definition and hover at every use and declaration, find-references at every declaration; a program is one case")
FINISH = dict(level="proof", trusted_base=TRUSTED, rule=RULE)


def run(ck):
    ck.proof = core.proof_stage("C05")
    if not ck.proof["ok"]:
        ck.broke("proof", {"theorem_file": "lean/TgModel/Props/C05.lean", "detail": ck.proof["detail"]})
    if not core.ensure_built(ck):
        return ck.finish(**FINISH)
    quick = ck.tier == "quick"
    stats, mism = idecorr.run_streams(["sem", "grammar", "inc", "odd"], 120 if quick else 1500, seed=ck.seed + 5, oplog=True)
    for s, st in stats.items():
        ck.count("model-" + s, st["cases"], set(range(st["agree"])), queries=st["queries"], model_disagreements=st["mismatch"])
    for m in mism[:3]:
        ck.broke("correspondence", {"stream": m["stream"], "files": m["case"]["files"], "root": m["case"]["root"],
                                    "diffs": json.loads(json.dumps(m["diffs"], default=str))[:2]})
    progs, cov, nfaults, nontriv, audited = semcheck.check_all(ck, "C05", 150 if quick else 2500, faults_per_program=0,
                                                               tblgen_sample=(25 if quick else 400))
    semcheck.check_witnesses(ck, "C05")
    semcheck.scope_leak_probes(ck, "C05")
    semcheck.block_scope_matrix(ck, "C05")
    semcheck.shadow_probes(ck, "C05")
    ck.count("generated", len(progs) + nfaults, nontriv if not nfaults else set(range(len(nontriv) + nfaults)),
             sample={"files": progs[0].files}, seeded_faults=nfaults,
             coverage=semcheck.cov_summary(cov, ["decl:", "use:", "shadow:", "stmt:"]), llvm_tblgen_audit=audited)
    return ck.finish(extra_cov={"traces_validated_against_impl": sum(st["cases"] for st in stats.values())}, **FINISH)


def replay(ck, path):
    with open(path) as f:
        rp = json.load(f)
    case = rp.get("case", {})
    core.build_harness()
    if "files" in case and case.get("root"):
        qs = [["diagnostics"]] + [[q, p] for p in sorted(case["files"]) for q in ("document_symbol", "folding_range")]
        print(core.impl(["ws " + json.dumps({"files": case["files"], "root": case["root"], "queries": qs})], timeout=120)[0][:3000])
        print("detail:", json.dumps(case.get("detail"))[:1500])
    else:
        print(json.dumps(rp)[:2000])
    return 1
