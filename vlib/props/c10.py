"""C10 position mapping: proof (Props/C10.lean) + exhaustive-small correspondence
(to_proto/from_proto::position vs LineIndex.toPos/fromPos) + independent oracle."""
import itertools
import json

from .. import core
from ..core import hexs

ALPHABET = ["a", " ", "\n", "\r", "é", "€", "\U0001F600", "\x0c", " "]
TRUSTED = [
    "Lean 4.33 kernel; axioms per theorem under coverage.theorems",
    "hand-written model LineIndex.lean, tied to ide/src/line_index.rs + lsp/src/{to_proto,from_proto}.rs::position by exhaustive-small and random differential correspondence",
    "text-size / lsp-types conversions (u32), String::is_char_boundary",
]
RULE = ("all strings up to length N over {a, space, LF, CR, 2-/3-/4-byte char, FF, U+2028} (N=4 quick, 6 thorough) x all "
        "char-boundary offsets x all positions; one character per UTF-8 lead byte 0xC2..0xF4 and the boundary code points of every length class in 7 short contexts; "
        "char-boundary offsets x all (line, col) with line <= numLines and col <= utf16len+2; plus random long mixed texts; "
        "non-trivial = contains a multi-byte char or a line terminator; every string is distinct by construction")
FINISH = dict(level="proof", trusted_base=TRUSTED, rule=RULE)


def u16len(s):
    return sum(2 if ord(c) >= 0x10000 else 1 for c in s)


BIGC = [2147483647, 2147483648, 4294967290, 4294967291, 4294967292, 4294967293, 4294967294, 4294967295]


def reference(text, maxcol, big=False):
    """independent reference written from the property text (see DESIGN C10 for the clamp choice)"""
    b = []  # (offset, line, col)
    off, line, col = 0, 0, 0
    chars = list(text)
    for i, ch in enumerate(chars):
        b.append((off, line, col))
        n8 = len(ch.encode("utf-8"))
        if ch == "\n" or (ch == "\r" and not (i + 1 < len(chars) and chars[i + 1] == "\n")):
            line, col = line + 1, 0
        else:
            col += 2 if ord(ch) >= 0x10000 else 1
        off += n8
    b.append((off, line, col))
    fw = ";".join("%d=%d,%d" % x for x in b)
    nl = line + 1
    total = off
    bw = []
    for l in range(nl + 1):
        on_line = [(o, c) for (o, ln, c) in b if ln == l]
        for c in range(maxcol + 1):
            if not on_line:
                o = total
            else:
                mx = max(cc for _, cc in on_line)
                if c > mx:
                    nxt = [o2 for (o2, ln, _) in b if ln == l + 1]
                    o = min(nxt) if nxt else total
                else:
                    o = max(o2 for (o2, cc) in on_line if cc <= c)
            bw.append("%d,%d=%d" % (l, c, o))
    if big:
        # a column past the end of a line means the line end (= where the next line starts, or the end of the text); a line
        # past the last one means the end of the text
        for l in list(range(nl + 2)) + [4294967295]:
            nxt = [o2 for (o2, ln, _) in b if ln == l + 1]
            o = total if not [1 for (_, ln, _) in b if ln == l] else (min(nxt) if nxt else total)
            for c in BIGC:
                bw.append("%d,%d=%d" % (l, c, o))
    return "T %s F %s" % (fw, ";".join(bw))


def batches(ck):
    quick = ck.tier == "quick"
    n = 4 if quick else 6
    cur = []
    for k in range(n + 1):
        for tup in itertools.product(ALPHABET, repeat=k):
            cur.append("".join(tup))
            if len(cur) >= 40000:
                yield "exhaustive", cur
                cur = []
    if cur:
        yield "exhaustive", cur
    # one character per UTF-8 lead byte (0xC2..0xF4) and the boundary code points of every length class
    reps = []
    for lead in range(0xC2, 0xF5):
        if lead < 0xE0:
            cp = (lead & 0x1F) << 6
        elif lead < 0xF0:
            cp = max((lead & 0x0F) << 12, 0x800)
            if 0xD800 <= cp <= 0xDFFF:
                cp = 0xE000
        else:
            cp = max((lead & 0x07) << 18, 0x10000)
        reps.append(chr(cp))
    reps += [chr(c) for c in (0x7F, 0x80, 0x7FF, 0x800, 0xFFFF, 0x10000, 0x3FFFF, 0x40000, 0x10FFFF, 0x85, 0x2029, 0x0B)]
    lead_texts = []
    for c in reps:
        lead_texts += [c, "a" + c, c + "a", c + c, c + "\n" + c, "\r\n" + c + "b", c + "\r" + c + c]
    yield "lead_bytes", lead_texts
    rng = ck.rng
    rnd = []
    for _ in range(300 if quick else 40000):
        ln = rng.choice([8, 20, 60, 200])
        rnd.append("".join(rng.choice(ALPHABET + reps + ["b", "x", "\n", "\r\n"]) for _ in range(ln)))
    yield "random_long", rnd


def run(ck):
    ck.proof = core.proof_stage("C10")
    if not ck.proof["ok"]:
        ck.broke("proof", {"theorem_file": "lean/TgModel/Props/C10.lean", "detail": ck.proof["detail"]})
    if not core.ensure_built(ck):
        return ck.finish(**FINISH)
    exhaustive_n = 0
    for name, texts in batches(ck):
        cmd_of = lambda t: "li %s %d" % (hexs(t), min(u16len(t) + 2, 40))
        a, b = core.compare(ck, name, texts, cmd_of)
        allo = core.impl(["li %s 0 all" % hexs(t) for t in texts], tag="all" + name)
        # columns and lines at the ends of the u32 range (`u32::MAX` is what clients send for "end of line"): model vs implementation
        if name != "exhaustive" or len(texts[0]) <= 3:
            bt = [t for t in texts if len(t) <= 64]
            ba, _ = core.compare(ck, name + ":big", bt, lambda t: "li %s 0 big" % hexs(t), counted=True)
            for t, r in zip(bt, ba):
                exp = reference(t, 0, big=True)
                if r != exp:
                    ck.fail(["C10", "position-big", t if len(t) <= 12 else core.sig_hash(t)],
                            "a column / line at the end of the u32 range is not clamped to the line end / text end for text %r" % t[:40],
                            {"cmd": "li", "text_hex": hexs(t), "maxcol": 0, "big": True}, observed=r[-400:], expected=exp[-400:])
        # ranges: a pair of positions through `from_proto::range` is the pair of offsets, for every i <= j (also when the end column is
        # smaller than the start column, on a later line)
        rt = [t for t in texts if 0 < len(t) <= 200]
        if name == "exhaustive" and len(rt) > 20000:
            rt = rt[:: len(rt) // 20000 + 1]
        for t, r in zip(rt, core.impl(["lir %s" % hexs(t) for t in rt], tag="lir" + name)):
            if not r.startswith("ok"):
                ck.fail(["C10", "range", t if len(t) <= 12 else core.sig_hash(t)], "a range sent back through from_proto::range is not the pair of its offsets for text %r: %s" % (t[:40], r[:120]),
                        {"cmd": "lir", "text_hex": hexs(t)}, observed=r[:300], expected="ok")
        nontriv = set()
        for t, ra, rall in zip(texts, a, allo):
            if any(ord(c) > 127 or c in "\r\n" for c in t):
                nontriv.add(t)
            exp = reference(t, min(u16len(t) + 2, 40))
            if ra != exp:
                ck.fail(["C10", "position", t if len(t) <= 12 else core.sig_hash(t)],
                        "offset<->position conversion differs from the reference for text %r" % t[:40],
                        {"cmd": "li", "text_hex": hexs(t), "maxcol": min(u16len(t) + 2, 40)}, observed=ra[:400], expected=exp[:400])
            if "=P" in rall or rall.startswith("PANIC") or rall.startswith("CRASH"):
                ck.fail(["C10", "panic", t if len(t) <= 12 else core.sig_hash(t)],
                        "conversion panics for an offset inside text %r" % t[:40],
                        {"cmd": "li-all", "text_hex": hexs(t)}, observed=rall[:300], expected="no panic")
        if name == "exhaustive":
            exhaustive_n += len(texts)
        ck.count(name, len(texts), nontriv, sample={"text": texts[len(texts) // 2], "impl": a[len(texts) // 2][:200]})
    return ck.finish(extra_cov={"exhaustive": True, "exhaustive_strings": exhaustive_n}, **FINISH)


def replay(ck, path):
    with open(path) as f:
        rp = json.load(f)
    case = rp["case"]
    core.build_harness()
    if case.get("cmd") == "lir":
        out = core.impl(["lir %s" % case["text_hex"]])
        print("impl (ranges):", out[0][:500])
        return 0 if out[0].startswith("ok") else 1
    text = bytes.fromhex(case["text_hex"]).decode("utf-8")
    mc = case.get("maxcol", min(u16len(text) + 2, 40))
    out = core.impl(["li %s %d" % (case["text_hex"], mc), "li %s 0 all" % case["text_hex"]])
    exp = reference(text, mc)
    print("impl     :", out[0][:500])
    print("reference:", exp[:500])
    print("impl(all):", out[1][:200])
    return 0 if out[0] == exp and "=P" not in out[1] else 1
