"""C17 range validity: every range in every analysis result names a file of the workspace and lies
within that file's text on UTF-8 character boundaries with start <= end.

Proof (Props/C17.lean): ranges of the offset-annotated tree are well-formed and handler results
only carry such ranges (on the Lean model).  Tie: `ws` correspondence of the model.  Oracle: every
range of every result of the sweep over the C03 workspace space, checked against the texts."""
import json

from .. import core, wsspace, idecorr
from .c03 import trunc

TRUSTED = [
    "Lean 4.33 kernel; axioms per theorem under coverage.theorems",
    "hand-written model TgModel/Ide/*.lean tied to crates/ide by the `ws` correspondence streams of this run",
    "the sweep (harness) reports the set of distinct ranges found in the answers; their validity is judged here against the workspace texts",
]
RULE = ("the C03 workspace space with non-ASCII text next to identifiers (comments, strings), CRLF/CR line ends and form feeds "
        "injected; every range of every result: diagnostics, symbols and their children, folding ranges, links and link targets, "
        "hint positions, definition and reference locations; a workspace is one case, non-trivial if it yields at least one range")
FINISH = dict(level="proof", trusted_base=TRUSTED, rule=RULE)


def run(ck):
    ck.proof = core.proof_stage("C17")
    if not ck.proof["ok"]:
        ck.broke("proof", {"theorem_file": "lean/TgModel/Props/C17.lean", "detail": ck.proof["detail"]})
    if not core.ensure_built(ck):
        return ck.finish(**FINISH)
    quick = ck.tier == "quick"
    stats, mism = idecorr.run_streams(["sem", "grammar", "inc", "odd"], 100 if quick else 1200, seed=ck.seed + 17)
    for s, st in stats.items():
        ck.count("model-" + s, st["cases"], set(range(st["agree"])), queries=st["queries"], model_disagreements=st["mismatch"])
    for m in mism[:3]:
        ck.broke("correspondence", {"stream": m["stream"], "files": m["case"]["files"], "root": m["case"]["root"], "diffs": json.loads(json.dumps(m["diffs"]))[:2]})
    wss = wsspace.workspaces(ck.rng, quick)
    # more non-ASCII: every workspace text also with a wide prefix line
    extra = []
    for files, root, origin in wss[: (150 if quick else 3000)]:
        if origin in ("program", "multi", "prefix"):
            f2 = {p: ("// é\U0001F600\r\n" + t.replace("\n", "\r\n", 1)) for p, t in files.items()}
            extra.append((f2, root, origin + "+wide"))
    # an include that resolves to a file without a statement (empty, a comment, disabled as a whole) in front of everything else
    # the including file reports: what is reported afterwards still names the including file
    stubs = ["", "// \u30b3\u30e1\u30f3\u30c8", "#ifdef NEVER_DEFINED\n// \u3042\u3042\nclass Hidden;\n#endif\n", "\ufeff\n\n", ")"]
    for i, (files, root, origin) in enumerate(wss[: (120 if quick else 2500)]):
        if origin in ("program", "multi", "prefix", "stress"):
            d_ = root.rsplit("/", 1)[0]
            f2 = dict(files)
            f2[d_ + "/stub9.td"] = stubs[i % len(stubs)]
            f2[root] = 'include "stub9.td"\n' + files[root]
            extra.append((f2, root, origin + "+stub"))
    # the workspaces on which model and implementation disagreed are searched for a failing input as well
    for m in mism[:60]:
        extra.append((m["case"]["files"], m["case"]["root"], "disagreement"))
    wss = wss + extra
    lines = ["ws " + json.dumps({"files": f, "root": r, "sweep": {"max_points": 300 if quick else 1200, "max_hint_ranges": 200 if quick else 1500}}) for f, r, _ in wss]
    res = core.impl(lines, timeout=900, tag="c17")
    nranges = 0
    kinds = {}
    nontriv = set()
    for (files, root, origin), r in zip(wss, res):
        if r.startswith(("PANIC", "CRASH", "HANG", "SKIPPED")):
            continue          # totality is C03's business
        try:
            d = json.loads(r)
        except Exception:
            continue
        key = core.sig_hash(files)
        known = {p: n for p, n in d["files"]}
        btexts = {p: t.encode() for p, t in files.items()}
        for kind, f, a, b in d["ranges"]:
            if kind == "hint-outside-request":
                continue      # C19's clause
            nranges += 1
            kinds[kind] = kinds.get(kind, 0) + 1
            nontriv.add(key)
            bad = None
            if f not in known or f not in btexts:
                bad = "names %r, which is not a file of the workspace" % f
            elif kind == "link-target":
                continue
            else:
                t = btexts[f]
                if not (a <= b):
                    bad = "start %d > end %d" % (a, b)
                elif b > len(t):
                    bad = "end %d is past the end of the text (%d bytes)" % (b, len(t))
                elif not boundary(t, a) or not boundary(t, b):
                    bad = "%d..%d does not lie on UTF-8 character boundaries" % (a, b)
            if bad:
                ck.fail(["C17", kind, bad.split(" ")[0] if bad[0].isalpha() else "order-or-boundary"], "a %s range %s" % (kind, bad),
                        {"files": trunc(files), "root": root, "range": [kind, f, a, b]}, [f, a, b], "a range inside the file's text on character boundaries")
    ck.count("sweep", len(wss), nontriv, sample={"files": trunc(wss[0][0])}, ranges_checked=nranges, by_kind=kinds)
    return ck.finish(extra_cov={"traces_validated_against_impl": sum(st["cases"] for st in stats.values())}, **FINISH)


def boundary(b, i):
    return i == len(b) or i == 0 or (0 <= i < len(b) and (b[i] & 0xC0) != 0x80)


def replay(ck, path):
    with open(path) as f:
        rp = json.load(f)
    case = rp.get("case", {})
    core.build_harness()
    if "files" in case:
        out = core.impl(["ws " + json.dumps({"files": case["files"], "root": case["root"], "sweep": {}})], timeout=300)[0]
        print(out[:2000])
    return 1
