"""C14 lexical conformance: proof (Props/C14.lean: lex_conforms over the declarative LexSpec) +
correspondence of the lexer model with the real lexer + an independent reference (spec-level
token instances with expected kinds and boundaries) as oracle on the implementation."""
import itertools
import json

from .. import core, gen
from ..core import hexs

TRUSTED = [
    "Lean 4.33 kernel; axioms per theorem under coverage.theorems",
    "LexSpec.lean is a hand-written reading of the TableGen Programmer's Reference (token classes, separators)",
    "lexer model Lex.lean tied to lexer.rs by differential correspondence (exhaustive short strings over a focused alphabet, class-sampled sequences)",
    "translator/extract.py for the keyword / bang-operator / directive tables used by model and spec",
]
RULE = ("(1) exhaustive strings up to length N (4 quick, 5 thorough) over the focused alphabet {\" \\ / * 0 1 9 a x b _ ! # . - + $ [ { } ] space LF}; "
        "(1b) exhaustive strings up to length 5 (6 thorough) over {i n d e f 1 0 _ space} (reserved words next to digits); (1c) every reserved word "
        "and bang-operator name with every short prefix/suffix glued on; "
        "(2) random sequences of spec-level token instances (each class sampled over its regular language incl. boundary "
        "cases) joined by every separator kind (blank runs, // comments with LF/CRLF/CR, nested /* */); a case is one distinct text")
FINISH = dict(level="proof", trusted_base=TRUSTED, rule=RULE)
ALPHA = ['"', "\\", "/", "*", "0", "1", "9", "a", "x", "b", "_", "!", "#", ".", "-", "+", "$", "[", "{", "}", "]", " ", "\n"]


def rand_ident(rng):
    s = "".join(rng.choice("0123456789") for _ in range(rng.choice([0, 0, 0, 1, 2])))
    s += rng.choice("abcxyzABZ_")
    s += "".join(rng.choice("abcxyz019_XB") for _ in range(rng.choice([0, 1, 2, 5])))
    return s


def looks_like_number(s):
    return (len(s) >= 3 and s[0] == "0" and s[1] == "x" and s[2] in "0123456789abcdefABCDEF") or \
           (len(s) >= 3 and s[0] == "0" and s[1] == "b" and s[2] in "01")


def spec_token(rng, kw, bangs):
    """(text, expected kind predicate description, kind name or prefix)"""
    c = rng.choice(["id", "id", "kw", "kwedge", "dec", "hex", "bin", "str", "code", "var", "bang", "punct"])
    if c == "kwedge":
        # a reserved word with something glued to it is an ordinary identifier: digits or `_` in front
        # (identifiers may start with digits), letters/digits/`_` behind, a different case
        w = rng.choice(sorted(kw))
        pre = rng.choice(["", "1", "0", "42", "007", "_", "x", "9_"])
        suf = rng.choice(["", "", "1", "_", "s", "X"]) if pre else rng.choice(["1", "_", "s", "X", "0"])
        s = pre + w + suf
        if rng.random() < 0.15:
            s = (pre or "") + w.capitalize() + suf if w.capitalize() not in kw else s
        if s in kw or looks_like_number(s):
            s = "_" + s
        return s, "Id"
    if c == "id" and rng.random() < 0.25:
        # identifiers next to the integer syntax: digits, then a letter that is not the start of a hex/binary literal
        s = rng.choice(["0b2", "0b9", "0b2a", "0b7_lane", "0b35x", "0b_", "0bz", "0b", "0x", "0xg", "0xG1", "0x_1", "00b1", "00x1", "10b1", "1x1",
                        "0B1", "0X1", "0o7", "9z", "0_", "4abc", "00b2", "0bb", "0xx", "0bx1"])
        return s, "Id"
    if c == "id":
        while True:
            s = rand_ident(rng)
            if s not in kw and not looks_like_number(s):
                return s, "Id"
    if c == "kw":
        w = rng.choice(sorted(kw))
        return w, kw[w]
    if c == "dec":
        sign = rng.choice(["", "", "+", "-"])
        v = rng.choice([0, 1, 7, 42, 2 ** 31, 2 ** 63 - 1, 2 ** 63 if sign == "-" else 2 ** 64 - 1, rng.randrange(10 ** 6)])
        if sign == "-":
            v = min(v, 2 ** 63)
        return sign + ("0" * rng.choice([0, 0, 2])) + str(v), "IntVal"
    if c == "hex":
        v = rng.choice([0, 255, 2 ** 64 - 1, rng.randrange(2 ** 40)])
        return "0x" + rng.choice(["%x", "%X"]) % v, "IntVal"
    if c == "bin":
        return "0b" + bin(rng.choice([0, 1, 5, 2 ** 64 - 1, rng.randrange(2 ** 20)]))[2:], "BinaryIntVal"
    if c == "str":
        items = []
        for _ in range(rng.choice([0, 1, 3, 6])):
            items.append(rng.choice(["a", " ", "é", "/", "*", "'", "\\\\", "\\\"", "\\n", "\\t", "\\'", "//", "/*"]))
        return '"' + "".join(items) + '"', "StrVal"
    if c == "code":
        body = "".join(rng.choice(["a", " ", "}", "]", "{", "[", "\n", '"', "}}", "] ]", "é"]) for _ in range(rng.choice([0, 1, 4, 8])))
        body = body.replace("}]", "} ]")
        # (a body may end in any number of `}`: the fragment ends at the first `}]`, which then is the last one)
        return "[{" + body + "}]", "CodeFragment"
    if c == "var":
        return "$" + rng.choice("abz_AZ") + "".join(rng.choice("abc019_") for _ in range(rng.choice([0, 1, 3]))), "VarName"
    if c == "bang":
        b = rng.choice(bangs)
        return b, "X"
    p = rng.choice(list(gen.FIXED_TEXT.items())[:18])
    return p[1], p[0]


def nested_comment(rng, depth):
    parts = ["/*"]
    for _ in range(rng.choice([0, 1, 2, 3])):
        if depth > 0 and rng.random() < 0.4:
            parts.append(nested_comment(rng, depth - 1))
        else:
            parts.append(rng.choice(["a", " ", "\n", "é", "x y", "**", "\"", "[{", "//"]))
    s = "".join(parts)
    # plain parts must not create stray openers/closers
    s = s.replace("*/", "* /") if False else s
    return s + " */" if s.endswith("*") or s.endswith("/") else s + "*/"


def separator(rng):
    c = rng.choice(["ws", "ws", "line", "block"])
    if c == "ws":
        return "".join(rng.choice([" ", "\t", "\n", "\r\n", "\r"]) for _ in range(rng.choice([1, 1, 2, 3])))
    if c == "line":
        return "//" + rng.choice(["", " c", " é \" /* x", "///"]) + rng.choice(["\n", "\r\n", "\r"])
    s = nested_comment(rng, 3)
    return s


def valid_comment(s):
    """reference check that s is one well-nested block comment"""
    depth, i = 0, 0
    while i < len(s):
        if s.startswith("/*", i):
            depth += 1
            i += 2
        elif s.startswith("*/", i):
            depth -= 1
            i += 2
            if depth == 0:
                return i == len(s)
        else:
            i += 1
    return False


def run(ck):
    ck.proof = core.proof_stage("C14")
    if not ck.proof["ok"]:
        ck.broke("proof", {"theorem_file": "lean/TgModel/Props/C14.lean", "detail": ck.proof["detail"]})
    if not core.ensure_built(ck):
        return ck.finish(**FINISH)
    quick = ck.tier == "quick"
    rng = ck.rng
    t = core.tables()
    kw = {k: v for k, v in t["keywords"]}
    bangs = gen.BANGOP_TEXTS + ["!cond"]
    # (1) exhaustive short strings: model vs implementation
    n = 4 if quick else 5
    batch, total = [], 0
    for k in range(n + 1):
        for tup in itertools.product(ALPHA, repeat=k):
            batch.append("".join(tup))
            if len(batch) >= 80000:
                core.compare(ck, "exhaustive", batch, lambda s: "lex %s" % hexs(s), counted=True)
                total += len(batch)
                ck.count("exhaustive", 0, set(batch))
                batch = []
    if batch:
        core.compare(ck, "exhaustive", batch, lambda s: "lex %s" % hexs(s), counted=True)
        total += len(batch)
        ck.count("exhaustive", 0, set(batch), sample={"text": batch[len(batch) // 2]})
    # (1b) exhaustive short strings over letters that spell reserved words (`in`, `def`, `if`) next to digits and `_`
    alpha2 = ["i", "n", "d", "e", "f", "1", "0", "_", " "]
    batch = ["".join(tup) for k in range(1, (5 if quick else 6) + 1) for tup in itertools.product(alpha2, repeat=k)]
    core.compare(ck, "exhaustive_words", batch, lambda s: "lex %s" % hexs(s), counted=True)
    total += len(batch)
    ck.count("exhaustive_words", 0, set(batch), sample={"text": batch[len(batch) // 2]})
    # (1c) every reserved word and bang operator with every short prefix/suffix glued on: model vs implementation
    glue = ["", "1", "0", "42", "_", "x", "0x", "0b", "0b1", "0x1", "!", "#", "$", "-", "+", "."]
    words = sorted(kw) + [b.lstrip("!") for b in bangs]
    batch = [pre + w + suf for w in words for pre in glue for suf in ["", "1", "_", "x", " ", "!"]]
    core.compare(ck, "glued_words", batch, lambda s: "lex %s" % hexs(s), counted=True)
    ck.count("glued_words", 0, set(batch), sample={"text": batch[len(batch) // 3]})
    # (1d) integer literals around the 64-bit boundaries in every base and sign, and the preprocessor directives as the lexer sees them
    nums = []
    for v in [0, 1, 2 ** 31, 2 ** 32, 2 ** 63 - 1, 2 ** 63, 2 ** 63 + 1, 2 ** 64 - 1, 2 ** 64, 2 ** 64 + 1, 10 ** 19, 10 ** 20, 2 ** 65, 2 ** 127]:
        for sign in ("", "+", "-"):
            nums += [sign + str(v), sign + "0x%x" % v, sign + "0X%x" % v, sign + "0b" + bin(v)[2:], sign + "0" * 3 + str(v), sign + "0x" + "0" * 20 + "%x" % v]
    nums += ["0b" + "1" * k for k in (1, 63, 64, 65, 128)] + ["0x" + "f" * k for k in (15, 16, 17, 32)] + ["9" * k for k in (18, 19, 20, 21, 40)]
    dirs = ["#ifdef A", "#ifndef B", "#endif", "#define C", "#else", "#", "#if", "#ifdefA", "#define", "# define X", "#ifdef\tA", "#include", "#elif", "#IFDEF A"]
    batch = [pre + x + suf for x in nums + dirs for pre in ("", " ", "a", "a ") for suf in ("", " ", ";", "\n", "x")]
    core.compare(ck, "boundary_numbers_and_directives", batch, lambda s: "lex %s" % hexs(s), counted=True)
    ck.count("boundary_numbers_and_directives", 0, set(batch), sample={"text": batch[len(batch) // 2]})
    # (1e) every punctuation token followed, across every kind of separator, by every reserved word and by identifiers that are
    # spelled like directive names: two tokens with exactly these kinds (`a # else` is a paste and a keyword)
    puncts = list(gen.FIXED_TEXT.items())[:18]
    seconds = [(w, kw[w]) for w in sorted(kw)] + [(w, "Id") for w in ("define", "ifdef", "ifndef", "endif", "elsewhere", "x", "_")] + [("7", "IntVal")]
    seps = [" ", "\t", "  \t ", "\n", "\r\n", " /* c */ ", "/**/", " // c\n"]
    pairs = [(pk, pt, w, wk, sp) for pk, pt in puncts for w, wk in seconds for sp in seps if not (pt in "+-" and wk == "IntVal" and False)]
    ptexts = ["a " + pt + sp + w + " ;" for pk, pt, w, wk, sp in pairs]
    pa_, _ = core.compare(ck, "punct_then_word", ptexts, lambda s_: "lex %s" % hexs(s_), counted=True)
    for (pk, pt, w, wk, sp), text, ra in zip(pairs, ptexts, pa_):
        got = [x.split(":")[0] for x in ra.split(" ") if x and x.split(":")[0] not in ("Whitespace", "LineComment", "BlockComment", "Eof")]
        if got != ["Id", pk, wk, "Semi"]:
            ck.fail(["C14", "token-pair", "%s %s" % (pk, w)], "%r followed by %r across %r is not lexed as %s then %s" % (pt, w, sp, pk, wk),
                    {"cmd": "lex", "text_hex": hexs(text)}, ra[:200], str(["Id", pk, wk, "Semi"]))
    ck.count("punct_then_word", 0, set(ptexts), sample={"text": ptexts[len(ptexts) // 3]})
    # (1e') every reserved word behind every directive, across every kind of gap (the macro name present, absent, digit-leading, on
    # the next line, behind tokens that are no words): a reserved word is that keyword wherever it stands
    dwords = [(w, kw[w]) for w in sorted(kw)]
    dgaps = [" ", "\n", " /* g */ ", " 4x4\n", " 0abc ", "\n$v = 0b01 ;\n// c\n[{ x }] \"s\" ", " FOO\n", " FOO ", "\t"]
    dtexts, dmeta = [], []
    for d_ in ("#define", "#ifdef", "#ifndef", "#else", "#endif", "#"):
        for g_ in dgaps:
            for w, wk in dwords:
                dtexts.append("#define ENABLED\n#ifdef ENABLED\n" + d_ + g_ + w + " ;")
                dmeta.append((d_, g_, w, wk))
                dtexts.append(d_ + g_ + w + " ;")
                dmeta.append((d_, g_, w, wk))
    da_, _ = core.compare(ck, "directive_then_word", dtexts, lambda s_: "lex %s" % hexs(s_), counted=True)
    for (d_, g_, w, wk), text, ra in zip(dmeta, dtexts, da_):
        toks = [x.split(":")[0] for x in ra.split(" ") if x and x.split(":")[0] not in ("Whitespace", "LineComment", "BlockComment", "Eof")]
        # (the word is the token in front of the final `;` unless the directive switched the rest of the text off)
        if len(toks) >= 2 and toks[-1] == "Semi" and toks[-2] != wk and toks[-2] in ("Id", "Error"):
            ck.fail(["C14", "word-after-directive", "%s %s" % (d_, w)], "the reserved word %r behind %r across %r is lexed as %s" % (w, d_, g_, toks[-2]),
                    {"cmd": "lex", "text_hex": hexs(text)}, ra[-200:], wk)
    ck.count("directive_then_word", 0, set(dtexts), sample={"text": dtexts[len(dtexts) // 3]})
    # (1f) a signed decimal literal glued to what follows: the sign belongs to the digits and to nothing else - `-4abc` is the literal
    # `-4` and the identifier `abc` (a digit-leading identifier has no sign), `+0x1F` is `+0` and `x1F` (hexadecimal and binary
    # literals are unsigned), a sign without a digit is punctuation
    signed = []
    for sg in "+-":
        for digits in ("4", "12", "0", "007"):
            for tail, tk in (("abc", "Id"), ("_lo", "Id"), ("x1F", "Id"), ("b1", "Id"), ("b", "Id"), ("x", "Id"), ("e5", "Id")):
                signed.append((sg + digits + tail, [("IntVal", len(sg + digits)), (tk, len(tail))]))
            signed.append((sg + digits + "]", [("IntVal", len(sg + digits)), ("RSquare", 1)]))
            signed.append(("i" + sg + digits + "j]", [("Id", 1), ("IntVal", len(sg + digits)), ("Id", 1), ("RSquare", 1)]))
        signed.append((sg + "abc", [("Plus" if sg == "+" else "Minus", 1), ("Id", 3)]))
        signed.append((sg + sg + "1", [("Plus" if sg == "+" else "Minus", 1), ("IntVal", 2)]))
    stexts = [t for t, _ in signed]
    sa_, _ = core.compare(ck, "signed_glued", stexts, lambda s_: "lex %s" % hexs(s_), counted=True)
    for (text, want), ra in zip(signed, sa_):
        got = []
        for x in ra.split(" "):
            if x and x.split(":")[0] not in ("Whitespace", "Eof"):
                k_, _, n_ = x.partition(":")
                got.append((k_, int(n_) if n_.isdigit() else None))
        if got != want:
            ck.fail(["C14", "signed-literal", text], "%r is not lexed as %s" % (text, want), {"cmd": "lex", "text_hex": hexs(text)}, ra[:200], str(want))
    ck.count("signed_glued", 0, set(stexts), sample={"text": stexts[3]})
    # (1g) code fragments end at the first `}]`, whatever braces and brackets stand in front of it; strings end at the first quote
    # that no odd run of backslashes escapes
    edges = []
    for body in ["", "}", "}}", "}}}", "}}}}", "a}}", "{a}}", " if (x) { y; }}", "]", "]}", "]]", "[{", "[{ }", "{", "}{", "\n}}", "\u00e9}}", "}}\n", "} }"]:
        t = "[{" + body + "}]"
        edges.append((t + " ;", [("CodeFragment", len(t.encode())), ("Semi", 1)]))
        edges.append((t + "[{ b }]", [("CodeFragment", len(t.encode())), ("CodeFragment", 7)]))
    for body in ["\\\\", "\\\\\\\"", "a\\\\\\\"b", "\\\"\\\\", "\\\\\\\\\\\"", "\\t\\n\\\\", "\\\\\\\"\\\\\\\""]:
        t = '"' + body + '"'
        edges.append((t + " x", [("StrVal", len(t)), ("Id", 1)]))
    etexts = [t for t, _ in edges]
    ea_, _ = core.compare(ck, "terminator_edges", etexts, lambda s_: "lex %s" % hexs(s_), counted=True)
    for (text, want), ra in zip(edges, ea_):
        got = []
        for x in ra.split(" "):
            if x and x.split(":")[0] not in ("Whitespace", "Eof"):
                k_, _, n_ = x.partition(":")
                got.append((k_, int(n_) if n_.isdigit() else None))
        if got != want:
            ck.fail(["C14", "terminator", text], "%r is not lexed as %s" % (text, want), {"cmd": "lex", "text_hex": hexs(text)}, ra[:200], str(want))
    ck.count("terminator_edges", 0, set(etexts), sample={"text": etexts[5]})
    # (2) spec-level sequences: reference expectation vs implementation (and model)
    cases = []
    for _ in range(1500 if quick else 400000):
        toks, text = [], ""
        for _ in range(rng.choice([1, 2, 4, 8])):
            while True:
                tx, kind = spec_token(rng, kw, bangs)
                break
            sep = separator(rng)
            if sep.startswith("/*") and not valid_comment(sep):
                sep = " "
            # a '/' directly after a code fragment/string is fine; a token is always followed by its separator
            toks.append((tx, kind))
            text += tx + sep
        cases.append((toks, text))
    a, b = core.compare(ck, "spec_sequences", [c[1] for c in cases], lambda s: "lex %s" % hexs(s))
    nontriv = set()
    for (toks, text), ra in zip(cases, a):
        nontriv.add(text)
        got = []
        for item in ra.split(" "):
            parts = item.split(":")
            if parts[0] in ("Whitespace", "LineComment", "BlockComment", "Eof"):
                continue
            got.append((parts[0], int(parts[1]), len(parts) > 2))
        exp = [(k, len(tx.encode())) for tx, k in toks]
        ok = len(got) == len(exp) and all((g[0] == e[0] or (e[0] == "X" and g[0].startswith("X"))) and g[1] == e[1] and not g[2]
                                          for g, e in zip(got, exp))
        if not ok:
            first = next((i for i, (g, e) in enumerate(zip(got, exp)) if not ((g[0] == e[0] or (e[0] == "X" and g[0].startswith("X"))) and g[1] == e[1] and not g[2])), min(len(got), len(exp)))
            culprit = toks[first][0] if first < len(toks) else "<extra>"
            ck.fail(["C14", "token", culprit if len(culprit) < 40 else core.sig_hash(culprit)],
                    "valid token %r is not lexed as one %s token" % (culprit[:40], toks[first][1] if first < len(toks) else "?"),
                    {"cmd": "lex", "text_hex": hexs(text)}, ra[:300], str(exp)[:300])
    ck.count("spec_sequences", len(cases), nontriv, sample={"text": cases[0][1][:120], "impl": a[0][:200]})
    return ck.finish(extra_cov={"exhaustive": True, "exhaustive_strings": total}, **FINISH)


def replay(ck, path):
    with open(path) as f:
        rp = json.load(f)
    core.build_harness()
    hx = rp["case"]["text_hex"]
    print("text :", bytes.fromhex(hx).decode()[:200])
    print("impl :", core.impl(["lex %s" % hx])[0][:400])
    print("model:", core.model(["lex %s" % hx])[0][:400])
    return 1
