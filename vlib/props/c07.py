"""C07 incremental consistency: proof on the host-input model (Props/C07.lean) + correspondence of the
observable inputs (file set, include maps) + oracle: full query set after a history on a real
AnalysisHost == the same queries on a freshly started host given only the final state."""
import itertools
import json

from .. import core

TRUSTED = [
    "Lean 4.33 kernel; axioms per theorem under coverage.theorems",
    "salsa 0.16: a derived query equals its pure function of the current inputs (memoisation is exercised by the harness, not modelled)",
    "hand-written model Host.lean (set_file_content / set_root_file = collect_sources over the inputs), tied by correspondence of file sets and include maps",
    "include resolution in the correspondence uses a flat directory (name resolves iff the file exists); other resolution paths are C16's",
]
RULE = ("histories over 2-4 files: every history of <= 2 operations and a 2% sample of those of 3 (quick) / every history of <= 3 and a 1% "
        "sample of those of 4 (thorough), drawn from {edit a file to one of its text variants keeping the root, edit-and-make-root, switch root "
        "with or without the text}, plus random histories of 5-10 operations and histories with files changing on disk; text variants "
        "add/remove include statements, switch between clean and faulty declarations, start with a byte order mark, use every statement kind; a history is non-trivial if it changes "
        "the include structure or the root at least once after the first root selection; every second history is queried in full "
        "after each operation, so that the derived queries are recomputed incrementally")
FINISH = dict(level="proof", trusted_base=TRUSTED, rule=RULE)
FILES = ["/w/a.td", "/w/b.td", "/w/c.td", "/w/d.td"]


def variants(i, nfiles):
    """text variants of file i: (includes tuple, body)"""
    others = [j for j in range(nfiles) if j != i]
    out = []
    bodies = ["class C%d;" % i, "class C%d : C%d { int f%d = 1; }" % (i, others[0], i) if others else "class C%d { int f; }" % i, "class",
              # records without a name of their own (the indexer makes one up), with members to hover over
              "class C%d { int v = 0; }\ndef : C%d { int w%d = v; }\ndef { string s%d = \"x\"; }" % (i, i, i, i),
              "multiclass M%d { def _x { int q%d = 1; } }\ndefm : M%d;\ndefm m%d : M%d;\ndef { int z%d = 2; }" % (i, i, i, i, i, i)]
    incsets = [(), tuple(others[:1]), tuple(others[:2]), (i,)]
    for inc in incsets:
        for b in bodies:
            out.append((inc, b))
    return out


def text_of(inc, body):
    if body.startswith("\ufeff"):       # a byte order mark stays the first character of the text
        return "\ufeff" + text_of(inc, body[1:])
    return "".join('include "%s"\n' % FILES[j].rsplit("/", 1)[1] for j in inc) + body + "\n"


def histories(ck):
    rng = ck.rng
    quick = ck.tier == "quick"
    out = []
    nfiles = 3
    base = [("edit", i, (), "class C%d;" % i) for i in range(nfiles)]
    atoms = []
    for i in range(nfiles):
        vs = variants(i, nfiles)
        nb = 5
        for inc, b in (vs[1], vs[nb + 1], vs[2 * nb + 2], vs[3 * nb], vs[3], vs[nb + 3], vs[nb + 4]):
            atoms.append(("edit", i, inc, b))
            atoms.append(("editroot", i, inc, b))
        # texts that start with a byte order mark (the two ways a text enters the database must agree on it)
        bom = "\ufeffclass C%d {\n  int x%d = 1;\n}" % (i, i)
        for inc in ((), tuple(j for j in range(nfiles) if j != i)[:1]):
            atoms.append(("edit", i, inc, bom))
            atoms.append(("editroot", i, inc, bom))
        # every statement kind, with uses that reach into the other files' declarations when they are included
        rich = ("class R%d<int p, string q = \"s\"> { int f = p; bits<4> b; let b{1-0} = 1; }\ndefvar v%d = 1;\nassert !eq(v%d, 1), \"m\";\n"
                "defset list<R%d> s%d = { def in%d : R%d<p = 2>; }\nforeach i = [1, 2] in { def e%d#i : R%d<i> { let f = i; } }\n"
                "if !eq(v%d, 1) then { def t%d : R%d<3>; } else { def u%d; }\nlet f = 4 in { def l%d : R%d<5>; }\ndump \"x\" # v%d;\n" % ((i,) * 16))
        for inc in ((), tuple(j for j in range(nfiles) if j != i)[:1]):
            atoms.append(("edit", i, inc, rich))
            atoms.append(("editroot", i, inc, rich))
        atoms.append(("root", i, None, None))
        atoms.append(("rootbare", i, None, None))      # set_root_file alone: the text is not sent again
    for k in range(1, (3 if quick else 4) + 1):
        for combo in itertools.product(atoms, repeat=k):
            if quick and k == 3 and rng.random() > 0.02:
                continue
            if (not quick) and k == 4 and rng.random() > 0.01:
                continue
            out.append(base + [("root", 0, None, None)] + list(combo))
    for _ in range(150 if quick else 30000):
        n = rng.choice([2, 3, 4])
        h = [("edit", i, (), "class C%d;" % i) for i in range(n)] + [("root", rng.randrange(n), None, None)]
        for _ in range(rng.randrange(4, 11)):
            i = rng.randrange(n)
            kind = rng.choice(["edit", "edit", "editroot", "root", "rootbare"])
            if kind in ("root", "rootbare"):
                h.append((kind, i, None, None))
            else:
                inc, b = rng.choice(variants(i, n))
                h.append((kind, i, inc, b))
        out.append(h)
    # a text the host was given, replaced on disk while the file is only an include, then given again unchanged: what the host
    # remembers about a file and what the database holds must not drift apart (directed, every pair of files)
    for r in range(nfiles):
        for b in range(nfiles):
            if b == r:
                continue
            x, y = "class C%d;" % b, "class C%d { int changed%d = 1; }" % (b, b)
            pre = [("edit", i, (), "class C%d;" % i) for i in range(nfiles)] + [("edit", b, (), x), ("editroot", r, (b,), "class C%d;" % r)]
            out.append(pre + [("disk", b, (), y), ("editroot", b, (), x)])
            out.append(pre + [("disk", b, (), y), ("edit", b, (), x), ("root", r, None, None)])
            out.append(pre + [("disk", b, (), y), ("editroot", r, (), "class C%d;" % r), ("disk", b, (), x), ("editroot", b, (), x), ("disk", b, (), y), ("root", r, None, None)])
            out.append(pre + [("disk", b, (), y), ("disk", b, (), x), ("editroot", b, (), y), ("editroot", r, (b,), "class C%d;" % r)])
    # texts of equal length that differ only in their last few bytes (every length modulo 8), as successive versions of one file,
    # as two files selected one after the other, and as versions of an included file: whatever is remembered about a text under a
    # key shorter than the text shows here (each history twice: with and without queries after every operation)
    if nfiles >= 2:
        for pad in range(8):
            t = lambda tag, k=0: "class C%d;%s\ndef Reg%s;" % (k, " " * pad, tag)
            for h in ([("editroot", 0, (), t("1")), ("edit", 0, (), t("")), ("edit", 0, (), t("2")), ("root", 0, None, None)],
                      [("editroot", 0, (), t("1")), ("edit", 0, (), t("2")), ("root", 0, None, None)],
                      [("editroot", 0, (), t("1")), ("editroot", 1, (), t("2")), ("root", 1, None, None)],
                      [("edit", 1, (), t("7", 1)), ("editroot", 0, (1,), "class C0;"), ("edit", 1, (), t("8", 1)), ("edit", 0, (1,), "class C0; def u : C1;"), ("root", 0, None, None)]):
                out.append(h)
                out.append(list(h))
    # files that change on disk behind the host's back (included files that are not open), interleaved with edits and root
    # switches; such a history ends with the client sending a document and the server selecting it as root
    for _ in range(400 if quick else 30000):
        n = rng.choice([2, 3, 4])
        r0 = rng.randrange(n)
        # every second such history starts without one of the files: includes of it resolve nowhere until it appears on disk
        # (or is opened) later, while the texts of the files that include it stay as they are
        absent = rng.choice([j for j in range(n) if j != r0]) if rng.random() < 0.5 else None
        h = [("edit", i, (), "class C%d;" % i) for i in range(n) if i != absent] + [("root", r0, None, None)]
        if absent is not None:
            inc_abs = [v for v in variants(r0, n) if absent in v[0]]
            if inc_abs:
                h.append(("edit", r0, *rng.choice(inc_abs)))
            other = [j for j in range(n) if j not in (r0, absent)]
            if other and rng.random() < 0.6:
                j = rng.choice(other)
                vs_j = [v for v in variants(j, n) if absent in v[0]]
                if vs_j:
                    h.append(("edit", j, *rng.choice(vs_j)))
                    h.append(("edit", r0, (j,), "class C%d;" % r0))
            h.append(("disk", absent, (), "class C%d;" % absent))
        for _ in range(rng.randrange(3, 9)):
            i = rng.randrange(n)
            kind = rng.choice(["disk", "disk", "edit", "editroot", "root"])
            if kind == "root":
                h.append(("root", i, None, None))
            else:
                inc, b = rng.choice(variants(i, n))
                h.append((kind, i, inc, b))
        i = rng.randrange(n)
        if rng.random() < 0.5:
            h.append(("root", i, None, None))
        else:
            inc, b = rng.choice(variants(i, n))
            h.append(("editroot", i, inc, b))
        out.append(h)
    return out


def canon(ans):
    """order-insensitive where the code iterates hash containers (completion items, diagnostics map)"""
    if ans is None:
        return None
    a = json.loads(json.dumps(ans))
    a["diagnostics"] = sorted(a["diagnostics"], key=lambda e: e[0])
    for f in a["files"]:
        f[1] = [sorted(x, key=json.dumps) if (isinstance(x, list) and x and isinstance(x[0], list) and len(x[0]) == 3 and x[0][2] in ("Keyword", "Type", "Class")) else x for x in f[1]]
    return a


def run(ck):
    ck.proof = core.proof_stage("C07")
    if not ck.proof["ok"]:
        ck.broke("proof", {"theorem_file": "lean/TgModel/Props/C07.lean", "detail": ck.proof["detail"]})
    if not core.ensure_built(ck):
        return ck.finish(**FINISH)
    hs = histories(ck)
    lines, mlines, metas = [], [], []
    for h in hs:
        ops = []
        texts = {}      # text string -> id
        incs_of = {}    # text id -> include path ids
        mops = []
        fs = {}
        root = None

        def tid(inc, body):
            t = text_of(inc, body)
            if t not in texts:
                texts[t] = len(texts)
                incs_of[texts[t]] = list(inc)
            return texts[t], t
        for kind, i, inc, body in h:
            p = FILES[i]
            if kind == "rootbare":
                ops.append(["rootbare", p])
                if i in fs:
                    mops.append("r:%d" % i)
                    root = i
            elif kind == "root":
                ops.append(["root", p])
                if i in fs:
                    mops.append("e:%d:%d" % (i, fs[i]))
                    mops.append("r:%d" % i)
                    root = i
            elif kind == "disk":
                k, t = tid(inc, body)
                ops.append([kind, p, t])
                fs[i] = k
                mops.append("d:%d:%d" % (i, k))
                if root is not None:
                    mops.append("r:%d" % root)
            else:
                k, t = tid(inc, body)
                ops.append([kind, p, t])
                fs[i] = k
                mops.append("e:%d:%d" % (i, k))
                if kind == "editroot":
                    root = i
                if root is not None:
                    mops.append("r:%d" % root)
        # every second history is queried after each operation (the derived queries are then recomputed incrementally)
        lines.append("hist " + json.dumps({"ops": ops, "each": len(lines) % 2 == 0}))
        mlines.append("host %s %s" % (";".join((",".join(str(x) for x in incs_of[k]) or ".") for k in range(len(texts))) or ".", ";".join(mops)))
        metas.append(h)
    a = core.impl(lines, timeout=300, tag="h07")
    b = core.model(mlines, timeout=120, tag="m07")
    nontriv = set()
    ndis = 0
    for h, ra, rb, ml in zip(metas, a, b, mlines):
        key = json.dumps(h)
        if sum(1 for op in h[4:] if op[0] in ("root", "rootbare", "editroot") or op[2]) > 0:
            nontriv.add(core.sig_hash(key))
        sig = ["C07", "history", core.sig_hash(key)]
        case = {"history": [[k, FILES[i], (text_of(inc, body) if inc is not None else None)] for k, i, inc, body in h]}
        if ra.startswith(("PANIC", "CRASH", "HANG", "SKIPPED")):
            ck.fail(sig, "history makes the analysis abort: %s" % ra[:60], case, ra[:200], "answers")
            continue
        d = json.loads(ra)
        ch, cf = canon(d.get("hist")), canon(d.get("fresh"))
        if ch != cf:
            ck.fail(sig, "queries after the history differ from a freshly started analysis of the final state", case,
                    first_diff(ch, cf), "equal answers")
        # correspondence with the model: root, file set, include maps
        if ch is not None:
            files = [f[0] for f in ch["files"]]
            rows = []
            for f in ch["files"]:
                links = f[1][2] or []
                text_f = None
                for k, i, inc, body in h:
                    if k not in ("root", "rootbare") and FILES[i] == f[0]:
                        text_f = text_of(inc, body)
                inc_map = ",".join("%d>%d" % (text_f[: l[0]].count("\n"), FILES.index(l[2])) for l in links)
                rows.append("%d=%s" % (FILES.index(f[0]), inc_map))
            impl_c = "root=%d files=%s %s" % (FILES.index(d["root"]), sorted(FILES.index(x) for x in files), " ".join(sorted(rows)))
            import re
            mm = re.match(r"root=(\d+) files=\[(.*?)\] ?(.*)$", rb)
            if mm:
                mrows = sorted(re.sub(r"=\d+:", "=", r) for r in mm.group(3).split(" ") if r)
                model_c = "root=%s files=%s %s" % (mm.group(1), sorted(int(x) for x in mm.group(2).split(",") if x.strip()), " ".join(mrows))
            else:
                model_c = rb
            if impl_c != model_c:
                ndis += 1
                if ndis <= 3:
                    ck.broke("correspondence", {"stream": "host-inputs", "case": case, "impl": impl_c, "model": model_c, "model_cmd": ml})
    st = ck.cov["streams"].setdefault("histories", {"evaluations": 0, "distinct_nontrivial": 0})
    st["model_disagreements"] = ndis
    ck.count("histories", len(hs), nontriv, sample={"history": [[k, FILES[i], inc, body] for k, i, inc, body in hs[len(hs) // 2]], "model": b[len(hs) // 2]})
    return ck.finish(extra_cov={"traces_validated_against_impl": len(hs)}, **FINISH)


def first_diff(a, b, path=""):
    if type(a) != type(b):
        return {"at": path, "history": a, "fresh": b}
    if isinstance(a, dict):
        for k in a:
            d = first_diff(a[k], b.get(k), path + "/" + k)
            if d:
                return d
    elif isinstance(a, list):
        if len(a) != len(b):
            return {"at": path, "history_len": len(a), "fresh_len": len(b), "history": a[:3], "fresh": b[:3]}
        for i, (x, y) in enumerate(zip(a, b)):
            d = first_diff(x, y, path + "/%d" % i)
            if d:
                return d
    elif a != b:
        return {"at": path, "history": a, "fresh": b}
    return None


def replay(ck, path):
    with open(path) as f:
        rp = json.load(f)
    core.build_harness()
    ops = [[k, p, t] if t is not None else [k, p] for k, p, t in rp["case"]["history"]]
    o = core.impl(["hist " + json.dumps({"ops": ops})])
    d = json.loads(o[0])
    print(json.dumps(first_diff(canon(d["hist"]), canon(d["fresh"])))[:1500])
    return 1
