"""C02 parser totality: proof (verified progress checker + decide on the grammar, generic error
invariants) + correspondence + step-budget oracle on the implementation."""
import json
import re

from .. import core, gen
from ..core import hexs
from . import c01

TRUSTED = [
    "Lean 4.33 kernel (incl. decide +kernel for grammar_checks); axioms per theorem under coverage.theorems",
    "GrammarSumms.lean is inferred by unverified code and validated by the verified checker",
    "hand-written models Lex/Prep/Dsl/Grammar.lean tied to the Rust code by differential correspondence",
    "rowan GreenNodeBuilder panics are not excluded by the theorem (Fine admits builder panics); covered by correspondence only",
    "thread stack depth for 256-level nesting is a runtime fact: measured (harness main thread, release build), not proved",
    "linear work bound: steps/token measured on both sides against a fixed constant, not proved",
]
RULE = ("C01's input streams plus adversarial unterminated constructs (string, code block, comment, #ifdef, every bracket) "
        "cut at every position, and bracket nesting at depths 64/128/256; distinct non-empty texts count as non-trivial")
FINISH = dict(level="proof", trusted_base=TRUSTED, rule=RULE)
K_IMPL = 64      # peek/lex/start_node calls per token, measured max on corpus ~7
K_MODEL = 16     # lex/start_node per token in the model

SEEDS = [
    'class A<int x = 1> : B<x> { int y = !add(x, 1); let z = [1, 2]<int>; code c = [{ c }]; }',
    'def d : A<"s", [{ c }]> { let s = "a\\"b"; }',
    'let a = 1, b<1...3> = 0b1 in { def x; }',
    'foreach i = [1, 2] in def X#i : B<i>;',
    'if !eq(a, 1) then { defvar v = (op a:$x, $y); } else class C;',
    'multiclass M<int p> : N<p> { def _a : A<p>; defm _b : O; }',
    'defset list<A> S = { def q; } defm m : M<1>; assert !lt(1, 2), "m"; dump "x";',
    '#ifdef X\nclass A;\n#else\nclass B;\n#endif\n/* c */ // l\nclass D { bits<4> b = {1, 0, ?, 1}; list<int> l = v[1...2, 3]; int f = r.f{1-2}; }',
    'defvar c = !cond(!lt(x, 0): "n", true: "p"); defvar l = !foreach(i, [1], !add(i, 1));',
    # constructs the coverage study found unvisited: operator lists, defvar in a multiclass, juxtaposed integers in slices and ranges,
    # a named dag argument without value, `field`, directives at the end of the text
    'defvar a = !dag(1,2,3) # !getdagarg<int>(d, 0) # !tolower("X");\n#ifndef 1',
    'multiclass M { defvar v = 1; def a { int x = l[1 2]; } }',
    'class A { field int x; let x{1-0} = 1; int y = l[1...2]; int z = l[1 2]; dag d = (op a:); }',
    '#define X\n#ifdef X\nclass A : B, C<1>;\ndef d { code c = [{ x }]; }',
]


def nestings():
    out = []
    for d in (64, 128, 256):
        out.append("defvar x = " + "[" * d + "1" + "]" * d + ";")
        out.append("defvar x = " + "(a " * d + ")" * d + ";")
        out.append("defvar x = " + "!add(1, " * d + "1" + ")" * d + ";")
        out.append("defvar x = " + "{" * d + "1" + "}" * d + ";")
        out.append("class A { list<" * 1 + "list<" * d + "int" + ">" * d + "> f; }")
        out.append("if 1 then " * d + "def x;")
        out.append("let a = 1 in { " * d + "}" * d)
        out.append("foreach i = [1] in { " * d + "}" * d)
        out.append("defvar x = " + "A<" * d + "1" + ">" * d + ";")
        out.append("defvar x = a" + "[b" * d + "]" * d + ";")
        out.append("[" * d)
        out.append("defvar x = " + "(" * d)
        out.append("#ifdef X\n" * d + "#endif\n" * d)
        out.append("/*" * d + "*/" * d)
    return out


def wide_tokens(quick):
    """every token of every seed sentence replaced by a long string / code block / unterminated string whose first multi-byte
    character starts at byte 1..33 of the token (2-, 3- and 4-byte characters): each error site of the grammar meets a token
    that a message or a range computed in bytes would cut inside a character"""
    import re
    out = []
    chars = ["\u00e9", "\u65e5", "\U0001F600"]
    n = 0
    for sd in SEEDS:
        toks = re.findall(r'"(?:[^"\\]|\\.)*"|\[\{.*?\}\]|/\*.*?\*/|//[^\n]*|#[a-z]+|![a-z]+|[A-Za-z_0-9]+|\.\.\.|\S', sd)
        for i in range(len(toks)):
            for pad in range(0, 33):
                for ci, c in enumerate(chars):
                    if quick and (i + pad + ci) % 3:
                        continue
                    n += 1
                    kind = n % 3
                    if kind == 0:
                        w = '"' + "a" * pad + c + c + " tail\""
                    elif kind == 1:
                        w = "[{" + "x" * pad + c + c + c + " }]"
                    else:
                        w = '"' + "b" * pad + c + " never closed\n"
                    out.append(" ".join(toks[:i] + [w] + toks[i + 1:]))
    return out


def run(ck):
    ck.proof = core.proof_stage("C02")
    if not ck.proof["ok"]:
        ck.broke("proof", {"theorem_file": "lean/TgModel/Props/C02.lean", "detail": ck.proof["detail"]})
    if not core.ensure_built(ck):
        return ck.finish(**FINISH)
    streams = c01.inputs(ck)
    cuts = []
    for sd in SEEDS:
        for i in range(len(sd) + 1):
            cuts.append(sd[:i])
    streams["cut_everywhere"] = cuts
    streams["nesting"] = nestings()
    streams["wide_tokens"] = wide_tokens(ck.tier == "quick")
    worst = {"impl": 0.0, "model": 0.0}
    # (a text is parsed in milliseconds: the limit only has to tell a busy machine from a parser that does not return)
    tmo = 90 if ck.tier == "quick" else 600
    nhang = 0
    for name, texts in streams.items():
        if not texts:
            continue
        if nhang >= 3:      # the parser does not return on several inputs already: no need to wait for more of them
            break
        big = name.startswith("corpus")
        a, b = core.compare(ck, name, texts, lambda t: "%s %s" % ("parseh" if big else "parse", hexs(t)), timeout=tmo)
        if any(str(x).startswith("HANG") for x in a):
            nhang += sum(1 for x in a if str(x).startswith("HANG"))
            st = ms = orc = ["SKIPPED"] * len(texts)
        else:
            st = core.impl(["steps %s" % hexs(t) for t in texts], tag="st" + name, timeout=tmo)
            ms = core.model(["steps %s" % hexs(t) for t in texts], tag="ms" + name, timeout=tmo)
            orc = core.impl(["oracle01 %s" % hexs(t) for t in texts], tag="or" + name, timeout=tmo)
        nontriv = set()
        for t, ra, rs, rm, ro in zip(texts, a, st, ms, orc):
            if t:
                nontriv.add(t if len(t) < 200 else hash(t))
            sig_t = c01.gen_sig(t)
            for r, what in ((ra, "parse"), (rs, "steps")):
                if r.startswith("PANIC") or r.startswith("CRASH") or r.startswith("HANG"):
                    kind = "non-progress (step budget exceeded)" if "budget" in r else "panic/abort"
                    ck.fail(["C02", "abort", sig_t], "parser %s on input: %s" % (kind, r[:80]),
                            {"cmd": what, "text_hex": hexs(t[:6000])}, r[:300], "terminates normally")
            m = re.match(r"steps=(\d+) ntok=(\d+)", rs)
            if m:
                ratio = int(m.group(1)) / (int(m.group(2)) + 1)
                worst["impl"] = max(worst["impl"], ratio)
                if ratio > K_IMPL:
                    ck.fail(["C02", "work", sig_t], "parser work %d steps for %d tokens exceeds %d per token" % (int(m.group(1)), int(m.group(2)), K_IMPL),
                            {"cmd": "steps", "text_hex": hexs(t[:6000])}, rs, "steps <= %d*(tokens+1)" % K_IMPL)
            m = re.match(r"steps=(\d+) ntok=(\d+)", rm)
            if m:
                worst["model"] = max(worst["model"], int(m.group(1)) / (int(m.group(2)) + 1))
            elif rm != "SKIPPED" and not (rm.startswith("PANIC") and ra.startswith("PANIC")):
                ck.broke("correspondence", {"stream": name + ":model-steps", "case": t[:300], "model": rm[:200]})
            if "empty-message" in ro or "bad-error-range" in ro:
                ck.fail(["C02", "error-shape", sig_t], "syntax error with empty message or range outside the text: %s" % ro[:100],
                        {"cmd": "oracle01", "text_hex": hexs(t[:6000])}, ro[:300], "ok")
        ck.count(name, len(texts), nontriv, sample={"stream": name, "text": texts[len(texts) // 2][:100], "impl_steps": st[len(texts) // 2]})
    if worst["model"] > K_MODEL:
        ck.broke("correspondence", {"stream": "model-steps", "detail": "model steps/token %.1f exceeds %d" % (worst["model"], K_MODEL)})
    return ck.finish(extra_cov={"max_steps_per_token_impl": round(worst["impl"], 2), "max_steps_per_token_model": round(worst["model"], 2),
                                "bound_impl": K_IMPL, "bound_model": K_MODEL}, **FINISH)


def replay(ck, path):
    with open(path) as f:
        rp = json.load(f)
    case = rp.get("case", {})
    if "text_hex" not in case:
        print(json.dumps(rp)[:800])
        return 1
    core.build_harness()
    o = core.impl(["parse %s" % case["text_hex"], "steps %s" % case["text_hex"], "oracle01 %s" % case["text_hex"]])
    for x in o:
        print(x[:300])
    return 1 if any(x.startswith(("PANIC", "CRASH", "HANG", "FAIL")) for x in o) else 0
