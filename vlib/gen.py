"""Seeded generators: token classes, grammar-derived sentences, mutations, corpus slices."""
import os
import random

from .core import ROOT

# --------------------------------------------------------------------------- token classes
# one or more representative texts per lexical class (valid classes first, then error classes)
KEYWORDS = ["assert", "bit", "bits", "class", "code", "dag", "def", "defm", "defset", "defvar", "dump", "else",
            "field", "foreach", "if", "in", "include", "int", "let", "list", "multiclass", "string", "then",
            "true", "false"]
PUNCT = ["-", "+", "[", "]", "{", "}", "(", ")", "<", ">", ":", ";", ",", ".", "=", "?", "#", "..."]
BANGS = ["!add", "!cond", "!foreach", "!cast", "!if", "!listconcat", "!getdagop", "!logtwo", "!eq", "!isa"]
TOKEN_REPS = {
    "ws": [" ", "\n", "\t ", "\r\n", "\x0c", " ", " "],
    "line_comment": ["// c\n", "//\n", "// é\r\n"],
    "block_comment": ["/* c */", "/**/", "/* é\n */", "/* /* n */ */"],
    "id": ["a", "Foo", "_x1", "NAME", "x", "4abc", "0xZ", "00x1", "1e5", "10x1F", "7_"],
    "int": ["0", "42", "0x1F", "18446744073709551615"],
    "bin": ["0b01"],
    "signed": ["-5", "+7"],
    "str": ['"s"', '""', '"a\\"b"', '"a\\\\"', '"é"'],
    "code": ["[{ c }]", "[{}]", "[{ ]} }]"],
    "var": ["$v", "$_a1"],
    "kw": KEYWORDS,
    "punct": PUNCT,
    "bang": BANGS,
    "pp": ["#ifdef X\n", "#ifndef X\n", "#else\n", "#endif\n", "#define X\n", "#ifdef\n", "#define 1\n", "#ifdefé"],
    # error classes
    "e_char": ["@", "/", "\\", "é", "`", "\U0001F600", "\x00"],
    "e_num": ["0x", "0b", "0x ", "18446744073709551616", "-9223372036854775809", "0xFFFFFFFFFFFFFFFFF", "0b12", "0x1G"],
    "e_str": ['"abc', '"a\nb"', '"a\\'],
    "e_var": ["$", "$1"],
    "e_code": ["[{ c", "[{"],
    "e_bang": ["!", "!foo", "!log2", "!Add"],
    "e_dots": ["..", ". ."],
    "e_unterminated_comment": ["/* c", "/*/"],
}
ALL_REPS = [(cls, t) for cls, ts in TOKEN_REPS.items() for t in ts]


def class_sequences(max_len):
    """every sequence of one representative per class (first text of each class), lengths 1..max_len"""
    reps = [(cls, ts[0]) for cls, ts in TOKEN_REPS.items()]
    out = [[]]
    frontier = [[]]
    for _ in range(max_len):
        nxt = []
        for seq in frontier:
            for r in reps:
                nxt.append(seq + [r])
        out.extend(nxt)
        frontier = nxt
    return out


def random_token_soup(rng, n):
    return [rng.choice(ALL_REPS) for _ in range(n)]


def join_reps(seq, sep=""):
    return sep.join(t for _, t in seq)


# --------------------------------------------------------------------------- documented grammar
# syntax.md as extended by the rule comments in grammar/*.rs; EBNF as nested tuples.
def T(k):
    return ("tok", k)


def N(n):
    return ("nt", n)


def S(*xs):
    return ("seq",) + xs


def A(*xs):
    return ("alt",) + xs


def O(x):
    return ("opt", x)


def R(x):
    return ("star", x)


def P(x):
    return ("plus", x)


def sep_list(item, sep="Comma"):
    return S(item, R(S(T(sep), item)))


BLOCK_OR_STMT = A(S(T("LBrace"), R(N("Statement")), T("RBrace")), N("Statement"))
GRAMMAR = {
    "SourceFile": R(N("Statement")),
    "Statement": A(N("Include"), N("Assert"), N("Class"), N("Def"), N("Defm"), N("Defset"), N("Defvar"), N("Dump"),
                   N("Foreach"), N("If"), N("Let"), N("MultiClass")),
    "Include": S(T("Include"), N("String")),
    "Class": S(T("Class"), T("Id"), O(N("TemplateArgList")), N("RecordBody")),
    "Def": S(T("Def"), O(N("NameValue")), N("RecordBody")),
    "Let": S(T("Let"), sep_list(N("LetItem")), T("In"), BLOCK_OR_STMT),
    "LetItem": S(T("Id"), O(S(T("Less"), N("RangeList"), T("Greater"))), T("Equal"), N("Value")),
    "MultiClass": S(T("MultiClass"), T("Id"), O(N("TemplateArgList")), N("ParentClassList"), T("LBrace"),
                    P(N("MultiClassStatement")), T("RBrace")),
    "MultiClassStatement": A(N("Assert"), N("Def"), N("Defm"), N("Dump"), N("Foreach"), N("Let"), N("If")),
    "Defm": S(T("Defm"), O(N("NameValue")), N("ParentClassList"), T("Semi")),
    "Defset": S(T("Defset"), N("Type"), T("Id"), T("Equal"), T("LBrace"), R(N("Statement")), T("RBrace")),
    "Defvar": S(T("Defvar"), T("Id"), T("Equal"), N("Value"), T("Semi")),
    "Dump": S(T("Dump"), N("Value"), T("Semi")),
    "Foreach": S(T("Foreach"), T("Id"), T("Equal"), N("ForeachIteratorInit"), T("In"), BLOCK_OR_STMT),
    "ForeachIteratorInit": A(S(T("LBrace"), N("RangeList"), T("RBrace")), N("RangePiece"), N("Value")),
    "If": S(T("If"), N("Value"), T("Then"), BLOCK_OR_STMT, O(S(T("ElseKw"), BLOCK_OR_STMT))),
    "Assert": S(T("Assert"), N("Value"), T("Comma"), N("Value"), T("Semi")),
    "TemplateArgList": S(T("Less"), sep_list(N("TemplateArgDecl")), T("Greater")),
    "TemplateArgDecl": S(N("Type"), T("Id"), O(S(T("Equal"), N("Value")))),
    "RecordBody": S(N("ParentClassList"), N("Body")),
    "ParentClassList": O(S(T("Colon"), sep_list(N("ClassRef")))),
    "ClassRef": S(T("Id"), O(S(T("Less"), O(N("ArgValueList")), T("Greater")))),
    "ArgValueList": sep_list(N("ArgValue")),
    "ArgValue": A(N("Value"), S(N("Value"), T("Equal"), N("Value"))),
    "Body": A(T("Semi"), S(T("LBrace"), R(N("BodyItem")), T("RBrace"))),
    "BodyItem": A(N("FieldDef"), N("FieldLet"), N("Defvar"), N("Assert"), N("Dump")),
    "FieldDef": S(O(T("Field")), N("Type"), T("Id"), O(S(T("Equal"), N("Value"))), T("Semi")),
    "FieldLet": S(T("Let"), T("Id"), O(S(T("LBrace"), N("RangeList"), T("RBrace"))), T("Equal"), N("Value"), T("Semi")),
    "Type": A(T("Bit"), T("Int"), T("String"), T("Dag"), T("Code"), S(T("Bits"), T("Less"), N("Integer"), T("Greater")),
              S(T("List"), T("Less"), N("Type"), T("Greater")), T("Id")),
    "Value": S(N("InnerValue"), R(S(T("Paste"), N("InnerValue")))),
    "InnerValue": S(N("SimpleValue"), R(N("ValueSuffix"))),
    # def/defm names: suffixes may not start with '{' (Value(NameMode) in the rule comments)
    "NameValue": S(N("InnerNameValue"), R(S(T("Paste"), N("InnerNameValue")))),
    "InnerNameValue": S(N("SimpleValue"), R(A(N("SliceSuffix"), N("FieldSuffix")))),
    "ValueSuffix": A(N("RangeSuffix"), N("SliceSuffix"), N("FieldSuffix")),
    "RangeSuffix": S(T("LBrace"), N("RangeList"), T("RBrace")),
    "RangeList": sep_list(N("RangePiece")),
    "RangePiece": A(N("Integer"), S(N("Integer"), T("DotDotDot"), N("Integer")), S(N("Integer"), T("Minus"), N("Integer")),
                    S(N("Integer"), N("Integer"))),
    "SliceSuffix": S(T("LSquare"), N("SliceElements"), T("RSquare")),
    "SliceElements": S(R(S(N("SliceElement"), T("Comma"))), N("SliceElement"), O(T("Comma"))),
    "SliceElement": A(N("Value"), S(N("Value"), T("DotDotDot"), N("Value")), S(N("Value"), T("Minus"), N("Value")),
                      S(N("Value"), N("Integer"))),
    "FieldSuffix": S(T("Dot"), T("Id")),
    "SimpleValue": A(N("Integer"), N("String"), T("CodeFragment"), T("TrueVal"), T("FalseVal"), T("Question"),
                     N("Bits"), N("List"), N("Dag"), T("Id"), N("ClassValue"), N("BangOperator"), N("CondOperator")),
    "Integer": A(T("IntVal"), T("BinaryIntVal")),
    "String": P(T("StrVal")),
    "Bits": S(T("LBrace"), N("ValueList"), T("RBrace")),
    "ValueList": sep_list(N("Value")),
    "List": S(T("LSquare"), N("ValueList"), T("RSquare")),
    "Dag": S(T("LParen"), N("DagArg"), O(N("DagArgList")), T("RParen")),
    "DagArgList": sep_list(N("DagArg")),
    "DagArg": A(S(N("Value"), O(S(T("Colon"), T("VarName")))), T("VarName")),
    "ClassValue": S(T("Id"), T("Less"), O(N("ArgValueList")), T("Greater")),
    "BangOperator": S(T("BANGOP"), O(S(T("Less"), N("Type"), T("Greater"))), T("LParen"), N("ValueList"), T("RParen")),
    "CondOperator": S(T("XCond"), T("LParen"), sep_list(N("CondClause")), T("RParen")),
    "CondClause": S(N("Value"), T("Colon"), N("Value")),
}

FIXED_TEXT = {
    "Minus": "-", "Plus": "+", "LSquare": "[", "RSquare": "]", "LBrace": "{", "RBrace": "}", "LParen": "(",
    "RParen": ")", "Less": "<", "Greater": ">", "Colon": ":", "Semi": ";", "Comma": ",", "Dot": ".", "Equal": "=",
    "Question": "?", "Paste": "#", "DotDotDot": "...",
    "Assert": "assert", "Bit": "bit", "Bits": "bits", "Class": "class", "Code": "code", "Dag": "dag", "Def": "def",
    "Defm": "defm", "Defset": "defset", "Defvar": "defvar", "Dump": "dump", "ElseKw": "else", "Field": "field",
    "Foreach": "foreach", "If": "if", "In": "in", "Include": "include", "Int": "int", "Let": "let", "List": "list",
    "MultiClass": "multiclass", "String": "string", "Then": "then", "TrueVal": "true", "FalseVal": "false",
    "XCond": "!cond",
}
BANGOP_TEXTS = ["!add", "!and", "!cast", "!con", "!dag", "!div", "!empty", "!eq", "!exists", "!filter", "!find",
                "!foldl", "!foreach", "!ge", "!getdagarg", "!getdagname", "!getdagop", "!gt", "!head", "!if",
                "!initialized", "!interleave", "!isa", "!le", "!listconcat", "!listflatten", "!listremove",
                "!listsplat", "!logtwo", "!lt", "!mul", "!ne", "!not", "!or", "!range", "!repr", "!setdagarg",
                "!setdagname", "!setdagop", "!shl", "!size", "!sra", "!srl", "!strconcat", "!sub", "!subst",
                "!substr", "!tail", "!tolower", "!toupper", "!xor"]
# (the last three are names the indexer itself makes up: anonymous records and records instantiated by a defm)
IDS = ["A", "B", "Foo", "Bar", "x", "y", "i", "Inst", "Reg", "v1", "_t", "NAME", "anonymous_0", "anonymous_1", "m_q"]


def tok_text(rng, kind):
    if kind in FIXED_TEXT:
        return FIXED_TEXT[kind]
    if kind == "Id":
        return rng.choice(IDS)
    if kind == "IntVal":
        return rng.choice(["0", "1", "2", "7", "32", "0x1f", "255"])
    if kind == "BinaryIntVal":
        return rng.choice(["0b0", "0b101"])
    if kind == "StrVal":
        return rng.choice(['"s"', '"a.td"', '""', '"x\\"y"', '"ä"'])
    if kind == "CodeFragment":
        return rng.choice(["[{ c }]", "[{}]"])
    if kind == "VarName":
        return rng.choice(["$a", "$src", "$_d"])
    if kind == "BANGOP":
        return rng.choice(BANGOP_TEXTS)
    raise KeyError(kind)


# minimal expansion cost per nonterminal (for depth-bounded generation)
def _min_costs():
    INF = 10 ** 9
    cost = {n: INF for n in GRAMMAR}

    def c(e):
        t = e[0]
        if t == "tok":
            return 1
        if t == "nt":
            return cost[e[1]]
        if t == "seq":
            return sum(c(x) for x in e[1:])
        if t == "alt":
            return min(c(x) for x in e[1:])
        if t in ("opt", "star"):
            return 0
        if t == "plus":
            return c(e[1])
    changed = True
    while changed:
        changed = False
        for n, e in GRAMMAR.items():
            v = c(e)
            if v < cost[n]:
                cost[n] = v
                changed = True
    return cost, c


MIN_COST, _expr_cost = _min_costs()


def gen(rng, expr, budget, out, cover=None):
    """expand expr appending (kind, text) tokens to out; budget steers towards termination"""
    t = expr[0]
    if t == "tok":
        out.append((expr[1] if expr[1] != "BANGOP" else "BANGOP", tok_text(rng, expr[1])))
    elif t == "nt":
        gen(rng, GRAMMAR[expr[1]], budget - 1, out, cover)
    elif t == "seq":
        for x in expr[1:]:
            gen(rng, x, budget, out, cover)
    elif t == "alt":
        alts = list(expr[1:])
        if budget <= 0:
            m = min(_expr_cost(a) for a in alts)
            alts = [a for a in alts if _expr_cost(a) == m]
        ch = rng.choice(alts)
        if cover is not None:
            cover.add(id(ch))
        gen(rng, ch, budget, out, cover)
    elif t == "opt":
        if budget > 0 and rng.random() < 0.5:
            gen(rng, expr[1], budget, out, cover)
    elif t == "star":
        n = 0 if budget <= 0 else rng.choice([0, 1, 1, 2, 3])
        for _ in range(n):
            gen(rng, expr[1], budget - 1, out, cover)
    elif t == "plus":
        n = 1 if budget <= 0 else rng.choice([1, 1, 2, 3])
        for _ in range(n):
            gen(rng, expr[1], budget - 1, out, cover)


def sentence(rng, nt="SourceFile", budget=8, cover=None):
    out = []
    gen(rng, N(nt), budget, out, cover)
    return out


TRIVIA = [" ", " ", " ", "\n", "  ", "\t", "\r\n", " /* c */ ", " // c\n", "\n\n", " /* é */ "]
TIGHT_OK = set("[]{}()<>:;,=?")


def render(rng, toks, mode="spaced"):
    """tokens -> text. spaced: one trivia between all tokens; tight: omit where both neighbours
    are self-delimiting punctuation; messy: random trivia (comments, CRLF, non-ASCII)."""
    parts = []
    for i, (_, text) in enumerate(toks):
        if i > 0:
            prev = toks[i - 1][1]
            if mode == "tight" and (prev[-1] in TIGHT_OK or text[0] in TIGHT_OK) and not (prev == "<" and text == "<"):
                pass
            elif mode == "messy":
                parts.append(rng.choice(TRIVIA))
            else:
                parts.append(" ")
        parts.append(text)
    return "".join(parts)


def mutate(rng, toks):
    """one token-level edit: delete, insert, duplicate, transpose, replace"""
    toks = list(toks)
    op = rng.choice(["del", "ins", "dup", "swap", "rep"])
    if not toks:
        op = "ins"
    if op == "del":
        del toks[rng.randrange(len(toks))]
    elif op == "ins":
        cls, t = rng.choice(ALL_REPS)
        toks.insert(rng.randrange(len(toks) + 1), (cls, t))
    elif op == "dup":
        i = rng.randrange(len(toks))
        toks.insert(i, toks[i])
    elif op == "swap" and len(toks) >= 2:
        i = rng.randrange(len(toks) - 1)
        toks[i], toks[i + 1] = toks[i + 1], toks[i]
    else:
        i = rng.randrange(len(toks))
        toks[i] = rng.choice(ALL_REPS)
    return toks


def noise(rng, text):
    """byte-noise / non-ASCII insertion at a char boundary"""
    ins = rng.choice(["é", " ", "\U0001F600", "\x00", "\"", "/*", "[{", "#ifdef Z\n", "\\", "\r", "\x0c", "#else", "}]", "*/"])
    i = rng.randrange(len(text) + 1)
    return text[:i] + ins + text[i:]


# --------------------------------------------------------------------------- corpus
def corpus_files():
    d = os.path.join(ROOT, "corpus", "llvm14")
    out = []
    for f in sorted(os.listdir(d)):
        with open(os.path.join(d, f), encoding="utf-8") as fh:
            out.append((f, fh.read()))
    return out


def regressions(prop):
    """minimised past failures, run first"""
    p = os.path.join(ROOT, "corpus", "regress", prop + ".txt")
    if not os.path.exists(p):
        return []
    out = []
    with open(p, encoding="utf-8") as f:
        for line in f:
            line = line.rstrip("\n")
            if line and not line.startswith("#"):
                out.append(bytes.fromhex(line).decode("utf-8"))
    return out


def prep_nests(rng, depth):
    """well-nested preprocessor arrangement around marker statements"""
    if depth <= 0 or rng.random() < 0.3:
        return rng.choice(["class M%d;\n" % rng.randrange(5), "def d%d;\n" % rng.randrange(5), "#define %s\n" % rng.choice("XY"), ""])
    parts = []
    for _ in range(rng.choice([1, 2, 3])):
        k = rng.choice(["ifdef", "ifndef", "plain"])
        if k == "plain":
            parts.append(prep_nests(rng, depth - 1))
        else:
            s = "#%s %s\n%s" % (k, rng.choice("XY"), prep_nests(rng, depth - 1))
            if rng.random() < 0.5:
                s += "#else\n" + prep_nests(rng, depth - 1)
            s += "#endif\n"
            parts.append(s)
    return "".join(parts)


NESTERS = [("defvar x = ", "[", "1", "]", ";"), ("defvar x = ", "(a ", "", ")", ";"), ("defvar x = ", "!add(1, ", "1", ")", ";"),
           ("defvar x = ", "{", "1", "}", ";"), ("class A { ", "list<", "int", ">", " f; }"), ("", "if 1 then ", "def x;", "", ""),
           ("", "let a = 1 in { ", "", "}", ""), ("", "foreach i = [1] in { ", "", "}", ""), ("defvar x = ", "A<", "1", ">", ";"),
           ("defvar x = a", "[b", "", "]", ";"), ("defvar x = ", "!cond(1: ", "1", ")", ";"), ("def r : ", "B<", "1", ">", ";"),
           ("defvar x = ", "!foreach(i, [1], ", "i", ")", ";"), ("def d { dag g = ", "(op ", "1", ")", "; }"),
           ("", "#ifdef X\n", "class I;\n", "#endif\n", ""), ("", "/*", " c ", "*/", ""), ("", "multiclass M { ", "", "}", "")]
TAILS = ["", "\ndef After;\n// trailing comment\n", "\n#ifdef Q\nclass W;\n#else\n\"open\n#endif\nclass Z { int f = \"é\"; }\n", " \"unterminated"]


def deep_nests(rng, quick):
    """bracket / statement / directive nesting at boundary depths (2^k-1, 2^k, 2^k+1 and round numbers), alone and mixed, each
    followed by a tail that must survive: statements, a comment, a conditional region, a lexical error"""
    depths = sorted(set([1, 2, 3, 5, 8, 13, 21, 34, 55, 89, 100, 144, 200, 233, 250, 300] + [2 ** k + d for k in range(3, 10 if quick else 11) for d in (-1, 0, 1)]))
    out = []
    for d in depths:
        picks = NESTERS if d in (64, 128, 129, 256, 257) or not quick else rng.sample(NESTERS, 6)
        for pre, op, mid, cl, post in picks:
            out.append(pre + op * d + mid + cl * d + post + rng.choice(TAILS))
            if rng.random() < 0.3:
                out.append(pre + op * d + rng.choice(TAILS))          # never closed
        # mixed value nesting: d levels drawn from the value nesters
        vals = [n for n in NESTERS if n[0].startswith("defvar x = ") and n[1] not in ("[b",)]
        seq = [rng.choice(vals) for _ in range(d)]
        out.append("defvar x = " + "".join(n[1] for n in seq) + "1" + "".join(n[3] for n in reversed(seq)) + ";" + rng.choice(TAILS))
    return out
