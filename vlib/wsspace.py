"""The workspace space shared by C03 (analysis totality) and C17 (range validity): multi-file
workspaces (no include cycles) over generated programs, all their prefixes, token mutations,
semantic stress patterns, non-ASCII/CRLF injection and the vendored corpus."""
import re

from . import gen

PRELUDE = ("class A; class B<int x, int y = 1> { int f = x; } class Foo { int v1; string _t; } class Bar : Foo { let v1 = 2; }\n"
           "def Inst; def Reg : Bar; multiclass M<int i> { def _q { int y = i; } } defvar v1 = 1; defset list<A> x = { def i : A; } def : Foo { int af = 1; } defm : M<1>; defm m : M<2>;\n")

STRESS = [
    # self / mutual references
    "class A : A;", "class A : A { let x = 1; int y = x; }", "class A : B; class B : A; def d : A { let f = 1; }",
    "class A : B { int a = b; } class B : A { int b = a; } def d : A;", "class A<A a> : A<a>;", "class A { A a = A<>; }",
    "class A<int n> { list<A> l = [A<n>]; A self = !cast<A>(\"x\"); } def x : A<1>;",
    "multiclass M { defm x : M; } defm y : M;", "multiclass M : M { def a; } defm z : M;", "multiclass M<int i> : N<i>; multiclass N<int j> : M<j>; defm q : M<1>;",
    "defvar a = a;", "defvar a = b; defvar b = a;", "class C { int x = x; }", "class C<int x = x> { int y = x; }",
    "def d : d;", "def d { d f = d; }", "defset list<S> S = { def s : S; }", "defset list<A> S = { defset list<A> S = { def q; } }",
    # names the indexer makes up itself (anonymous records, records instantiated by defm), spelled out by the user
    "class Foo; def : Foo; def user { Foo f = anonymous_0; }",
    "class Foo; multiclass M { def _x; } def anonymous_1 : Foo; defm : M; def : Foo { int n = 1; } def user { Foo f = anonymous_1; list<Foo> l = [anonymous_1, anonymous_0]; }",
    "class Reg; multiclass MC { def _lo : Reg; } defm D : MC; class Use<int n, Reg r = D_lo>; def X : Use<1, D_lo> { Reg q = D_lo; }",
    "def { int w = 1; } def { int w = 2; } defvar a = anonymous_0; defvar b = anonymous_1.w; def anonymous_0; defvar c = anonymous_0;",
    # a construct that opens a scope around something the indexer cannot type, inside a class, followed by declarations that
    # derive from / refer to that class and by names that resolve nowhere (a scope that outlives its construct turns the later
    # parent lists into parents of the wrong record)
    "class Base { list<int> odd = !filter(x, [1,2,3], x{0}); } class Derived : Base; multiclass MC { def _a; } defm Inst : MC, Derived; class K; def k : K; def Y { K ref = k; int z = nowhere; }",
    "class Base<list<int> l> { list<int> sel = !filter(x, l, limit); } class Derived : Base<[1]>; defm D : Derived; defvar v = w; multiclass M : Derived { def a; } def z { int a = b; }",
    "class Base<list<int> l = !foreach(x, [1,2], x{0})> { int t = !foldl(0, l, a, b, b.nofield); } class Derived : Base; multiclass M : Derived { def a; } defm q : M, Derived; def z { int a = b; Derived d = q_a; }",
    "class P { int v = !cond(nosuch: 1, true: 2); list<int> w = !foreach(e, [1], !filter(f, [e], f{0})); } class Q : P; foreach i = [1] in { defm r#i : Q; } multiclass S : Q; defm t : S, Q, P; def u : Q { int x = y; }",
    # lexical errors that span a line break, with non-ASCII text on their first line (ranges computed from such tokens must stay
    # on character boundaries of the file)
    "class A {\n  string s = \"caf\u00e9\n}\n", "class A {\r\n  string s = \"\u65e5\u672c\u8a9e\u306e\u30c6\u30ad\u30b9\u30c8\r\n}\r\n",
    "class A {\n  code c = [{ return x; // \u00e9\n  more();\n}\n", "#define // nom \u00e0 choisir, cot\u00e9 client\u00e8le\n42\nclass A;\n",
    "#ifdef /* \U0001F600 */ // \u00fc\n\"x\nclass B;\n#endif", "def X { string s = \"wei\u00df\n}\ndef Y { code c = [{ \u00e9\u00e9 \n", "def \"na\u00efve\n : A;",
    # redefinitions and shadowing
    "class A; class A; class A { int a; } def A; def A : A; defvar A = 1; multiclass A { def A; } defm A : A;",
    "class R<int a, int a> { int a = a; let a = a; } def r : R<1, 2> { let a = a; int a = 3; }",
    "defvar v = 1; foreach v = [v] in { defvar v = v; def d#v { int v = v; } }",
    "foreach i = [1] in foreach i = [i] in foreach i = [i] in def x#i;",
    "def x { list<int> l = !foreach(x, [1], !foreach(x, [x], x)); int f = !foldl(0, [1], x, x, !add(x, x)); }",
    "let f = 1 in { let f = 2 in { class L { int f = 0; } def l : L { let f = f; } } }",
    "if 1 then { defvar q = 1; } else { defvar q = 2; } def u { int f = q; }",
    # odd shapes the indexer has to survive
    "class T<int a, string b = \"s\", list<int> c = [a]> { bits<4> m = {1, 0, a, ?}; dag d = (a $x, b:$y); }",
    "def : T; def : T<>; def : T<1, 2, 3, 4, 5>; def : T<a = 1, 1>; def : T<x = 1, x = 2>;",
    "class E { int e = !add(); int f = !add(1); int g = !if(); string h = !cast<int>(); list<int> i = !listconcat(); }",
    "def e { int a = !cond(1: 2, 0: \"s\"); int b = !cond(); int c = x.y.z; int d = E<>.e.f; int g = [1][0][0]; }",
    "class F { int a; } def f : F { let a{0-3} = 1; let a{3...0} = 2; let b = 1; let a = \"s\"; }",
    "foreach i = {1-3, 5} in def r#i; foreach j = 0...3 in def s#j; foreach k = [] in def t#k; foreach l = x in def u#l;",
    "include \"\" include \"/\" include \"missing.td\" include \"main.td/../x\"",
    "assert 1, \"m\"; assert x, y; dump x; dump \"s\" # 1; class G { assert a, \"m\"; dump a; int a; }",
    "defm : M<1>; defm a#b : M<1>, M<2>, A; defm \"s\" : Undefined<?>; def \"s\" # 1; def !strconcat(\"a\", \"b\") : A;",
    "class H<int n> { int v = n; } def h0 : H<1> { let v = !add(v, n); } def h1 : H<h0.v>; def h2 { H<3> inner = H<h1.v>; int w = inner.v; }",
    "class W { code c = [{ x }]; string s = \"a\" \"b\"; bit b = true; bits<2> bb = 0b11; dag d = (?); list<list<int>> ll = [[1], []]<list<int>>; }",
    "let a = 1, b<1...2> = 2, c<1> = [3] in def lt; let in def le; let x = in def ly;",
    # forward declarations completed later, with the hierarchy closed through the declared name
    "class FA; class FB : FA; class FA<int n> : FB { int x = n; } def fd : FA<1> { let nosuch = 1; }",
    "class GA; class GB : GA; class GA : GB; class GC; def gd : GA; class GD { GC f = gd; } def ge : GB { int y = undefined1; }",
    "class HA; class HB : HA { int b = 1; } class HC : HB; class HA : HC { string s = t; int u = b; } def hd : HC { let b = 2; }",
    # template argument lists: named / positional in every order, more values than parameters, names as strings (also non-ASCII)
    "class P1<int x>; def a1 : P1<x = 1, 2>; def a2 : P1<z = 0, 1>; class P2 : P1<x = 1, 2, 3>; def a3 : P1<1, 2, x = 3>;",
    "class Q2<int x, int y>; class Q3 { Q2 a = Q2<x = 1, y = 2, 3>; Q2 b = Q2<y = 1, 2, 3, 4>; } defvar q = Q2<x = 1, x = 2, 5>;",
    "multiclass MP<int a> { def NAME; } defm mp1 : MP<a = 1, 2>; defm mp2 : MP<b = 1, 2, 3>; multiclass MQ : MP<a = 0, 1> { def q; }",
    "class S1<int x>; def s1 : S1<\"\u00e9\" = 1>; def s2 : S1<1, \"\u65e5\u672c\" = 2>; defvar s3 = S1<\"na\u00efve\" = 1>; def s4 : S1<\"x\" = 1, \"x\" = 2>;",
    "multiclass SM<int x> { def NAME; } defm sm1 : SM<\"\u00df\" = 1>; defm sm2 : SM<\"\U0001F600\" = 1, \"x\" = 2>;",
]

# inputs that reach code regions nothing else reached in the coverage study (error exits of the width helpers, operator
# calls without operands, declarations whose type is not a type, names that are not names)
STRESS += [
    "class A { bits<> x; } class C { bits<1> x = { 0b }; bits<2> y = { 0b, 0b1 }; }",
    "class A { field 1 x; field int y; } defset 1 s = {} class B<1 x>;",
    "defvar a = !foreach(); defvar b = !subst(); defvar c = !foldl(); defvar d = !filter(); defvar l = !filter(x, [1, 2], !eq(x, 1));",
    "class A { bits<4> f; let f{0...9223372036854775807, 0...9223372036854775807, 0...1} = 0; let f{} = 0; let f{1-} = 0; let f{18446744073709551615} = 1; }",
    "class A { bits<9223372036854775807> a; bits<4> b = { a, a, a }; bits<18446744073709551615> c; bits<2> d = { c, c }; bits<18446744073709551616> e; }",
    # a declaration that names itself in each of its own parts (the windows between "name registered" and "declaration complete")
    "class Tree<int depth, list<Tree> kids = [Tree<0>]> { int d = depth; } def leaf : Tree<1>; class A<int x = A<1>.f> { int f = x; } def a : A<2>;",
    "class S<S s = S<?>, list<S> l = [S<>]> : S<S<>> { S me = S<me>; list<S> all = [S<>, me]; } def s0 : S<s0>; def s1 : S<S<s1>> { S x = s1; }",
    "multiclass MS<int n = MS> : MS<n> { defm _r : MS<n>; def _d : MS; } defm ms : MS<1>, MS<ms>; defset list<DS> DS = { def ds : DS; defvar v = DS; }",
    "defvar dv = dv; defvar dl = [dl]; defvar dq = !add(dq, 1); foreach fi = [fi] in def fd#fi : fd#fi; foreach fj = !foreach(fj, [1], fj) in def fe#fj;",
    "class Node<int v>; class Use<Node n = Node<1>>; class Node<int v, list<Node> next = [Node<0>]> { int w = v; } def n0 : Node<1, [Node<2>]>; def u0 : Use<n0>;",
    # references with EMPTY argument lists to classes and multiclasses that require arguments (whole-reference diagnostics sit on nodes
    # that may be empty), and declarations cut short right behind a name
    "class Rq<int x>; multiclass MRq<int x> { def _a; } def q1 : Rq<>; def q2 : Rq< >; defm q3 : MRq<>; defvar q4 = Rq<>; class Q5 : Rq<> { Rq r = Rq<>; let r = Rq<>; }",
    "class Rq<int x, string y>; def e1 : Rq<>, Rq<1>, Rq<,>; def e2 : Rq<x = >; def e3 : Rq<1, y = >; class E4<> : Rq<>; def e5 : ; class E6 : { } let in def e7; foreach = in def e8;",
    # doc comments whose lines are indented with different kinds of blanks (ASCII, no-break, ideographic, none), tabs and CR line ends
    "// \u8aac\u660e\n//\u3000\u7d9a\u304d\n//\n//\u00a0see\n//\tt\nclass Foo;\n// one\r\n//  \u3000two\r\ndef d : Foo {\n  // width\n  //\n  //\u3000\u3000(0 = unknown)\n  int width = 0;\n}\n"
    "//\u2028x\n// \u0085y\ndefset list<Foo> S = { }\ndefvar v = d.width;",
    "multiclass M { def a; } defm x : M, ; multiclass N { defm y : M, ; } class C<int x>; defm dm : M, C<1 = 2>;",
    "class A<int x, int y = 0>; def d : A<x = 1, x = 2>; def e : A<y = 1>; def f : A<1, 2, 3>;",
    "class Base { int v = 0; } class A : Base; class B : Base; class Z; def a : A; def b : B; def z : Z; defvar x = !if(1, a, b); defvar y = x.v; "
    "defvar w = !if(1, a, z); defvar l = !listconcat([a], [b]); defvar m = !if(1, [a], [b]); defvar n = !listconcat([A<>], [Base<>]);",
    # widths and lengths of zero under every operation that subtracts from, indexes into or divides by them
    "class A { bits<0> f; let f{0} = 1; } class Base { bits<0> Enc; } class Mid : Base; def I : Mid { let Enc{3-0} = 5; }",
    "def d { bits<4> f; bits<0> f; let f{3...0} = 1; } def e { bits<0> f; bits<4> f; let f{3...0} = 1; }",
    "class Z { bits<0> z = {}; bits<1> o = z{0}; let z{0-0} = ?; bits<0> y = z{}; bits<2> w = { z, z, 0b11 }; }",
    "def l0 { list<int> l = []; int x = l[0]; list<int> s = l[0...1]; int h = !head(l); list<int> t = !tail(l); int n = !size(l); }",
    "class W<bits<0> a = 0, list<int> l = []> { bits<0> b = a; int c = l[0]; } def w0 : W; def w1 : W<{}, []>; def w2 : W<0b0>;",
    "def r0 { bits<8> f; let f{0-0} = 1; let f{7...7} = 1; let f{8} = 1; let f{8-7} = 1; let f{7-8} = 1; let f{0...0, 0} = 1; }",
]

WIDE = ["// é\n", "/* 😀 \r\n ü */", "\r\n", "// \U000F0001\r", "def w1 { string s = \"größe\U0001F600\"; }\r\n", " ", "\x0c"]


def _texts(rng, quick):
    out = []
    for s in STRESS:
        out.append(s)
        out.append(PRELUDE + s)
    for _ in range(60 if quick else 1500):
        toks = gen.sentence(rng, budget=rng.choice([5, 7, 9]))
        pre = PRELUDE if rng.random() < 0.7 else ""
        text = pre + gen.render(rng, toks, rng.choice(["spaced", "messy"]))
        out.append(text)
        if rng.random() < 0.5:
            out.append(pre + gen.render(rng, gen.mutate(rng, toks), "spaced"))
        if rng.random() < 0.3:
            out.append(pre + gen.render(rng, gen.mutate(rng, gen.mutate(rng, toks)), "spaced"))
    return out


def prefixes(rng, text, n):
    """token-boundary and mid-token prefixes of a text (the states a user types through)"""
    cuts = sorted(set(rng.sample(range(len(text) + 1), min(n, len(text) + 1))))
    return [text[:c] for c in cuts]


def workspaces(rng, quick):
    """[(files, root, origin)]"""
    out = []
    texts = _texts(rng, quick)
    for t in texts:
        out.append(({"/main.td": t}, "/main.td", "program"))
    # prefixes of valid files
    base = [t for t in texts if len(t) < 400]
    rng.shuffle(base)
    for t in base[: (25 if quick else 400)]:
        for p in prefixes(rng, t, 12 if quick else 40):
            out.append(({"/main.td": p}, "/main.td", "prefix"))
    for s in STRESS[: (8 if quick else len(STRESS))]:
        for c in range(0, len(s) + 1, 1 if not quick else 3):
            out.append(({"/main.td": s[:c]}, "/main.td", "prefix"))
    # non-ASCII / CRLF injection between statements and at the ends
    for t in base[: (30 if quick else 500)]:
        parts = t.split(";")
        k = rng.randrange(len(parts))
        parts[k] = parts[k] + rng.choice(WIDE)
        out.append(({"/main.td": rng.choice(WIDE) + ";".join(parts).replace("\n", rng.choice(["\n", "\r\n", "\r"])) + rng.choice(WIDE)}, "/main.td", "wide"))
    # what is reported AT the end of the text (an open conditional, an unterminated string / comment / code fragment, a statement
    # the end cuts short) when the text ends in a multi-byte character and has no final line break
    opens = ["#ifdef FOO\n", "#ifndef FOO\n", "#define X\n#ifdef X\n", "#ifndef G\n#else\n", "#ifdef FOO\n#else\n", ""]
    tails = ["// \u7d42", "/* \u00e9", "\"\u540d", "[{ \u00fc", "def \"\u540d\u524d\" : A;\u3000", "\u00e9", "class \U0001F600", "def d : A<\u2026", "include \"\u00fc.td",
             # declarations that have neither `;` nor `{` yet (their last child node is empty), followed by trivia that ends in a multi-byte character
             "class Foo // \u30b3\u30e1\u30f3\u30c8", "def X : A // \u00e9", "defset list<A> All = /* \u307e\u3060", "class Foo<int a,\r\n  int b> // na\u00efve caf\u00e9\r\n\r\n",
             "def X // \u5b9a\u7fa9\nclass Bar;\n", "multiclass M // \u00fc", "class Foo\n#ifdef NEVER\nclass Bar; // \u30d0\u30fc"]
    eofbase = [t for t in texts if len(t) < 300][: (12 if quick else 200)] + ["class A;\n", ""]
    for t in eofbase:
        for _ in range(2 if quick else 6):
            out.append(({"/main.td": rng.choice(opens) + t + rng.choice(tails)}, "/main.td", "eofwide"))
    for o in opens:
        for tl in tails:
            out.append(({"/main.td": o + "class A;\n" + tl}, "/main.td", "eofwide"))
            out.append(({"/main.td": 'include "inc.td"\n', "/inc.td": o + "class A;\n" + tl}, "/main.td", "eofwide"))
    # a closing delimiter (or `;`, `=`, `...`) typed as its non-ASCII look-alike: the construct is left open and the character
    # right behind it is multi-byte - positions computed "one past the node" or "behind the token that must follow" land inside it
    alike = {"}": "\uff5d", "]": "\uff3d", ")": "\uff09", ">": "\uff1e", ";": "\uff1b", "=": "\uff1d", ",": "\uff0c", "...": "\u2026", "-": "\u2013", ":": "\uff1a"}
    lookbase = [t for t in texts if len(t) < 600]
    for t in (STRESS + lookbase[: (40 if quick else 600)]):
        spots = [(m.start(), m.group(0)) for m in re.finditer(r"\.\.\.|[\]})>;=,:-]", t)]
        if not spots:
            continue
        # (every spot of the hand-written stress texts, a sample of the spots of generated ones)
        for at, what in (spots if t in STRESS else rng.sample(spots, min(len(spots), 3 if quick else 12))):
            out.append(({"/main.td": t[:at] + alike[what] + t[at + len(what):]}, "/main.td", "lookalike"))
            if rng.random() < 0.3:
                out.append(({"/main.td": t[:at] + rng.choice(["\u00e9", "\U0001F642", "\u65e5"]) + t[at + len(what):]}, "/main.td", "lookalike"))
    # multi-file: chains, diamonds, missing files, files in sub-directories (no cycles)
    for _ in range(40 if quick else 600):
        a, b, c = (rng.choice(texts) for _ in range(3))
        shape = rng.choice(["chain", "diamond", "missing", "subdir", "blockinc", "blockinc", "shortroot", "shortroot"])
        if shape == "chain":
            files = {"/main.td": 'include "b.td"\n' + a, "/b.td": 'include "c.td"\n' + b, "/c.td": c}
        elif shape == "diamond":
            files = {"/main.td": 'include "b.td"\ninclude "c.td"\n' + a, "/b.td": 'include "d.td"\n' + b, "/c.td": 'include "d.td"\n' + c, "/d.td": PRELUDE}
        elif shape == "missing":
            files = {"/main.td": 'include "b.td"\ninclude "nope.td"\n' + a + '\ninclude "b.td"\n', "/b.td": b}
        elif shape == "shortroot":
            # a short file that uses (class, multiclass, def, field, template argument) what a LONG included file declares near its
            # end: every position of the declarations lies beyond the end of the using file; a third file uses them without
            # being the root
            pad = rng.choice(WIDE) * rng.randrange(20, 200) + "".join("class Pad%d;\n" % i for i in range(rng.randrange(0, 12)))
            lib = pad + b + "\n// late doc\nclass Late<int width> { int w = width; }\nclass Reg { int Enc = 0; }\ndef R0 : Reg;\nmulticlass LateM<int n> { def _x : Reg; }\ndefvar latev = 1;\n"
            use = "defm m : LateM<2>;\ndef u2 : Late<latev> { let w = R0.Enc; }\n"
            main = 'include "lib.td"\n' + rng.choice(["", 'include "use.td"\n']) + "def d : Late<1>;\ndefvar e = R0.Enc;\ndef R1 : Reg { let Enc = latev; }\n"
            files = {"/main.td": main, "/lib.td": lib, "/use.td": use}
        elif shape == "blockinc":
            # an include statement inside a block: the included declarations belong to another file than the block
            opener = rng.choice(["defset list<A> S = {\n", "let v1 = 1 in {\n", "foreach i = [1, 2] in {\n", "if 1 then {\n", "multiclass MM {\n"])
            # (main.td is kept short and b.td long, so that a range of b.td reported for main.td is out of bounds there)
            files = {"/main.td": "class A;\n" + opener + 'include "b.td"\n' + "def inblock;\n}\n" + (a if rng.random() < 0.3 else ""),
                     "/b.td": rng.choice(WIDE) * rng.randrange(40, 400) + "def fromb : A;\n" + b + "\ndef fromb2 : A { int f = 1; }\n"}
        else:
            files = {"/main.td": 'include "sub/b.td"\n' + a, "/sub/b.td": 'include "c.td"\n' + rng.choice(WIDE) + b, "/sub/c.td": c, "/c.td": "class Wrong;"}
        out.append((files, "/main.td", "multi"))
    # deep nesting (bounded: stack depth is measured, not modelled)
    for d in ([50, 400] if quick else [50, 400, 1000]):
        out.append(({"/main.td": "def deep { list<int> l = " + "[" * d + "1" + "]" * d + "; }"}, "/main.td", "deep"))
        out.append(({"/main.td": "foreach i = [1] in " * d + "def x;"}, "/main.td", "deep"))
        out.append(({"/main.td": "def p { int v = " + "!add(1, " * d + "1" + ")" * d + "; }"}, "/main.td", "deep"))
        out.append(({"/main.td": "".join("class C%d : C%d;\n" % (i + 1, i) for i in range(d)) + "class C0 { int z; } def last : C%d { let z = 1; }" % d}, "/main.td", "deep"))
    files = gen.corpus_files()
    for name, t in (files[:5] if quick else files):
        if len(t) < (60000 if quick else 10 ** 7):
            out.append(({"/main.td": t}, "/main.td", "corpus"))
    return out
