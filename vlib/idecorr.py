#!/usr/bin/env python3
"""Differential comparison of the Lean IDE model (`tgdrive ws`) against the real implementation
(`tgverif ws`).

    python3 compare.py --quick            # a few minutes: all streams, reduced counts
    python3 compare.py --full             # the long run
    python3 compare.py --stream sem -n 500 --seed 3
    python3 compare.py --repro case.json  # rerun one saved case and show the differing answers

Streams: grammar (documented-grammar sentences, rendered/mutated/noised), sem (semantically rich
multi-file programs), bang (every bang-operator arm with right/wrong arity, types, annotations),
inc (include graph shapes), big (operation logs of several thousand entries), corpus (the 39 LLVM-14 .td files as single-file workspaces).

Answers are compared exactly and in order, except (hash-map iteration order in the real code):
completion answers as multisets, each file's diagnostics list as a multiset.
Mismatches are reported smallest input first (after a line/chunk based shrink of the input).
"""
import argparse
import json
import os
import queue
import random
import re
import subprocess
import sys
import threading
import time

HERE = os.path.dirname(os.path.dirname(os.path.abspath(__file__)))
if __name__ == "__main__":
    sys.path.insert(0, HERE)
    from vlib.gen import sentence, render, mutate, noise, GRAMMAR  # noqa: E402,F401
    from vlib import msgmap  # noqa: E402
else:
    from .gen import sentence, render, mutate, noise, GRAMMAR  # noqa: E402,F401
    from . import msgmap  # noqa: E402

ORACLE = os.path.join(HERE, ".build", "cargo", "release", "tgverif")
MODEL = os.path.join(HERE, "lean", ".lake", "build", "bin", "tgdrive")
CORPUS = os.path.join(HERE, "corpus", "llvm14")


# ----------------------------------------------------------------------------- processes
class Proc:
    """line-protocol child with timeout and restart"""

    def __init__(self, path):
        self.path = path
        self.p = None
        self.q = None
        self.start()

    def start(self):
        self.p = subprocess.Popen([self.path], stdin=subprocess.PIPE, stdout=subprocess.PIPE,
                                  stderr=subprocess.DEVNULL, bufsize=0)
        self.q = queue.Queue()
        t = threading.Thread(target=self._reader, args=(self.p, self.q), daemon=True)
        t.start()

    @staticmethod
    def _reader(p, q):
        f = p.stdout
        buf = b""
        while True:
            chunk = f.read(1 << 16)
            if not chunk:
                q.put(None)
                return
            buf += chunk
            while b"\n" in buf:
                line, buf = buf.split(b"\n", 1)
                q.put(line)

    def ask(self, line, timeout=120):
        try:
            self.p.stdin.write(line.encode("utf-8") + b"\n")
            self.p.stdin.flush()
        except (BrokenPipeError, OSError):
            self.restart()
            return "CRASH"
        try:
            r = self.q.get(timeout=timeout)
        except queue.Empty:
            self.restart()
            return "TIMEOUT"
        if r is None:
            self.restart()
            return "CRASH"
        return r.decode("utf-8", "replace")

    def restart(self):
        try:
            self.p.kill()
        except OSError:
            pass
        self.start()

    def close(self):
        try:
            self.p.kill()
        except OSError:
            pass


# ----------------------------------------------------------------------------- queries
IDENT_RE = re.compile(rb"[A-Za-z_0-9]+")


def byte_offsets(text, rng, max_idents=None):
    """identifier-like starts (byte offsets) + a few other offsets"""
    b = text.encode("utf-8")
    starts = [m.start() for m in IDENT_RE.finditer(b)]
    if max_idents is not None and len(starts) > max_idents:
        starts = sorted(rng.sample(starts, max_idents))
    extra = {0, len(b)}
    for _ in range(3):
        extra.add(rng.randrange(len(b) + 1))
    return starts, sorted(extra)


def queries_for(files, rng, max_idents=None, heavy=True):
    qs = [["diagnostics"]]
    for path, text in files.items():
        n = len(text.encode("utf-8"))
        qs.append(["document_symbol", path])
        qs.append(["folding_range", path])
        qs.append(["document_link", path])
        qs.append(["inlay_hint", path, 0, n])
        if heavy:
            a = rng.randrange(n + 1)
            b = rng.randrange(n + 1)
            qs.append(["inlay_hint", path, min(a, b), max(a, b)])
            qs.append(["inlay_hint", path, a, a])
            qs.append(["inlay_hint", path, b, a])
            qs.append(["inlay_hint", path, 0, n + 5])
        starts, extra = byte_offsets(text, rng, max_idents)
        for o in starts:
            qs.append(["goto", path, o])
            qs.append(["references", path, o])
            qs.append(["hover", path, o])
            if heavy:
                qs.append(["completion", path, o, None])
                qs.append(["completion", path, o + 1, "!" if rng.random() < 0.3 else None])
        for o in extra:
            qs.append(["goto", path, o])
            qs.append(["hover", path, o])
            qs.append(["references", path, o])
            qs.append(["completion", path, o, "!"])
        if heavy:
            qs.append(["completion", path, n + 1, None])
            qs.append(["goto", path, n + 3])
    qs.append(["document_symbol", "/nonexistent.td"])
    return qs


def normalise(q, ans):
    if isinstance(ans, dict) and "panic" in ans:
        return ans
    name = q[0]
    try:
        if name == "completion" and isinstance(ans, list):
            return sorted(ans, key=lambda x: json.dumps(x))
        if name == "diagnostics" and isinstance(ans, list):
            # reworded syntax-error messages are mapped back to the wording the model carries (see msgmap)
            ans = msgmap.canon_deep(ans)
            return [[f, sorted(ds, key=lambda x: json.dumps(x))] for f, ds in ans]
    except Exception:
        pass
    return ans


def run_case(oracle, model, case):
    line = "ws " + json.dumps(case, ensure_ascii=False)
    ro = oracle.ask(line)
    rm = model.ask(line)
    # a busy machine is not a disagreement: an answer that did not arrive in time is asked for once more, alone and with a
    # longer limit (a genuine hang or crash repeats)
    if ro in ("TIMEOUT", "CRASH"):
        ro = oracle.ask(line, timeout=600)
    if rm in ("TIMEOUT", "CRASH"):
        rm = model.ask(line, timeout=600)
    try:
        jo = json.loads(ro)
    except Exception:
        jo = ro
    try:
        jm = json.loads(rm)
    except Exception:
        jm = rm
    diffs = []
    if isinstance(jo, dict) and "ops" in jo:
        if not isinstance(jm, dict) or jo.get("ops") != jm.get("ops"):
            diffs.append((["oplog"], jo.get("ops"), jm.get("ops") if isinstance(jm, dict) else jm))
        jo = jo.get("r")
        jm = jm.get("r") if isinstance(jm, dict) else jm
    if not isinstance(jo, list) or not isinstance(jm, list) or len(jo) != len(jm):
        if jo != jm:
            diffs.append((["<whole answer>"], jo if not isinstance(jo, list) else "list[%d]" % len(jo),
                          jm if not isinstance(jm, list) else "list[%d]" % len(jm)))
        return diffs
    for q, a, b in zip(case["queries"], jo, jm):
        if normalise(q, a) != normalise(q, b):
            diffs.append((q, a, b))
    return diffs


def brief(a, b):
    """for two long lists show only the elements that are not common"""
    if isinstance(a, list) and isinstance(b, list) and len(a) + len(b) > 12:
        ka = [json.dumps(x, sort_keys=True) for x in a]
        kb = [json.dumps(x, sort_keys=True) for x in b]
        from collections import Counter
        ca, cb = Counter(ka), Counter(kb)
        only_a = list((ca - cb).elements())
        only_b = list((cb - ca).elements())
        if only_a or only_b:
            return ({"only_here": [json.loads(x) for x in only_a], "len": len(a)},
                    {"only_here": [json.loads(x) for x in only_b], "len": len(b)})
        return ({"same multiset, different order": a[:6]}, {"same multiset, different order": b[:6]})
    return a, b


def case_size(case):
    return sum(len(t) for t in case["files"].values())


def shrink(oracle, model, case, budget_s=20):
    """remove chunks of lines / characters from the files while the case keeps failing"""
    t0 = time.time()
    best = case

    def fails(c):
        return bool(run_case(oracle, model, c))

    def with_file(c, path, text):
        files = dict(c["files"])
        files[path] = text
        c2 = dict(c)
        c2["files"] = files
        c2["queries"] = requery(c2)
        return c2

    def requery(c):
        return queries_for(c["files"], random.Random(0), max_idents=60, heavy=True)

    # keep the original queries first; then try the regenerated, complete set
    for path in list(best["files"].keys()):
        for unit in ("line", "char"):
            text = best["files"][path]
            parts = text.split("\n") if unit == "line" else list(text)
            sep = "\n" if unit == "line" else ""
            n = 2
            while len(parts) >= 1 and time.time() - t0 < budget_s:
                chunk = max(1, len(parts) // n)
                removed = False
                i = 0
                while i < len(parts) and time.time() - t0 < budget_s:
                    cand = parts[:i] + parts[i + chunk:]
                    c2 = with_file(best, path, sep.join(cand))
                    if fails(c2):
                        parts = cand
                        best = c2
                        removed = True
                    else:
                        i += chunk
                if chunk == 1 and not removed:
                    break
                if not removed:
                    n = min(len(parts), n * 2) if len(parts) > 1 else 2
                    if chunk == 1:
                        break
    # drop files that are not needed
    for path in list(best["files"].keys()):
        if path == best["root"] or time.time() - t0 > budget_s:
            continue
        files = {p: t for p, t in best["files"].items() if p != path}
        c2 = dict(best)
        c2["files"] = files
        c2["queries"] = requery(c2)
        if fails(c2):
            best = c2
    return best


# ----------------------------------------------------------------------------- rich generator
PRIM_TYPES = ["bit", "int", "string", "code", "dag"]
IDENT_POOL = ["A", "B", "C", "D", "Base", "Inst", "Reg", "x", "y", "z", "i", "v", "f", "g", "h", "name", "val",
              "ops", "lst", "acc", "NAME", "d0", "d1", "M", "MC", "Q", "anonymous_0", "anonymous_1"]

# name, annotation ('req' / 'opt' / None), arity (lo, hi or None), argument kinds
BANG_TABLE = [
    ("add", None, (2, None), ["int"]), ("and", None, (2, None), ["int"]), ("mul", None, (2, None), ["int"]),
    ("or", None, (2, None), ["int"]), ("xor", None, (2, None), ["int"]),
    ("div", None, (2, 2), ["int", "int"]), ("sub", None, (2, 2), ["int", "int"]),
    ("srl", None, (2, 2), ["int", "int"]), ("sra", None, (2, 2), ["int", "int"]), ("shl", None, (2, 2), ["int", "int"]),
    ("cast", "req", (1, 1), ["any"]),
    ("con", None, (2, None), ["dag"]),
    ("dag", None, (3, 3), ["any", "list", "strlist"]),
    ("empty", None, (1, 1), ["sld"]), ("size", None, (1, 1), ["sld"]),
    ("eq", None, (2, 2), ["scalar", "scalar"]), ("ne", None, (2, 2), ["scalar", "scalar"]),
    ("ge", None, (2, 2), ["scalar", "scalar"]), ("gt", None, (2, 2), ["scalar", "scalar"]),
    ("le", None, (2, 2), ["scalar", "scalar"]), ("lt", None, (2, 2), ["scalar", "scalar"]),
    ("exists", "req", (1, 1), ["string"]),
    ("filter", None, (3, 3), ["var", "list", "usevar"]),
    ("find", None, (2, 3), ["string", "string", "int"]),
    ("foldl", None, (5, 5), ["any", "list", "var", "var2", "usevar"]),
    ("foreach", None, (3, 3), ["var", "list", "usevar"]),
    ("getdagarg", "req", (2, 2), ["dag", "intstr"]),
    ("getdagname", None, (2, 2), ["dag", "dag"]),
    ("getdagop", "opt", (1, 1), ["dag"]),
    ("head", None, (1, 1), ["list"]), ("tail", None, (1, 1), ["list"]),
    ("if", None, (3, 3), ["bit", "any", "any"]),
    ("initialized", None, (1, 1), ["any"]),
    ("interleave", None, (2, 2), ["list", "string"]),
    ("isa", "req", (1, 1), ["any"]),
    ("listconcat", None, (2, None), ["list"]),
    ("listflatten", None, (1, 1), ["list"]),
    ("listremove", None, (2, 2), ["list", "list"]),
    ("listsplat", None, (2, 2), ["any", "int"]),
    ("logtwo", None, (1, 1), ["int"]), ("not", None, (1, 1), ["int"]),
    ("range", None, (1, 3), ["intlist", "int", "int"]),
    ("repr", None, (1, 1), ["any"]),
    ("setdagarg", None, (3, 3), ["dag", "intstr", "any"]),
    ("setdagname", None, (3, 3), ["dag", "intstr", "string"]),
    ("setdagop", None, (2, 2), ["dag", "any"]),
    ("strconcat", None, (2, None), ["string"]),
    ("subst", None, (3, 3), ["string", "string", "string"]),
    ("substr", None, (2, 3), ["string", "int", "int"]),
    ("tolower", None, (1, 1), ["string"]), ("toupper", None, (1, 1), ["string"]),
]


class Env:
    def __init__(self):
        self.classes = {}      # name -> (template args [(type, name, has_default)], fields [(type, name)])
        self.defs = []
        self.multiclasses = {}
        self.vars = []         # (name, kind hint)
        self.fields = []


class RichGen:
    def __init__(self, rng, err=0.12):
        self.rng = rng
        self.err = err       # probability of a deliberately "wrong" choice
        self.env = Env()
        self.counter = 0

    # ---- helpers
    def p(self, x):
        return self.rng.random() < x

    def wrong(self):
        return self.rng.random() < self.err

    def fresh(self, prefix):
        self.counter += 1
        if self.p(0.25):
            return self.rng.choice(IDENT_POOL)
        return "%s%d" % (prefix, self.counter)

    def some_class(self):
        if self.env.classes and not self.wrong():
            return self.rng.choice(list(self.env.classes.keys()))
        return self.rng.choice(["A", "B", "Base", "Undef", "Inst"])

    def typ(self, depth=2):
        r = self.rng.random()
        if r < 0.5 or depth <= 0:
            return self.rng.choice(PRIM_TYPES)
        if r < 0.62:
            return "bits<%s>" % self.rng.choice(["1", "4", "8", "32", "0", "0x10", "0b101", "-1", "18446744073709551615", "+3"])
        if r < 0.8:
            return "list<%s>" % self.typ(depth - 1)
        return self.some_class()

    def ident_value(self):
        pool = []
        pool += [v for v, _ in self.env.vars]
        pool += self.env.fields
        pool += self.env.defs
        if pool and not self.wrong():
            return self.rng.choice(pool)
        return self.rng.choice(IDENT_POOL)

    def arg_values(self, cname, depth):
        info = self.env.classes.get(cname) or self.env.multiclasses.get(cname)
        targs = info[0] if info else []
        if not targs and not self.wrong():
            return "" if self.p(0.7) else "<>"
        n = len(targs)
        if self.wrong():
            n = self.rng.choice([0, max(0, n - 1), n + 1, n + 2])
        parts = []
        named_from = self.rng.choice([n, n, n, max(0, n - 1), 0]) if self.p(0.3) else n
        for i in range(n):
            hint = kind_of_type(targs[i][0]) if i < len(targs) and not self.wrong() else "any"
            v = self.value(depth - 1, hint)
            if i >= named_from:
                nm = targs[i][1] if i < len(targs) and not self.wrong() else self.rng.choice(["zz", "x", targs[0][1] if targs else "q"])
                if self.p(0.9):
                    parts.append("%s = %s" % (nm, v))
                else:
                    parts.append("\"%s\" = %s" % (nm, v))
            else:
                parts.append(v)
        if self.wrong() and parts:
            self.rng.shuffle(parts)
        if targs and self.p(0.08):
            # a named argument given twice / naming an argument that was also given positionally
            t = self.rng.choice(targs)
            parts.append("%s = %s" % (t[1], self.value(depth - 1, kind_of_type(t[0]))))
            if self.p(0.5):
                parts.append("%s = %s" % (t[1], self.value(0, "any")))
        return "<" + ", ".join(parts) + ">"

    # ---- values
    def value(self, depth=3, hint="any"):
        v = self.inner_value(depth, hint)
        if self.p(0.06) and depth > 0:
            v = v + " # " + self.inner_value(depth - 1, "string")
        return v

    def inner_value(self, depth, hint):
        v = self.simple_value(depth, hint)
        r = self.rng.random()
        if r < 0.05:
            v += "." + self.rng.choice(self.env.fields or ["f"])
        elif r < 0.08:
            v += self.rng.choice(["[0]", "[0-2]", "[1...3]", "[0, 1]", "[i]", "[0,]", "[]"])
        elif r < 0.10:
            v += self.rng.choice(["{0}", "{0-3}", "{3...1}", "{0, 2}"])
        elif r < 0.11:
            v += ".f.g[0]"
        return v

    def simple_value(self, depth, hint):
        rng = self.rng
        if self.wrong():
            hint = rng.choice(["int", "string", "list", "dag", "bit", "any", "code", "bits"])
        if depth <= 0:
            leaf = {"int": ["1", "0", "42", "0x1f", "0b101", "-3", "+7"], "string": ['"s"', '""', '"a" "b"'], "bit": ["true", "false", "1", "0"],
                    "list": ["[]", "[1, 2]", '["a"]'], "dag": ["(ops)", "(add 1, 2)"], "code": ["[{ c }]"],
                    "bits": ["{0, 1}", "{1}"]}
            if hint in leaf:
                return rng.choice(leaf[hint])
            return rng.choice(["1", '"s"', "?", "true", self.ident_value(), "[]", "[{ x }]"])
        r = rng.random()
        if r < 0.22:
            return self.ident_value()
        if r < 0.40:
            return self.bang(depth, hint)
        if r < 0.45:
            c = self.some_class()
            av = self.arg_values(c, depth)
            return c + (av if av else "<>")
        if r < 0.48:
            n = rng.choice([1, 2, 3])
            return "!cond(" + ", ".join("%s : %s" % (self.value(depth - 1, "bit"), self.value(depth - 1, hint)) for _ in range(n)) + ")"
        if hint == "int":
            return rng.choice(["1", "2", "0x10", "0b11", "-1", "7", self.ident_value()])
        if hint == "string":
            return rng.choice(['"s"', '"abc"', '"x" "y"', "[{ code }]", self.ident_value()])
        if hint == "bit":
            return rng.choice(["true", "false", "0", "1", "?"])
        if hint == "bits":
            return "{" + ", ".join(self.value(depth - 1, "bit") for _ in range(rng.choice([1, 2, 4]))) + "}"
        if hint in ("list", "strlist", "intlist"):
            eh = {"strlist": "string", "intlist": "int"}.get(hint, rng.choice(["int", "string", "any", "list"]))
            n = rng.choice([0, 1, 2, 3])
            s = "[" + ", ".join(self.value(depth - 1, eh) for _ in range(n)) + "]"
            if self.p(0.15):
                s += "<" + self.typ(1) + ">"
            return s
        if hint == "dag":
            n = rng.choice([0, 1, 2])
            args = []
            for _ in range(n):
                a = self.value(depth - 1, "any")
                if self.p(0.4):
                    a += ":$" + rng.choice(["a", "src", "dst"])
                elif self.p(0.1):
                    a = "$" + rng.choice(["a", "b"])
                args.append(a)
            op = rng.choice(["ops", "add", self.ident_value(), "!cast<A>(\"x\")", "?"])
            if self.p(0.2):
                op += ":$op"
            return "(" + op + (" " + ", ".join(args) if args else "") + ")"
        if hint == "code":
            return "[{ some code }]"
        return self.simple_value(depth - 1, rng.choice(["int", "string", "bit", "bits", "list", "dag", "code"]))

    def bang(self, depth, hint="any"):
        rng = self.rng
        cands = BANG_TABLE
        name, ann, (lo, hi), kinds = rng.choice(cands)
        n = lo if hi == lo else rng.randint(lo, hi if hi is not None else lo + 2)
        if self.wrong():
            n = max(0, n + rng.choice([-2, -1, 1, 2]))
        args = []
        var_names = []
        for i in range(n):
            k = kinds[min(i, len(kinds) - 1)]
            if self.wrong():
                k = rng.choice(["int", "string", "list", "dag", "any", "bit"])
            if k == "var" or k == "var2":
                if self.wrong():
                    args.append(rng.choice(["1", '"s"', "a.b", "[x]"]))
                else:
                    vn = rng.choice(["a", "e", "it", "acc", "x", "v"]) if k == "var" else rng.choice(["b", "el", "y"])
                    var_names.append(vn)
                    args.append(vn)
            elif k == "usevar":
                saved = list(self.env.vars)
                for vn in var_names:
                    self.env.vars.append((vn, "any"))
                args.append(self.value(depth - 1, "any"))
                self.env.vars = saved
            elif k == "scalar":
                args.append(self.value(depth - 1, rng.choice(["int", "string", "bit", "bits"])))
            elif k == "sld":
                args.append(self.value(depth - 1, rng.choice(["string", "list", "dag"])))
            elif k == "intstr":
                args.append(self.value(depth - 1, rng.choice(["int", "string"])))
            else:
                args.append(self.value(depth - 1, k))
        annot = ""
        want_ann = (ann == "req") or (ann == "opt" and self.p(0.5))
        if self.wrong():
            want_ann = not want_ann
        if want_ann:
            annot = "<" + self.typ(1) + ">"
        return "!%s%s(%s)" % (name, annot, ", ".join(args))

    # ---- declarations
    def template_args(self):
        n = self.rng.choice([0, 0, 1, 2, 3])
        out = []
        seen_default = False
        for _ in range(n):
            t = self.typ(1)
            nm = self.fresh("t")
            d = self.p(0.3) or (seen_default and not self.wrong())
            seen_default = seen_default or d
            out.append((t, nm, d))
        return out

    def render_targs(self, targs):
        if not targs:
            return "" if self.p(0.9) else "<>"
        parts = []
        for t, nm, d in targs:
            s = "%s %s" % (t, nm)
            if d:
                s += " = " + self.value(1, kind_of_type(t))
            parts.append(s)
        return "<" + ", ".join(parts) + ">"

    def parents(self, depth, multiclass=False, defm=False):
        n = self.rng.choice([0, 0, 1, 1, 2]) if not defm else self.rng.choice([1, 1, 2, 3])
        if n == 0:
            return ""
        ps = []
        for i in range(n):
            if defm and i > 0 and self.p(0.4):
                # a defm may list classes after its multiclasses
                c = self.some_class()
            elif multiclass:
                c = self.rng.choice(list(self.env.multiclasses.keys()) + ["MC"]) if self.env.multiclasses and not self.wrong() else self.rng.choice(["MC", "M", "A"])
            else:
                c = self.some_class()
            ps.append(c + self.arg_values(c, depth))
        return " : " + ", ".join(ps)

    def body(self, cname, depth, own_fields):
        if self.p(0.15):
            return ";"
        items = []
        n = self.rng.choice([0, 1, 2, 3, 4])
        saved_fields = list(self.env.fields)
        for _ in range(n):
            r = self.rng.random()
            if r < 0.45:
                t = self.typ(2)
                nm = self.fresh("f")
                s = ("field " if self.p(0.1) else "") + "%s %s" % (t, nm)
                if self.p(0.6):
                    s += " = " + self.value(depth, kind_of_type(t))
                items.append(s + ";")
                own_fields.append((t, nm))
                self.env.fields.append(nm)
            elif r < 0.75:
                nm = self.rng.choice(self.env.fields) if self.env.fields and not self.wrong() else self.rng.choice(["f", "g", "zz"])
                rng_part = self.rng.choice(["", "", "", "{0}", "{0-3}", "{7}", "{3...0}", "{7, 3-0}", "{15-8}", "{1 0}", "{0x3-0}"])
                items.append("let %s%s = %s;" % (nm, rng_part, self.value(depth, "any")))
            elif r < 0.85:
                nm = self.fresh("lv")
                items.append("defvar %s = %s;" % (nm, self.value(depth, "any")))
                self.env.vars.append((nm, "any"))
            elif r < 0.93:
                items.append("assert %s, %s;" % (self.value(depth, "bit"), self.value(1, "string")))
            else:
                items.append("dump %s;" % self.value(depth, "string"))
        self.env.fields = saved_fields + [f for _, f in own_fields]
        return " {\n  " + "\n  ".join(items) + "\n}"

    def doc(self):
        if self.p(0.3):
            lines = self.rng.choice([1, 1, 2, 3])
            return "".join(self.rng.choice(["// doc %d\n", "/// triple %d\n", "//%d\n", "//   spaced %d\n", "// é %d\n",
                                            "//\u00a0nbsp %d\n", "//\u3000\t wide %d \n", "// %d\r\n", "//// %d\n", "// %d /* x */\n",
                                            "/* b */ // after block %d\n", "  // indented %d\n"]) % i
                           for i in range(lines))
        if self.p(0.05):
            return "/* block */\n"
        if self.p(0.05):
            return "// far\n\n"
        if self.p(0.04):
            return self.rng.choice(["#ifdef X\n// in ifdef\n", "#define X\n// after define\n", "#ifndef Y\n", "#endif\n// after endif\n",
                                    "#ifdef X\nclass Hidden;\n#else\n// else doc\n", "\x0c// ff\n", "\t\n//tab\n"])
        return ""

    def statement(self, depth=2, in_multiclass=False):
        rng = self.rng
        kinds = ["class", "def", "def", "defm", "defset", "defvar", "foreach", "if", "let", "multiclass", "assert", "dump",
                 "anon", "class", "def"]
        if in_multiclass:
            kinds = ["def", "def", "defm", "foreach", "let", "if", "assert", "dump", "anon"] + (["class", "defvar"] if self.wrong() else [])
        k = rng.choice(kinds)
        d = self.doc()
        if k == "class":
            name = self.fresh("C")
            targs = self.template_args()
            fields = []
            saved_vars = list(self.env.vars)
            for _, nm, _ in targs:
                self.env.vars.append((nm, "any"))
            if self.p(0.1):
                self.env.classes.setdefault(name, (targs, fields))
            hdr = "class %s%s" % (name, self.render_targs(targs))
            par = self.parents(depth)
            if self.wrong():
                par = par or (" : " + name)
            body = self.body(name, depth, fields)
            self.env.vars = saved_vars
            self.env.classes[name] = (targs, fields)
            return d + hdr + par + body + "\n"
        if k in ("def", "anon"):
            if k == "anon":
                name = ""
            else:
                name = self.fresh("d")
                if self.p(0.08):
                    name = name + " # " + rng.choice(['"x"', "NAME", "i"])
                elif self.p(0.04):
                    name = rng.choice(['"strname"', "!strconcat(\"a\", \"b\")", "4"])
            par = self.parents(depth)
            fields = []
            body = self.body(name, depth, fields)
            if name and name[0].isalpha() and "#" not in name:
                self.env.defs.append(name)
            return d + "def %s%s%s\n" % (name, par, body)
        if k == "defm":
            name = self.fresh("dm") if self.p(0.8) else ""
            par = self.parents(depth, multiclass=True, defm=True)
            if not par and not self.wrong():
                par = " : " + (rng.choice(list(self.env.multiclasses.keys())) if self.env.multiclasses else "MC")
            return d + "defm %s%s;\n" % (name, par)
        if k == "defset":
            name = self.fresh("ds")
            t = "list<%s>" % self.some_class() if not self.wrong() else self.typ(2)
            inner = "".join(self.statement(depth - 1) for _ in range(rng.choice([0, 1, 2]))) if depth > 0 else ""
            return d + "defset %s %s = {\n%s}\n" % (t, name, inner)
        if k == "defvar":
            name = self.fresh("gv")
            s = d + "defvar %s = %s;\n" % (name, self.value(depth, "any"))
            self.env.vars.append((name, "any"))
            return s
        if k == "foreach":
            var = rng.choice(["i", "j", "k", self.fresh("it")])
            init = rng.choice(["{0-3}", "{1, 2}", "0-3", "1...4", "2", "[1, 2, 3]", '["a", "b"]', "{0...2}"]) if not self.wrong() else self.value(depth, "list")
            saved = list(self.env.vars)
            self.env.vars.append((var, "any"))
            if self.p(0.5) and depth > 0:
                inner = "{\n" + "".join(self.statement(depth - 1, in_multiclass) for _ in range(rng.choice([0, 1, 2]))) + "}\n"
            else:
                inner = self.statement(depth - 1, in_multiclass) if depth > 0 else "def ;\n"
            self.env.vars = saved if not self.wrong() else self.env.vars
            return "foreach %s = %s in %s" % (var, init, inner)
        if k == "if":
            cond = self.value(depth, "bit")
            def blk():
                if self.p(0.6) and depth > 0:
                    return "{\n" + "".join(self.statement(depth - 1, in_multiclass) for _ in range(rng.choice([0, 1, 2]))) + "}\n"
                return self.statement(depth - 1, in_multiclass) if depth > 0 else "def ;\n"
            s = "if %s then %s" % (cond, blk())
            if self.p(0.4):
                s += "else " + blk()
            return s
        if k == "let":
            n = rng.choice([1, 1, 2])
            items = []
            for _ in range(n):
                nm = rng.choice(self.env.fields) if self.env.fields and not self.wrong() else rng.choice(["f", "g", "x"])
                items.append("%s%s = %s" % (nm, rng.choice(["", "", "<0-3>", "<1>"]), self.value(depth, "any")))
            if self.p(0.5) and depth > 0:
                inner = "{\n" + "".join(self.statement(depth - 1, in_multiclass) for _ in range(rng.choice([0, 1, 2]))) + "}\n"
            else:
                inner = self.statement(depth - 1, in_multiclass) if depth > 0 else "def ;\n"
            return "let %s in %s" % (", ".join(items), inner)
        if k == "multiclass":
            name = self.fresh("MC")
            targs = self.template_args()
            if not targs and self.p(0.6):
                targs = [("int", self.fresh("t"), False)]
            saved_vars = list(self.env.vars)
            for _, nm, _ in targs:
                self.env.vars.append((nm, "any"))
            par = self.parents(depth, multiclass=True)
            n = rng.choice([1, 1, 2, 3])
            inner = "".join(self.statement(max(0, depth - 1), True) for _ in range(n)) if not (self.wrong() and self.p(0.3)) else ""
            self.env.vars = saved_vars
            self.env.multiclasses[name] = (targs, [])
            return d + "multiclass %s%s%s {\n%s}\n" % (name, self.render_targs(targs), par, inner)
        if k == "assert":
            return "assert %s, %s;\n" % (self.value(depth, "bit"), self.value(1, "string"))
        return "dump %s;\n" % self.value(depth, "string")

    def file(self, nstmts, includes=()):
        parts = []
        for inc in includes:
            parts.append('include "%s"\n' % inc)
        for _ in range(nstmts):
            parts.append(self.statement(self.rng.choice([1, 2, 2, 3])))
            if includes and self.p(0.05):
                parts.append('include "%s"\n' % self.rng.choice(list(includes)))
        return "".join(parts)


def kind_of_type(t):
    if t in ("int",):
        return "int"
    if t in ("string", "code"):
        return "string"
    if t == "bit":
        return "bit"
    if t == "dag":
        return "dag"
    if t.startswith("bits"):
        return "bits"
    if t.startswith("list"):
        return "list"
    return "any"


def light_damage(rng, text):
    """a small syntactic injury: drop or duplicate a punctuation character"""
    idx = [i for i, c in enumerate(text) if c in "{}<>();,=:"]
    if not idx:
        return text
    i = rng.choice(idx)
    if rng.random() < 0.5:
        return text[:i] + text[i + 1:]
    return text[:i] + text[i] + text[i:]


# ----------------------------------------------------------------------------- streams
def gen_sem(rng, size):
    """semantically rich multi-file workspace; `size` scales statements per file"""
    g = RichGen(rng, err=rng.choice([0.03, 0.08, 0.15, 0.3]))
    shape = rng.choice(["single", "single", "chain", "diamond", "self", "missing", "nested", "incdir", "tree"])
    files = {}
    inc_dir = None
    n = max(1, size)
    if shape == "single":
        files["/w/a.td"] = g.file(n)
    elif shape == "chain":
        files["/w/c.td"] = g.file(n)
        files["/w/b.td"] = g.file(n, ["c.td"])
        files["/w/a.td"] = g.file(n, ["b.td"])
    elif shape == "diamond":
        files["/w/d.td"] = g.file(n)
        files["/w/b.td"] = g.file(max(1, n // 2), ["d.td"])
        files["/w/c.td"] = g.file(max(1, n // 2), ["d.td"])
        files["/w/a.td"] = g.file(n, ["b.td", "c.td"])
    elif shape == "self":
        files["/w/b.td"] = g.file(n, ["a.td", "b.td"])
        files["/w/a.td"] = g.file(n, ["a.td", "b.td"])
    elif shape == "missing":
        files["/w/b.td"] = g.file(n, ["nothere.td"])
        files["/w/a.td"] = g.file(n, ["b.td", "gone.td", "sub/x.td"])
    elif shape == "nested":
        files["/w/sub/deep/c.td"] = g.file(n)
        files["/w/sub/b.td"] = g.file(n, ["deep/c.td", "../a.td"])
        files["/w/a.td"] = g.file(n, ["sub/b.td", "./sub/deep/c.td"])
    elif shape == "incdir":
        inc_dir = "/inc"
        files["/inc/lib.td"] = g.file(n)
        files["/inc/b.td"] = g.file(1)
        files["/w/b.td"] = g.file(n, ["lib.td"])
        files["/w/a.td"] = g.file(n, ["b.td", "lib.td", "/inc/lib.td"])
    else:
        files["/w/l1.td"] = g.file(n)
        files["/w/l2.td"] = g.file(n)
        files["/w/m.td"] = g.file(n, ["l1.td", "l2.td"])
        files["/w/a.td"] = g.file(n, ["m.td", "l2.td"])
        files["/w/unused.td"] = g.file(1)
    # nested include statements (never resolved by the real code)
    if rng.random() < 0.1:
        files["/w/a.td"] += 'let x = 1 in { include "b.td" }\nforeach i = [1] in include "b.td"\n'
    if rng.random() < 0.25:
        p = rng.choice(list(files.keys()))
        for _ in range(rng.choice([1, 1, 2])):
            files[p] = light_damage(rng, files[p])
    if rng.random() < 0.08:
        p = rng.choice(list(files.keys()))
        files[p] = files[p].replace("\n", "\r\n")
    if rng.random() < 0.05:
        p = rng.choice(list(files.keys()))
        files[p] = rng.choice(["", " ", "\n\n", "// only a comment", "/* c */", "// c\n", "\ufeff", "#ifdef X\n#endif\n"])
    if rng.random() < 0.08:
        p = rng.choice(list(files.keys()))
        files[p] = files[p].replace('"s"', '"sä€\U0001F600"').replace("// doc", "// dôc")
    root = "/w/a.td"
    if rng.random() < 0.05:
        root = rng.choice(list(files.keys()))
    return {"files": files, "root": root, "include_dir": inc_dir}


def gen_bang(rng, size):
    g = RichGen(rng, err=rng.choice([0.0, 0.1, 0.35]))
    lines = ["class A<int x = 0> { int f = x; list<int> li = [1]; string s = \"a\"; dag dg = (ops); bits<4> bt = {0,1,0,1}; }\n",
             "class B : A<1> { A a; list<A> la = [A<1>]; list<list<int>> lli = [[1]]; code cd = [{ c }]; bit b1 = 1; }\n",
             "def ops; def rec0 : B; defvar gi = 1; defvar gs = \"s\"; defvar gl = [1, 2]; defvar gd = (ops 1:$a);\n"]
    g.env.classes["A"] = ([("int", "x", True)], [("int", "f")])
    g.env.classes["B"] = ([], [])
    g.env.defs += ["ops", "rec0"]
    g.env.vars += [("gi", "int"), ("gs", "string"), ("gl", "list"), ("gd", "dag")]
    g.env.fields += ["f", "li", "s", "dg", "bt", "a", "la", "lli", "cd", "b1"]
    for i in range(max(1, size)):
        form = rng.random()
        b = g.bang(rng.choice([1, 2, 3]))
        if form < 0.4:
            lines.append("defvar bv%d = %s;\n" % (i, b))
            g.env.vars.append(("bv%d" % i, "any"))
        elif form < 0.8:
            lines.append("def bd%d : B { let %s = %s; %s nf%d = %s; }\n" % (i, rng.choice(g.env.fields), b, g.typ(2), i, g.bang(2)))
        else:
            lines.append("class BC%d<%s p%d = %s> : A<%s>;\n" % (i, g.typ(1), i, b, g.bang(1)))
    return {"files": {"/w/a.td": "".join(lines)}, "root": "/w/a.td", "include_dir": None}


def gen_grammar(rng, size):
    toks = sentence(rng, "SourceFile", budget=rng.choice([4, 6, 8, 10]) + size // 4)
    r = rng.random()
    if r < 0.25:
        toks = mutate(rng, toks)
    if r < 0.08:
        toks = mutate(rng, toks)
    text = render(rng, toks, rng.choice(["spaced", "spaced", "tight", "messy"]))
    if rng.random() < 0.12:
        text = noise(rng, text)
    files = {"/w/a.td": text}
    if rng.random() < 0.3:
        # make includes in the sentence resolvable now and then
        t2 = render(rng, sentence(rng, "SourceFile", budget=5), "spaced")
        files["/w/a.td"] = 'include "s"\ninclude "a.td"\n' + text
        files["/w/s"] = t2
        files["/w/a.td.td"] = "class Z;"
    return {"files": files, "root": "/w/a.td", "include_dir": None}


INC_SNIPPETS = ["class %s;\n", "class %s { int f; }\n", "def %s_d : %s;\n", "defvar %s_v = 1;\n", "multiclass %s_m<int a> { def NAME; }\n"]


def gen_inc(rng, size):
    """include graph shapes over tiny files, with path spelling variants"""
    n = rng.choice([2, 3, 4, 5])
    names = ["/w/a.td"] + ["/w/%s.td" % c for c in "bcdef"[: n - 1]]
    if rng.random() < 0.3:
        names.append("/w/sub/g.td")
    if rng.random() < 0.3:
        names.append("/inc/h.td")
    files = {}
    for i, p in enumerate(names):
        base = os.path.basename(p)[:-3].upper()
        body = []
        for _ in range(rng.choice([0, 1, 2, 3])):
            tgt = rng.choice(names + ["/w/missing.td", "/w/a.td"])
            d = os.path.dirname(p)
            spell = rng.choice(["rel", "rel", "rel", "abs", "dot", "dotdot", "dslash", "bare"])
            if spell == "abs":
                s = tgt
            elif spell == "bare":
                s = os.path.basename(tgt)
            else:
                s = os.path.relpath(tgt, d)
                if spell == "dot":
                    s = "./" + s
                elif spell == "dotdot":
                    s = "../" + os.path.basename(d) + "/" + s
                elif spell == "dslash":
                    s = s.replace("/", "//") if "/" in s else ".//" + s
            body.append('include "%s"\n' % s)
        for _ in range(rng.choice([1, 2])):
            sn = rng.choice(INC_SNIPPETS)
            body.append(sn % ((base,) * sn.count("%s")))
        if rng.random() < 0.2:
            body.append("def use_%s : %s;\n" % (base, rng.choice("ABCDEFGH")))
        rng.shuffle(body)
        if rng.random() < 0.1:
            body.append("class Broken<\n")
        files[p] = "".join(body)
    inc = rng.choice([None, None, "/inc", "/w/sub", "/w"])
    root = "/w/a.td" if rng.random() < 0.85 else rng.choice(names)
    if rng.random() < 0.05:
        root = "/w/notinfiles.td"
    return {"files": files, "root": root, "include_dir": inc}


def gen_big(rng, size):
    """operation logs beyond the driver's `fastThreshold` (array implementation of the symbol-map model)"""
    g = RichGen(rng, err=0.05)
    head = g.file(6)
    n = rng.choice([700, 1000, 1500])
    lines = ["class Base<int a = 0, string t = \"\"> { int f = a; string s = t; list<int> l = [a]; }\n"]
    for i in range(n):
        r = rng.random()
        if r < 0.5:
            lines.append("def bd%d : Base<%d> { let f = %d; let s = \"x\"; }\n" % (i, i, i))
        elif r < 0.7:
            lines.append("class BC%d<int q = %d> : Base<q, \"c\"> { int g%d = !add(f, q); }\n" % (i, i, i))
        elif r < 0.85:
            j = rng.randrange(i + 1)
            lines.append("def bx%d : BC%d<%d> { let f = bd%d.f; }\n" % (i, j, i, j))
        else:
            lines.append("defvar bv%d = !foreach(x, [%d, 2], !add(x, %d));\n" % (i, i, i))
    files = {"/w/a.td": 'include "h.td"\n' + "".join(lines), "/w/h.td": head}
    return {"files": files, "root": "/w/a.td", "include_dir": None}


def corpus_cases(rng, limit=None):
    fs = sorted(os.listdir(CORPUS))
    if limit:
        fs = fs[:limit]
    for f in fs:
        with open(os.path.join(CORPUS, f), encoding="utf-8") as fh:
            text = fh.read()
        path = "/c/" + f
        qs = [["diagnostics"], ["document_symbol", path], ["folding_range", path], ["document_link", path],
              ["inlay_hint", path, 0, len(text.encode("utf-8"))]]
        starts, extra = byte_offsets(text, rng, 50)
        for o in starts:
            qs += [["goto", path, o], ["references", path, o], ["hover", path, o]]
        for o in extra:
            qs += [["completion", path, o, None]]
        yield f, {"files": {path: text}, "root": path, "include_dir": None, "queries": qs}


# declarations that lack a name, a type or an operand, names that are not one token, widths that overflow: the early exits of
# the indexer (each program reaches several; found unvisited by the owners' streams in the coverage study)
ODD = [
    # hierarchies with a shared base reached along several paths, the wanted class behind an earlier parent (llvm-tblgen rejects a
    # class inherited twice; the server accepts it, so these are not well-formed programs - what is compared is model and code)
    'class Base {} class Reg {} class GPR : Reg {} class Sched : Base {} class Enc : Base {}\nclass Operand { Reg reg; list<Reg> regs = []; }\n'
    'def R0 : GPR, Sched, Enc; def R1 : Sched, Enc, GPR; def Op0 : Operand { let reg = R0; } def Op1 : Operand { let reg = R1; let regs = [R0, R1]; }\n'
    'class Both : Sched, Enc; def R2 : GPR, Both; multiclass M { def _op : Operand { let reg = R2; } } defm X : M;\n'
    'class Holder<Reg r> { Reg held = r; } def H : Holder<R0> { Reg other = R2; list<Base> bs = [R0, R1, R2]; Base b = !if(1, R0, R2); }\n',
    'class A; class B : A; class C : A; class D : B, C; class E : C, B; class F : D, E, A;\ndef d : D; def e : E; def f : F; def u { A a = f; B b = d; C c = e; list<A> l = [d, e, f]; D x = !if(1, d, f); }\n',
    'class ;\ndefset int = {}\ndefvar = 1;\nforeach = [1] in def f1;\nmulticlass { def a; }\nclass T<int>;\nmulticlass M { def a; }\ndefm x : ;\nclass R { int f; let = 1; int g = f.; }\n',
    'multiclass M { def a; }\ndefm x : M, ;\nmulticlass N { defm y : M, ; }\nclass C<int x>;\ndefm dm : M, C<1 = 2>;\ndef d : ;\n',
    'class A { field 1 x; field int y; list<1> l; bits<> b; }\ndefset 1 s = {}\nclass B<1 x>;\n',
    'class A { bits<4> f; let f{} = 0; let f{1-} = 0; let f{0...9223372036854775807, 0...9223372036854775807, 0...1} = 0; }\nclass C { bits<1> x = { 0b }; bits<2> y = { 0b, 0b1 }; }\n',
    'defvar a = !foreach(); defvar b = !subst(); defvar c = !foldl(); defvar d = !filter(); defvar l = !filter(x, [1, 2], !eq(x, 1));\n',
    'class A;\ndef "a" "b" : A;\ndef "c\\"" : A;\ndef "" : A;\ndef "a" # "b" : A;\ndef "x" : A;\ndef q : A { A r = x; }\n',
    'defvar x = !if({1, 0}, 1, 2);\ndefvar y = !if(0b1, "a", "b");\nclass B; class D : B; class E : B;\ndefvar l = [D<>, B<>];\ndefvar m = [D<>, E<>];\ndefvar n = [D<>, 1];\n',
    'class A<int x> { bits<4> f; int g = x; }\ndef d : A<x = 1> { let f{1-0} = 1; }\ndef e : A<x = 2, x = 3>;\ndef h : A<y = 1>;\ndefset list<A> s = { defm : M; def in_s : A<1>; }\n',
    'class A { int v = !substr("abc", 1); int w = !substr("abc", 1, 2); list<int> r = !range(3); list<int> q = !range(1, 4, 2); '
    'int f = !foldl(0, [1, 2], acc, e, !add(acc, e)); list<int> m = !foreach(e, [1], !add(e, 1)); list<int> k = !filter(e, [1, 2], !lt(e, 2)); string s = !subst("a", "b", "abc"); }\n',
]


def gen_odd(rng, size):
    t = rng.choice(ODD)
    if rng.random() < 0.4:
        t = rng.choice(ODD) + t
    if rng.random() < 0.3:
        # a second file that uses / repeats the declarations
        return {"files": {"/w/a.td": 'include "b.td"\n' + t, "/w/b.td": rng.choice(ODD)}, "root": "/w/a.td"}
    return {"files": {"/w/a.td": t}, "root": "/w/a.td"}


STREAMS = {"grammar": gen_grammar, "sem": gen_sem, "bang": gen_bang, "inc": gen_inc, "big": gen_big, "odd": gen_odd}


# ----------------------------------------------------------------------------- library entry
def run_streams(streams, n, seed=1, oplog=False, shrink_budget=15, max_report=6, corpus_limit=None):
    """Correspondence of the Lean IDE model with the real implementation on the given streams.
    Returns (stats {stream: {cases, agree, mismatch, queries}}, mismatches [{stream, ident, case, diffs}]) with the
    mismatching cases shrunk, smallest first."""
    oracle = Proc(ORACLE)
    model = Proc(MODEL)
    stats, mism = {}, []
    try:
        for s in streams:
            ok = bad = nq = 0
            if s == "corpus":
                rng = random.Random(seed)
                for fname, case in corpus_cases(rng, corpus_limit):
                    if oplog:
                        case["oplog"] = True
                    diffs = run_case(oracle, model, case)
                    nq += len(case["queries"])
                    if diffs:
                        bad += 1
                        mism.append((s, fname, case, diffs))
                    else:
                        ok += 1
            else:
                gen = STREAMS[s]
                count = n if s not in ("big", "odd") else (max(2, n // 60) if s == "big" else max(12, n // 10))
                for i in range(count):
                    rng = random.Random("%s-%d-%d" % (s, seed, i))
                    size = 1 + (i * 12) // max(1, n) if s != "bang" else 2 + (i * 30) // max(1, n)
                    case = gen(rng, size)
                    case["queries"] = queries_for(case["files"], rng, max_idents=120 if s != "big" else 40, heavy=(s != "big"))
                    if oplog:
                        case["oplog"] = True
                    diffs = run_case(oracle, model, case)
                    nq += len(case["queries"])
                    if diffs:
                        bad += 1
                        mism.append((s, "%s-%d-%d" % (s, seed, i), case, diffs))
                    else:
                        ok += 1
            stats[s] = {"cases": ok + bad, "agree": ok, "mismatch": bad, "queries": nq}
        out = []
        for s, ident, case, diffs in mism[:max_report]:
            c2 = case
            if s != "corpus":
                try:
                    c2 = shrink(oracle, model, case, budget_s=shrink_budget)
                except Exception:
                    c2 = case
            d2 = run_case(oracle, model, c2) or diffs
            out.append({"stream": s, "ident": ident, "size": case_size(c2), "case": c2,
                        "diffs": [{"query": q, "impl": a, "model": b} for q, a, b in d2[:3]]})
        out.sort(key=lambda x: x["size"])
        return stats, out
    finally:
        oracle.close()
        model.close()


# ----------------------------------------------------------------------------- main
def main():
    ap = argparse.ArgumentParser()
    ap.add_argument("--quick", action="store_true")
    ap.add_argument("--full", action="store_true")
    ap.add_argument("--stream", default=None, help="grammar|sem|bang|inc|corpus (default: all)")
    ap.add_argument("-n", type=int, default=None, help="cases per generated stream")
    ap.add_argument("--seed", type=int, default=1)
    ap.add_argument("--repro", default=None)
    ap.add_argument("--no-shrink", action="store_true")
    ap.add_argument("--oplog", action="store_true", help="also compare the symbol-map operation logs")
    ap.add_argument("--save", default=os.path.join(HERE, "mismatches"))
    ap.add_argument("--corpus-limit", type=int, default=None)
    ap.add_argument("--oracle", default=ORACLE)
    args = ap.parse_args()

    # the oracle binary may be rebuilt while we run: work on a private copy of the current one
    import shutil
    import tempfile
    tmpdir = tempfile.mkdtemp(prefix="idxcmp")
    oracle_copy = os.path.join(tmpdir, "tgverif")
    shutil.copy2(args.oracle, oracle_copy)
    print("oracle: %s (mtime %s)" % (args.oracle, time.strftime("%H:%M:%S", time.gmtime(os.path.getmtime(args.oracle)))))
    oracle = Proc(oracle_copy)
    model = Proc(MODEL)

    if args.repro:
        case = json.load(open(args.repro))
        for q, a, b in run_case(oracle, model, case):
            print("query", json.dumps(q))
            print("  real :", json.dumps(a, ensure_ascii=False)[:2000])
            print("  model:", json.dumps(b, ensure_ascii=False)[:2000])
        return 0

    n = args.n if args.n is not None else (2500 if args.full else 500)
    streams = [args.stream] if args.stream else ["grammar", "sem", "bang", "inc", "big", "corpus"]
    stats = {}
    mismatches = []
    t_start = time.time()
    for s in streams:
        ok = bad = 0
        nq = 0
        t0 = time.time()
        t_model = 0.0
        if s == "corpus":
            rng = random.Random(args.seed)
            for fname, case in corpus_cases(rng, args.corpus_limit):
                if args.oplog:
                    case["oplog"] = True
                t1 = time.time()
                diffs = run_case(oracle, model, case)
                nq += len(case["queries"])
                if diffs:
                    bad += 1
                    mismatches.append((s, fname, case, diffs))
                else:
                    ok += 1
            stats[s] = (ok, bad, nq, time.time() - t0)
            continue
        gen = STREAMS[s]
        count = n if s != "big" else max(3, n // 60)
        for i in range(count):
            rng = random.Random("%s-%d-%d" % (s, args.seed, i))
            # growing size
            size = 1 + (i * 12) // max(1, n) if s != "bang" else 2 + (i * 30) // max(1, n)
            case = gen(rng, size)
            case["queries"] = queries_for(case["files"], rng, max_idents=120 if s != "big" else 40, heavy=(s != "big"))
            if args.oplog:
                case["oplog"] = True
            diffs = run_case(oracle, model, case)
            nq += len(case["queries"])
            if diffs:
                bad += 1
                mismatches.append((s, "%s-%d-%d" % (s, args.seed, i), case, diffs))
            else:
                ok += 1
        stats[s] = (ok, bad, nq, time.time() - t0)

    # shrink + report
    os.makedirs(args.save, exist_ok=True)
    shrunk = []
    for s, ident, case, diffs in mismatches:
        c2 = case
        if not args.no_shrink and s != "corpus" and len(shrunk) < 25:
            try:
                c2 = shrink(oracle, model, case)
            except Exception as e:  # pragma: no cover
                print("shrink failed:", e)
        d2 = run_case(oracle, model, c2) or diffs
        shrunk.append((case_size(c2), s, ident, c2, d2))
    shrunk.sort(key=lambda x: x[0])
    for size, s, ident, case, diffs in shrunk:
        fn = os.path.join(args.save, ident.replace("/", "_") + ".json")
        with open(fn, "w") as f:
            json.dump(case, f, ensure_ascii=False)
        print("=" * 78)
        print("MISMATCH [%s] %s  (input %d chars, saved %s)" % (s, ident, size, fn))
        if size < 1500:
            for p, t in case["files"].items():
                print("--- %s%s" % (p, " (root)" if p == case["root"] else ""))
                print(t)
        for q, a, b in diffs[:4]:
            print("query", json.dumps(q))
            a, b = brief(a, b)
            print("  real :", json.dumps(a, ensure_ascii=False)[:700])
            print("  model:", json.dumps(b, ensure_ascii=False)[:700])
        if len(diffs) > 4:
            print("  ... %d more differing queries" % (len(diffs) - 4))
    print("=" * 78)
    total_bad = 0
    for s, (ok, bad, nq, dt) in stats.items():
        total_bad += bad
        print("stream %-8s cases %5d  agree %5d  mismatch %4d  queries %8d  %.1fs" % (s, ok + bad, ok, bad, nq, dt))
    print("total time %.1fs; mismatching cases: %d" % (time.time() - t_start, total_bad))
    oracle.close()
    model.close()
    return 1 if total_bad else 0


if __name__ == "__main__":
    sys.exit(main())
