#!/bin/sh
# usage: try_benign.sh <patch.diff> [props...]
# Applies a behaviour-preserving patch to a scratch worktree of /repo and runs the quick checks (proof stage included) from a scratch
# copy of /verif: every check must exit 0. Leaves /repo and /verif alone. One trial at a time (shares the scratch dirs of try_mutant_iso.sh).
set -u
PATCH=$(realpath "$1"); shift
PROPS=${*:-C01 C02 C03 C04 C05 C06 C07 C08 C09 C10 C11 C12 C13 C14 C15 C16 C17 C18 C19 C20}
SFX=${ISO_SUFFIX:-}; MR=/root/work/mutrepo$SFX; MV=/root/work/mutverif$SFX
[ -d $MR ] || git -C /repo worktree add --detach $MR HEAD >/dev/null 2>&1
REV=$(git -C /repo rev-parse HEAD)
# a snapshot of /verif is tried against the revision of /repo it was taken for
[ -n "${VERIF_SRC:-}" ] && [ -f "$VERIF_SRC/.repo_rev" ] && REV=$(cat "$VERIF_SRC/.repo_rev")
cd $MR && git checkout -q -- . && git clean -fdq crates && git checkout -q --detach "$REV" || exit 2
mkdir -p $MV
rsync -a --delete --exclude .git --exclude harness/target --exclude harness/Cargo.toml --exclude evidence --exclude replays ${VERIF_SRC:-/verif}/ $MV/
mkdir -p $MV/evidence $MV/replays
sed "s#/repo/crates#$MR/crates#" ${VERIF_SRC:-/verif}/harness/Cargo.toml > $MV/harness/Cargo.toml.new
cmp -s $MV/harness/Cargo.toml.new $MV/harness/Cargo.toml 2>/dev/null || cp $MV/harness/Cargo.toml.new $MV/harness/Cargo.toml
if ! git apply --check "$PATCH" 2>/dev/null; then echo "PATCH-DOES-NOT-APPLY"; exit 3; fi
git apply "$PATCH"
cd $MV
for p in $PROPS; do
  VERIF_REPO=$MR ./check "$p" --tier quick > /tmp/benign.$$.out 2>&1; rc=$?
  echo "$p rc=$rc $(grep -v '^KNOWN-FINDING' /tmp/benign.$$.out | tail -1)"
  [ $rc -ne 0 ] && grep '^VIOLATION' /tmp/benign.$$.out | head -3
done
rm -f /tmp/benign.$$.out
cd $MR && git checkout -q -- . && git clean -fdq crates && git status --short | head -3
exit 0
