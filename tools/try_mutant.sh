#!/bin/sh
# usage: try_mutant.sh <prop-id> <patch.diff> [tier]
# applies the patch to /repo, runs the check, undoes the patch. Prints the verdict lines.
set -u
ID=$1; PATCH=$2; TIER=${3:-quick}
cd /repo || exit 2
if ! git apply --check "$PATCH" 2>/dev/null; then echo "PATCH-DOES-NOT-APPLY"; exit 3; fi
git apply "$PATCH"
cd /verif && ./check "$ID" --tier "$TIER" | grep -v "^KNOWN-FINDING" | tail -6
RC=$?
cd /repo && git checkout -- . && git status --short | head -3
exit 0
