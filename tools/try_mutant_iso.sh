#!/bin/sh
# usage: try_mutant_iso.sh <prop-id> <patch.diff> [tier]
# Like try_mutant.sh but leaves /repo and /verif alone: the patch is applied to a scratch worktree
# of /repo (/root/work/mutrepo) and the check runs from a synced scratch copy of /verif
# (/root/work/mutverif) whose harness depends on that worktree.
set -u
ID=$1; PATCH=$(realpath "$2"); TIER=${3:-quick}
SFX=${ISO_SUFFIX:-}; MR=/root/work/mutrepo$SFX; MV=/root/work/mutverif$SFX
[ -d $MR ] || git -C /repo worktree add --detach $MR HEAD >/dev/null 2>&1
cd $MR && git checkout -q -- . && git clean -fdq crates && git checkout -q --detach "$(git -C /repo rev-parse HEAD)" || exit 2
mkdir -p $MV
rsync -a --delete --exclude .git --exclude harness/target --exclude harness/Cargo.toml --exclude evidence --exclude replays ${VERIF_SRC:-/verif}/ $MV/
mkdir -p $MV/evidence $MV/replays
sed "s#/repo/crates#$MR/crates#" ${VERIF_SRC:-/verif}/harness/Cargo.toml > $MV/harness/Cargo.toml.new
cmp -s $MV/harness/Cargo.toml.new $MV/harness/Cargo.toml 2>/dev/null || cp $MV/harness/Cargo.toml.new $MV/harness/Cargo.toml
if ! git apply --check "$PATCH" 2>/dev/null; then echo "PATCH-DOES-NOT-APPLY"; exit 3; fi
git apply "$PATCH"
cd $MV && VERIF_REPO=$MR ./check "$ID" --tier "$TIER" | grep -v "^KNOWN-FINDING" | tail -6
cd $MR && git checkout -q -- . && git clean -fdq crates && git status --short | head -3
exit 0
