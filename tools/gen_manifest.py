#!/usr/bin/env python3
"""Regenerates /verif/MANIFEST.json from the per-property claims below (authoring helper)."""
import json
import os

ROOT = os.path.dirname(os.path.dirname(os.path.abspath(__file__)))
COMMON_NOTE = (" Theorems are about hand-written Lean models; agreement with the Rust code is established by the "
               "table translator and by sampled/exhaustive-small differential correspondence, not proved. "
               "Axioms allowed: propext, Classical.choice, Quot.sound (audited per theorem on every run).")
CLAIMS = {
    "C01": dict(
        text="Lean theorems parse_lossless/token_ranges: for every input on which the parser model returns a tree, the leaves "
             "concatenate to the input and each leaf sits at its running offset; exec_lossless holds for every DSL program "
             "(any grammar), lex_consumes/prep_consumes for every lexer/preprocessor call. The model is tied to the Rust code by "
             "differential correspondence (tree + error dumps, token streams) on generated inputs and the LLVM corpus, and the "
             "property is additionally evaluated directly on the implementation (oracle01).",
        note="Model: Lex/Prep/Dsl/Grammar.lean vs lexer.rs/preprocessor.rs/parser.rs/grammar/*.rs. rowan range arithmetic and "
             "Rust std Unicode tables assumed.",
        tech="Lean 4 proof (invariant over all DSL programs, induction on fuel) + differential correspondence model vs code",
        ref="DESIGN.md §7 C01"),
    "C02": dict(
        text="Lean theorems: check_sound (a verified static progress/no-panic checker for the parser DSL: if it accepts, every "
             "function terminates from every state, by well-founded induction on (remaining input, rank)), grammar_checks "
             "(the checker accepts the concrete grammar, by kernel evaluation), parser_terminates / no_parser_panic (for every "
             "input the parser model finishes for some fuel and never hits assert!/\"error token without message\"), "
             "error_ranges_wellformed (generic over all DSL programs), messages_nonempty (regenerated table). Tied to the Rust "
             "parser by tree/error correspondence and by a step-budget hook that turns non-progress into a deterministic panic; "
             "nesting depth 256 exercised on both sides.",
        note="C02Builder.lean adds: exec_never_panics / parse_no_panic (the parser model NEVER ends in any of the six panics, tree-builder "
             "panics and root count included, for every input and every fuel, by a verified abstract interpretation of the builder "
             "frames) and parser_finishes (one root, no open node). C02Fuel.lean: check_bound (quantitative refinement of "
             "check_sound: every function runs within W + 92*remaining + 13*rank levels of fuel), parser_fuel_bound / "
             "run_not_outOfFuel / run_ok_of_fuel (92*len + 92 levels suffice for every input), parse_never_panics_of_parseFuel. "
             "Work bound PROVED: parse_work_linear (steps <= 500*(characters+1)) and parse_work_linear_tokens (steps <= 500*(tokens+1)), "
             "where steps = calls of lex and start_node, exactly what the Rust hook counts (check_cost: a quantitative refinement of "
             "check_sound with a rebate per unit of progress; the constant is what the accounting needs, the measured need is below 3 "
             "per token on the model and about 7 on the Rust side, still compared on every run); stack depth is a runtime measurement.",
        tech="Lean 4 proof: verified abstract-interpretation checker (total-correctness soundness theorem) + decide +kernel on the grammar",
        ref="DESIGN.md §7 C02"),
    "C04": dict(
        text="Specification = the grammar table REGENERATED on every run from /repo/syntax.md and the rule comments of grammar/*.rs "
             "(translator, listed errata only) with a generic derivation relation Doc.Derives. Lean theorems: forward_partial (every "
             "input whose token kinds are a program of the fragment Frag - all twelve statement forms and the full recursive value "
             "grammar, restricted exactly at the listed deviations - parses with zero errors, connected to Grammar.parse with its "
             "concrete fuel and a single root), frag_is_documented (every fragment program is a documented sentence, checked "
             "against the regenerated table), errors_only_grow / after_error_has_error / expect_miss_reports / error_prims_report "
             "(the reporting discipline for EVERY program of the parser DSL: an error once recorded stays, a missing required token "
             "leaves at least one error), type_converse_partial (a clean run of the type parser consumed a derivable type), "
             "full_forward_false and documented_sentences_rejected (machine-checked witnesses that the full forward statement is "
             "false of the parser: the restrict-type deviations). Checks: parser model vs implementation on every generated text; "
             "an Earley recogniser over the regenerated grammar (and over it patched by each listed deviation) classifies "
             "sentences of the documented grammar, their single token deletions/duplications/transpositions and sampled "
             "insertions/replacements; every disagreement not explained by a listed deviation is a violation; typed-accessor "
             "reachability via a walker GENERATED from the asts! table (Rust, real accessors) vs the Lean AstWalk model; the 39 "
             "LLVM files parse clean.",
        note="forward_partial and the accessor theorems carry the side condition `Src.endMessage input = none` (no conditional left "
             "open at the end of the text; without it the statement is false: forward_needs_clean_end), forward_partial_end is the "
             "hypothesis-free form (errors = the end-of-text error, if any). Accessor clause: accessors_reach_all / every_node_accessible (for every fragment program every node of the parse tree "
             "is reached through the typed accessors of the REGENERATED asts! table, accessor results in source order) - proved. "
             "Converse: reporting discipline + type_converse_partial + statement_form_converse (all twelve statement forms, nested "
             "statements by induction) + value_converse (every value form) + source_file_converse_shape: an input parsed with zero "
             "errors whose token kinds avoid the listed adjacent-token patterns (Shape, VShape: exactly the deviations where the "
             "parser accepts more than the documentation) is a sentence of the documented grammar (Doc.Sentence) - no residual "
             "hypothesis; sharper: source_file_converse_values (the value patterns are asked of the Value nodes of the TREE only, so "
             "empty record bodies / blocks and `x[1,]` are covered). Negatives as theorems: valueOK_false, full_converse_false and "
             "deviation_*_accepted_not_documented (string-concat, type-code, empty-value-list, list-type-suffix, trailing separators: "
             "parsed cleanly and NOT a documented sentence, by a verified complete matcher). Outside the shapes decided case by case "
             "by the recogniser (testing, labelled). 10 deviations of the parser from the documented grammar are known "
             "findings (DESIGN.md §12.5).",
        tech="Lean 4 proof (abstract interpreter over token kinds + simulation theorem, per-rule contracts by mutual structural recursion) "
             "over a grammar table regenerated from the documentation + differential correspondence + Earley oracle",
        ref="DESIGN.md §7 C04, §12.5"),
    "C03": dict(
        text="Lean theorems on the model of crates/ide in which every Rust panic site is an explicit error value: "
             "index_never_panics (for EVERY workspace built from any file map, root and include dir the indexer returns a result: "
             "arena ids stay valid - IdsOK -, the scope stack keeps a non-defset scope, the file trace is never empty, the "
             "'outside of record' panics and unreachable!() of the bang operators are unreachable, the fuel of the recursion "
             "knot suffices), analysis_total (all nine handlers answer for every file and offset; completion needs offset <= "
             "length, past it rowan's 'Bad offset' panic is real and exhibited), built_ready (the tree-shape facts the proofs need "
             "hold for every parser output, by a verified abstract interpreter over the parser DSL + kernel evaluation). Checks: "
             "model vs implementation on the `ws` streams (panic behaviour included); the sweep - every query kind at every "
             "character boundary of every file, inlay hints for all sub-ranges - over stress patterns (self/mutual references, "
             "redefinitions, shadowing), generated programs, their prefixes and token mutations, non-ASCII/CRLF injection, "
             "include chains/diamonds/includes inside blocks, bounded deep nesting and the corpus must not panic, crash or hang.",
        note="Unconditional forms: buildWorkspace_total (building a workspace from ANY file map, root path and include dir succeeds: the "
             "parser never panics or runs out of fuel - C02 - and the fuel of the collection loop suffices), index_never_panics_all, "
             "analysis_total_all. Stack overflow, salsa and rowan internals are not modelled (nesting depth is measured up to 1000, not proved); record "
             "ids carried inside Ty.record values are not tracked by the invariant (they are [id]! lookups, not panic values, in "
             "the model). Include cycles are allowed (the property excludes them; the repaired code handles them). Props/C03Sat: "
             "bits_literal_width (the width computed for a bits literal saturates below 2^64 and equals the plain sum whenever that is below 2^64).",
        tech="Lean 4 proof (invariant preserved by every one of ~100 indexer functions, Hoare-style over StateT/Except) + "
             "differential correspondence + exhaustive-offset sweep on the implementation",
        ref="DESIGN.md §7 C03, §12"),
    "C05": dict(
        text="Lean theorems on the scope machinery of the indexer model: findLocal_innermost / findLocal_eq (lookup walks the scopes "
             "innermost first; within a scope: variable, then field, then template argument), insertVariable_spec + "
             "findLocal_insertVariable_self/_other (a declaration shadows outer ones and nothing else), pop_insertVariable_push / "
             "findLocal_after_block (after a block has ended every name resolves as before it: what the block declared is gone), "
             "if/let/foreach/class/def/defm/multiclass/!foreach/!filter/!foldl_balanced (each construct leaves the scope stack as "
             "it found it; foreach/def/defm under the stated body-node condition, with foreach_without_body_leaks as the "
             "counter-example when it is missing), resolveId_run (locals, then defs, then defsets), identifier_not_found / "
             "identifier_found ('symbol not found' exactly when resolution fails). Checks: model vs implementation incl. the "
             "symbol-map operation log; the scope-tracking generator (use -> declaration map known by construction, audited "
             "against llvm-tblgen): go-to-definition and hover at every use and declaration, find-references at every "
             "declaration, deliberate out-of-scope uses must not resolve and must be reported.",
        note="Globally (RecScoped discharged for mkRec at every fuel, the body-node conditions discharged for every parser output by "
             "the verified abstract interpreter parse_bodied): index_ends_at_root_scope (indexing any workspace ends with exactly "
             "the root scope), statement_restores_scopes (every statement leaves the scope stack as it found it - exactly so for "
             "the block constructs, extended only in the innermost scope by defvar/defset/include), name_after_block_not_resolved "
             "(no variable introduced inside a block statement is ever resolved by a later statement; under ScopeIdsOK of the "
             "start state). End to end (section 5): use_goes_to_declaration (+ type / parent class / class value / multiclass sites): "
             "if the identifier site resolved a name to symbol S during indexing, then in the FINAL analysis go-to-definition at "
             "every offset of that identifier answers S's declaration and find-references at it lists the use (via "
             "logged_reference_answers: a logged reference is never overwritten - C06 NoReuse - and the log only grows: "
             "mkRec_later); references_exact / declaration_references_exact_partial (find-references answers exactly the logged "
             "references; hkept fails exactly for body `let` overrides on inherited fields = the two listed findings). "
             "use_goes_to_declaration_root: no residual hypothesis (LiveInv through the whole indexer) for identifier initialisers of "
             "fields in class / def bodies of the root file; the general site theorems keep hlater. Still the "
             "oracle, not a theorem: that the generator's expected declaration is the one findLocal picks. "
             "Props/C05Files, C05Foreach, C05Parent widen the capstone: every file reached through top-level includes, `let` / defvar / dump sites at any "
             "depth of top-level foreach bodies, argument values of any parent class reference (positional or named), and foreach_var_resolves / "
             "foreach_var_not_resolved_after (the iteration variable resolves to its own declaration inside the loop and to nothing behind it). "
             "Known findings: body `let` overrides create a second field symbol (2 signatures).",
        tech="Lean 4 proof (algebraic laws of the scope stack + Hoare triples per block construct) + differential correspondence + generator oracle",
        ref="DESIGN.md §7 C05, §12.7"),
    "C13": dict(
        text="Lean theorems on the decision logic of the diagnostics: canBeCastedTo_iff (the implemented cast relation equals an "
             "inductive relation Castable, read off as a case list; reflexive), checkTemplateArgs_run + too_many_arguments / "
             "value_not_specified / positional_type_error / named_type_error / named_rebound (template-argument checking reports "
             "exactly: more values than parameters; parameters without default bound neither positionally nor by name; values "
             "whose type cannot be cast), expectValues_contract (arity checks of the bang operators report iff the operand count is "
             "outside the allowed interval). Checks: model vs implementation on every bang-operator arm with right/wrong arity, "
             "types and annotations; generator oracle: well-typed programs of the core produce no diagnostic at all, every "
             "single seeded fault of the eleven listed classes is reported with a range covering the seeded site and nothing is "
             "reported in files the fault does not touch (unreported faults count only if llvm-tblgen rejects the program).",
        note="Per fault site (all 18 `ctx.error` sites of index.rs, table at the head of section (4) of Props/C13.lean): a run equation "
             "saying the site reports exactly when its lookup fails / its cast does not hold, with file = head of the file trace, the "
             "range of the named node and the message (include_not_found, classRef_class_lookup, classRef_multiclass_lookup, "
             "parent_self_inherit, namedArg_bad_name, fieldDef_initialiser, fieldLet_field_not_found(_reported), fieldLet_value, "
             "innerValue_suffixes, identifier_lookup, classValue_lookup, type_class_lookup, classParam_default, ...); bang operators: "
             "arity, type annotation and operand-list contracts (17 inline two-operand comparisons listed as not covered). "
             "Attribution: diagnostics_attributed / other_files_unchanged / index_diagnostics_files (every diagnostic belongs to the "
             "file being indexed; indexing an include leaves other files' diagnostics unchanged). Soundness: "
             "core_no_diagnostics_partial for a decidable core judgement: classes and defs with parent lists, template parameters with "
             "literal / earlier-parameter defaults, positional arguments, typed fields initialised by literals, fields in scope "
             "(own, inherited) or parameters, `let` with and without bit ranges (coreStatementList3/4; two LLVM-style 9-10 statement "
             "examples checked end to end), defvars at top level and in bodies with uses (5), list<T> fields with literal lists (6), fields of "
             "class type (7), each with its own decidable predicate and an end-to-end source; class values, def names as values and named "
             "arguments are beyond it (the oracle). Props/C13If: xIf_result (the result of !if is the then type, the else type or their "
             "common type, and `unknown` only with a missing operand type or together with the 'inconsistent types' report). "
             "letItem_unchecked proves the known finding (top-level `let f = v in` checks neither field name nor type).",
        tech="Lean 4 proof (decision logic stated outright: iff-characterisations) + differential correspondence + fault-seeding oracle audited by llvm-tblgen",
        ref="DESIGN.md §7 C13, §12.7"),
    "C17": dict(
        text="Lean theorems on the model of crates/ide for arbitrary (non-ASCII, malformed) input: ofTree_ranges_valid / "
             "parse_ranges_valid (every node and token range of a parse tree is a pair of character boundaries of the file "
             "content with start <= end), index_locs_valid (invariant LocsOK through all ~100 indexer functions: every location "
             "stored in an arena entry, the operation log or a diagnostic is the range of a node or token of the tree of the "
             "workspace file it names), and per handler diagnostics_/gotoDefinition_/references_/foldingRange_/documentLink_/"
             "documentSymbol_ranges_valid and inlayHint_positions_valid: every range of every answer names a workspace file and "
             "is valid in that file. The document-symbol theorem could not be closed at first: the proof exposed a genuine "
             "defect (a def reaching a defset through an include was outlined with a range of the other file), repaired in "
             "293f0c4. Checks: model vs implementation; every range of every result of the sweep over the C03 workspace "
             "space (plus non-ASCII prefixes, CR/CRLF, block-includes with long included files) judged against the texts.",
        note="Ranges are byte offsets; conversion to LSP positions is C09/C10. start <= end of folding/link ranges relies on the "
             "parser-shape fact 'no node starts with trivia' (proved for parser output).",
        tech="Lean 4 proof (tree lemma + invariant over the indexer + handler lemmas) + differential correspondence + range oracle on the implementation",
        ref="DESIGN.md §7 C17, §12.3"),
    "C18": dict(
        text="Lean theorems: folding_ranges_one_per_statement (the folding ranges of a file are exactly the trivia-trimmed ranges of "
             "its class/def/defset/foreach/if/let/multiclass nodes, in document order, one each), folding_range_spec (start = "
             "start of the node, end = end of its last non-trivia token), folding_ranges_nested_or_disjoint, "
             "document_symbols_exact / recordToDocumentSymbol_spec / outlineOf_defset / outlineOf_multiclass (the outline is "
             "exactly the file's symbol list filtered to classes, named defs, defsets and multiclasses, each with kind, name, "
             "range of the declaring identifier, and children: template arguments then fields; defs of a defset under the "
             "defset). Checks: model vs implementation; generator oracle with expected outline and folding ranges known by "
             "construction (nesting in foreach/if/let/defset/multiclass, optional parts present/absent, several files).",
        note="document_symbols_source_order: the top-level outline entries are pairwise ordered by range (end <= next start) for "
             "every workspace. Children (template arguments, fields) are in first-insertion order of an IndexMap, which is not "
             "source order when a name is re-declared (children_not_source_order_witness; C18's text only asks it of symbols, the "
             "oracle checks children of non-redeclaring programs). An empty node (e.g. the empty ParentClassList of `class A;`) cuts rowan's prev_token chain, the "
             "folding spec is stated on the model's own chain.",
        tech="Lean 4 proof (flat token theory of the annotated tree + handler specs) + differential correspondence + generator oracle",
        ref="DESIGN.md §7 C18, §12.7"),
    "C19": dict(
        text="Lean theorems: inlay_hints_inside_request + inlay_hints_complete (the answer for a range is exactly the hints of the "
             "file positioned inside it), positional_arg_hint / template_arg_hint (the k-th positional argument of a class or "
             "multiclass reference gets the k-th parameter name at the argument's first byte), inlayHintRecordField_spec (a field "
             "override gets ':type' at the end of the field name), hover_goto_agree / goto_hover_agree (hover shows the signature "
             "of exactly the symbol go-to-definition jumps to; via new_coherent, which also proves the array implementation of "
             "the position map equal to the specification), doc_comments_spec with docLines (the doc text is exactly the "
             "maximal alternation of [whitespace with one newline][// comment] before the declaration, leading slashes and "
             "blanks removed, in source order). Checks: model vs implementation; generator oracle for hover signature, doc text "
             "(10 comment layouts per declaration kind) and hints (full range, ranges around every hint position, random ranges).",
        note="End to end: inlay_hint_end_to_end (every hint of an answer is the parameter name / field type of the symbol registered at "
             "the reference it sits on, inside the requested range), hover_signature_of_declared_type(+_templateArg, _defvar): the "
             "type shown for a field / template argument / defvar is the one its declaration was indexed with (hypothesis: later "
             "indexing only appends to the arenas, ArenaKeep; discharged in the ..._built forms for fields, template parameters and body defvars of "
             "root-file classes and defs of every built workspace). Trailing comment of the previous code line directly above a declaration: either answer accepted (ambiguous in the "
             "property text).",
        tech="Lean 4 proof (handler specs, refinement of the fast position map to its specification) + differential correspondence + generator oracle",
        ref="DESIGN.md §7 C19, §12.7"),
    "C06": dict(
        text="Lean theorems on the SymbolMap model for ARBITRARY operation logs (so also for malformed programs): "
             "cursor_is_target_or_reference (unconditional), goto_from_references_agrees (under RefStable + DisjointLocs), "
             "same_text (under TextOk + NamedRefs + DisjointLocs). The real indexer's operation log (hook in symbol_map.rs) is "
             "replayed through the model and go-to-definition/find-references are compared at identifier offsets of every "
             "workspace; the log hypotheses are evaluated on every real log; the four coherence clauses are also evaluated "
             "directly on Analysis::goto_definition/references.",
        note="Model: SymbolMap.lean vs ide/src/symbol_map.rs; iset::IntervalMap semantics assumed as documented in the model. "
             "C06Index.lean discharges the log hypotheses for the log of the indexer MODEL on every workspace: index_refsValid, "
             "index_namedRefs, index_textOk, index_disjointLocs (invariant NamesOK through all indexer functions), giving "
             "index_cursor_is_target_or_reference and index_same_text unconditionally. C06RefStable.lean discharges the last one: "
             "index_noReuse (after a reference at a location nothing is registered there again: each file is indexed once, each "
             "node visited once, sibling ranges disjoint, identifier tokens non-empty - IdsNE, proved for parser output), hence "
             "built_refStable and built_goto_from_references_agrees / built_same_text with NO residual hypothesis for every "
             "workspace built from files (refStable_not_from_ready: for an arbitrary Ready workspace IdsNE is needed). The log "
             "hypotheses are still evaluated on every real log as well.",
        tech="Lean 4 proof (invariants over operation logs) + op-sequence correspondence by replaying the real log",
        ref="DESIGN.md §7 C06"),
    "C07": dict(
        text="Lean theorems on the model of the hand-maintained salsa inputs: history_independent (after any history of edits and "
             "root selections ending in a root selection, the observable inputs - file set, root, per-file content and include "
             "map - equal those of a freshly started host given only the final file system and root) and nothing_survives "
             "(set_root_file depends on the file system, the root and the root's text only). The same histories run on a real "
             "AnalysisHost: the full query set after the history is compared with a freshly started host (order-insensitive where "
             "hash containers are iterated), and file sets / include maps are compared with the model.",
        note="salsa memoisation/invalidation is trusted (exercised, not modelled). Model: Host.lean vs analysis.rs/file_system.rs/db.rs. "
             "C07Ide.lean bridges to the concrete analysis model: fresh_refines_buildWorkspace (the abstract host inputs computed "
             "with the concrete path/include resolution are exactly those from which Ide.buildWorkspace builds its workspace: same "
             "file set, root, contents, include maps) and history_independent_ide (after any history ending in an edit-and-select "
             "the inputs are those of buildWorkspace of the final file system and root, so every handler answer of the Ide model is "
             "history independent).",
        tech="Lean 4 proof (lock-step relational invariant over the collect_sources worklist) + history correspondence on a real AnalysisHost",
        ref="DESIGN.md §7 C07"),
    "C08": dict(
        text="Lean theorems on the synchronisation model (main loop vs any number of snapshot tasks over the vfs RwLock and salsa's "
             "write-waits-for-snapshots rule) for EVERY job list and EVERY schedule: no_deadlock (every reachable state is final or "
             "has an enabled step), every_step_progresses (a measure decreases with each step, so every schedule is finite and ends "
             "with all notifications processed and all requests answered), original_deadlocks (the pre-fix lock order has a "
             "reachable deadlock, explicit witness). Every maximal schedule of the model for small job lists (each request kind) is "
             "replayed on the real server with its threads paused at the hook's schedule points; blocked steps are probed; "
             "uncontrolled bursts are run.",
        note="Model granularity = hook schedule points; replay validates enabled steps and the per-request lock scripts (number of "
             "vfs reads); OS scheduler fairness, tokio blocking pool and salsa internals are assumed.",
        tech="Lean 4 proof (invariant + ranking function over a parametric transition system) + schedule replay on the real server",
        ref="DESIGN.md §7 C08"),
    "C09": dict(
        text="Lean theorems: server_locations_denote_all and the seven per-handler K_denotes theorems on the model of the conversion "
             "layer (see the note), and location_denotes: a byte span of the text of the document a response names, converted to LSP positions "
             "with that text's line table and read back against the same text, is the same span (composition of C10's round "
             "trip); wrong_text_differs is the witness behind the repaired defect. The check compares every range of every "
             "response kind (definition, references, documentSymbol, foldingRange, documentLink, inlayHint) and of the published "
             "diagnostics of the real server with the ide-level span converted against the named document by a reference mapper "
             "that is itself validated against the Lean LineIndex model on every text of the run.",
        note="TgModel/Lsp.lean models to_proto.rs and the choice of line table of every handler of server.rs; per handler "
             "definition_/references_/documentSymbol_/foldingRange_/documentLink_/inlayHint_/diagnostics_denotes (if the ide-level ranges "
             "are valid in the file they name, every position of the LSP answer read back against the text of the NAMED document gives "
             "the ide-level span; folding ranges send lines only: the lines of the two ends), and the composition with C17 and "
             "buildWorkspace_total: server_locations_denote_all (for every workspace built from files and all seven answer kinds of "
             "the handler models, no hypothesis). The model's conversions are compared with the reference mapper (and so with the "
             "server's JSON) on every answer of every run. URI encoding and the u32 line overflow panic are not modelled.",
        tech="Lean 4 proof (model of the LSP conversion layer composed with the C10 round trip and C17's range validity) + JSON-level correspondence on multi-file workspaces with differing line structure",
        ref="DESIGN.md §7 C09"),
    "C10": dict(
        text="Lean theorems for all texts: roundtrip (every char-boundary offset converts to a position and back), "
             "boundary_has_position (totality), line_contains, column_is_utf16, only LF/CR/CRLF break lines, clamp, "
             "offset_in_text. Model = single-pass scans mirroring the repaired LineIndex; tied to to_proto/from_proto::position "
             "by exhaustive correspondence over all strings <= 4 (quick) / <= 6 (thorough) of the property's 9-symbol alphabet "
             "and by an independent Python reference.",
        note="Model: LineIndex.lean vs ide/src/line_index.rs + lsp/src/{to_proto,from_proto}.rs. Clamp semantics fixed as "
             "documented in Props/C10.lean.",
        tech="Lean 4 proof (generalised scan-state induction) + exhaustive-small differential correspondence",
        ref="DESIGN.md §7 C10"),
    "C11": dict(
        text="Lean theorems on the session/publish model for every history of document opens/changes: converges (after the last "
             "update the client's view of each workspace file is the diagnostics of the final state; every other document has no "
             "entry or an empty one) and versions_monotone; diagnostics are an arbitrary function of the observable inputs. The "
             "notification streams of scripted sessions on the real server (until quiescence, detected through the hook's task "
             "counters) are compared with the model's final view and with the reference.",
        note="Model: Session.lean over Host.lean; updates are modelled as running to completion one after the other (justified by C08's "
             "wait-for-snapshots order). C11Ide.lean: converges_ide / converges_ide_diag (for sessions over a finite disk the diagnostics "
             "last published for each workspace file are those of the Ide model's diagnosticsExec on buildWorkspace (disk overlaid by "
             "buffers) (last touched document)), session_never_fails_ide, versions_monotone_ide.",
        tech="Lean 4 proof (invariants over session histories) + notification-stream correspondence on the real server",
        ref="DESIGN.md §7 C11"),
    "C12": dict(
        text="Lean theorems for every session: buffers_win (each workspace file is analysed with overlay(disk, editor buffers), also "
             "when reached only through an include), opened_uses_latest_buffer, unopened_uses_disk. Sessions over a root and two "
             "included files whose disk and editor texts differ are run on the real server over a temp directory; the text "
             "analysed for each workspace file is identified through its class name.",
        note="Model: Session.lean/Host.lean vs server.rs/vfs.rs/file_system.rs; std::fs assumed. C12Ide.lean: buffers_win_ide (every "
             "workspace file of the concrete model is the parse of the last text sent for its path, else the disk text), "
             "opened_uses_latest_buffer_ide, unopened_uses_disk_ide.",
        tech="Lean 4 proof (content-tracks-overlay invariant) + session correspondence on the real server",
        ref="DESIGN.md §7 C12"),
    "C14": dict(
        text="Lean theorem lex_conforms: for every list of well-formed spec-level tokens (LexSpec.lean, written from the TableGen "
             "Programmer's Reference: identifiers incl. digit-leading, keywords, decimal/hex/binary integers in range, strings with "
             "the five escapes, code fragments, variable names, bang operators, punctuation), each followed by a non-empty list of "
             "well-formed separators (blank runs, line comments, nested block comments), the lexer model yields exactly those "
             "tokens with those kinds and texts, no Error token, and the token texts tile the input; plus lex_reports_nothing, "
             "lex_conforms_layout (exact boundaries), lex_conforms_eof, sign_at_eof. Tied to lexer.rs by exhaustive correspondence "
             "over all strings <= 4 (quick) / <= 5 (thorough) of a 23-character focused alphabet and by an independent Python "
             "reference on class-sampled token sequences.",
        note="LexSpec.lean is a hand-written reading of the reference; four genuine lexer defects were repaired by fix: commits.",
        tech="Lean 4 proof (maximal-munch lemma per token class, induction over token/separator lists) + exhaustive-small correspondence",
        ref="DESIGN.md §7 C14"),
    "C15": dict(
        text="Lean theorem prep_selects: for every well-nested arrangement of #define/#ifdef/#ifndef/#else/#endif at any depth, "
             "the tokens the preprocessor model delivers to the parser are exactly those of the declarative reference evaluation "
             "(macro defined only by an earlier enabled #define), no preprocessor Error token, nothing from disabled regions "
             "(disabled_skips for any depth); missing_name_* theorems; eat_refine proves the concrete model Src.eat is the abstract "
             "machine over the lexer token stream. unterminated_reported: every unterminated arrangement (enabled or skipped, any "
             "depth) parses with 'reached EOF without matching #endif' at (len,len) as its last error; wellnested_no_eof_error; "
             "end_message_is_eof_message (the error the parser appends at the end is never a stale lexer message, for every "
             "input); skipped_lexical_errors_dropped; directive_error_drops_lexer_message (repaired in 59e1067). From TEXT (no lexing "
             "hypothesis): prep_selects_text, unterminated_reported_text, wellnested_no_eof_error_text for every rendered arrangement "
             "(directives on lines of their own, arbitrary well-formed LexSpec tokens, blanks, comments and an invalid string as "
             "payload; Lemmas/PrepRender.lean proves the lexer model splits the rendering into exactly that arrangement). Tied to preprocessor.rs by exhaustive correspondence over all directive sequences <= 4 (quick) / <= 7 "
             "(thorough) over two macro names and a marker, plus random nestings checked through the IDE layer.",
        note="Model: Prep.lean/PrepSpec.lean vs preprocessor.rs. The hypothesis-carrying theorems (absToks text = items.flatten) remain for "
             "arbitrary texts; for rendered arrangements the hypothesis is a theorem (Render.SItems.absToks_render).",
        tech="Lean 4 proof (mutual structural induction over item trees + refinement to the concrete model) + exhaustive-small correspondence",
        ref="DESIGN.md §7 C15"),
    "C16": dict(
        text="Lean theorems over every finite include graph (self-includes, cycles, diamonds, unresolvable includes): "
             "collect_terminates (the worklist of collect_sources terminates within collectFuel), collect_exact (file set = files "
             "reachable through resolvable includes), collect_nodup, link_iff_resolved, indexed_once / indexed_exact (the "
             "indexer's include descent visits exactly the reachable files, each once), unresolved_diagnosed. Tied to "
             "file_system.rs/index.rs by exhaustive correspondence over every edge set on <= 3 (quick) / <= 4 (thorough) files "
             "with missing targets and an INCLUDE_DIR variant, plus random larger graphs, through a real AnalysisHost.",
        note="Model: Include.lean; include path resolution is abstracted in the model (checked by the generator's reference "
             "resolution against the implementation). C16Ide.lean proves the clauses on the big indexer model too: fileSet_exact "
             "(the collected file set has no duplicates and is exactly the files reachable through resolved includes), "
             "indexed_files(_all) (indexed files: no duplicates, the root, a subset of the file set, closed under resolved top-level "
             "includes of every indexed file), unresolved_diagnosed_ide, collected_not_indexed (a collected file inside a block the "
             "indexer skips is not indexed: both inclusions can be strict).",
        tech="Lean 4 proof (BFS/DFS invariants over all finite graphs) + exhaustive-small differential correspondence",
        ref="DESIGN.md §7 C16"),
    "C20": dict(
        text="Lean theorems by `decide +kernel` over tables regenerated from completion.rs / lexer.rs / token_kind.rs / "
             "statement.rs / type.rs on every run: keywords_lex, types_lex, values_lex, statement_arms_match, "
             "bang_offered_accepted_partial and bang_accepted_offered_partial with the exact exception lists, the negations of "
             "the two full statements with concrete witnesses, and the unbounded bang_accepted_iff_key (the lexer accepts "
             "exactly its table keys). The translator is cross-validated against Analysis::completion and the real lexer; class "
             "completion (exact class set, one placeholder per template parameter) is proved on the handler model (C20Classes.lean) and "
             "compared on generated hierarchies with every kind of parameter default.",
        note="Known findings (8 words) pinned by snapshot tests. Class clause: Props/C20Classes.lean on the handler model - "
             "class_completions_exact (in a parent-class position the class items are exactly the entries of name_to_class, one "
             "each), class_item_snippet (name + `<${1}, ..., ${n}>` with one placeholder per template parameter, none when n = 0), "
             "class_item_label, redeclared_class_one_item (a re-declared class is one class: the later declaration); tied by "
             "comparing the completion answers of model and implementation on generated hierarchies.",
        tech="Lean 4 `decide +kernel` over translator-regenerated tables + lexer model; run-time cross-validation of the translator",
        ref="DESIGN.md §7 C20"),
}
ALL = ["C%02d" % i for i in range(1, 21)]
PENDING = "not yet claimed in this commit: machinery under construction (the technique applies; see DESIGN.md §7)"


def main():
    m = {
        "version": 1,
        "setup_cmd": "./setup.sh",
        "hooks": {"guard": "cargo feature `verif` (crates syntax/ide/lsp)",
                  "enable": "harness/Cargo.toml depends on /repo/crates/* by path; built with `cargo build --release --features verif`",
                  "baseline_off_cmd": "cd /repo && cargo test --workspace --no-fail-fast --offline",
                  "source_commits": json.load(open(os.path.join(ROOT, "tools", "hook_commits.json"))) if os.path.exists(os.path.join(ROOT, "tools", "hook_commits.json")) else [],
                  "add_only": True},
        "engines": [{"name": "lean-proof+correspondence", "path": "/verif/check", "serves_properties": sorted(CLAIMS),
                     "kind_free_text": "Lean 4 theorems on executable models (lean/TgModel), tied to /repo by a table translator "
                                       "(translator/extract.py) and a differential correspondence check (Rust harness tgverif vs "
                                       "native Lean driver tgdrive)"}],
        "checks": [],
        "not_applicable": [],
        "notes": "see DESIGN.md; known findings and fixed defects in known_findings.json",
    }
    for pid in ALL:
        if pid in CLAIMS:
            c = CLAIMS[pid]
            m["checks"].append({
                "property_id": pid, "quick_cmd": "./check %s --tier quick" % pid,
                "thorough_cmd": "./check %s --tier thorough" % pid,
                "evidence_file": "/verif/evidence/%s.json" % pid,
                "replay_cmd_template": "./check %s --replay {path}" % pid,
                "engine": "lean-proof+correspondence",
                "level_claimed": {"category": c.get("cat", "proof"), "text": c["text"], "design_ref": c["ref"]},
                "level_note": c["note"] + COMMON_NOTE, "technique": c["tech"]})
        else:
            m["not_applicable"].append({"property_id": pid, "reason": PENDING})
    with open(os.path.join(ROOT, "MANIFEST.json"), "w") as f:
        json.dump(m, f, indent=1)
    print("MANIFEST: %d checks, %d pending" % (len(m["checks"]), len(m["not_applicable"])))


if __name__ == "__main__":
    main()
