#!/bin/sh
# usage: confirm_dropin.sh <worktree> <crate> <demo-file>   (demo = integration test file dropped into crates/<crate>/tests/)
# confirms: suite passes with the change; demo fails with the change and passes without it. Leaves the tree with the change applied.
set -u
W=$1; C=$2; F=$3; T=$(basename "$F" .rs)
cd "$W" || exit 2
export CARGO_NET_OFFLINE=true
git diff -- crates > /tmp/confirm.$$.diff
echo "suite(with): $(cargo test --workspace --offline 2>&1 | grep '^test result' | awk '{p+=$4; f+=$6} END {print p" passed "f" failed"}')"
mkdir -p crates/$C/tests && cp "$F" crates/$C/tests/
echo "demo(with): $(cargo test -p $C --offline --test $T 2>&1 | grep '^test result' | head -1)"
git checkout -- crates
echo "demo(without): $(cargo test -p $C --offline --test $T 2>&1 | grep '^test result' | head -1)"
rm -f crates/$C/tests/$T.rs; rmdir crates/$C/tests 2>/dev/null
git apply /tmp/confirm.$$.diff && rm /tmp/confirm.$$.diff
git status --short | head -5
