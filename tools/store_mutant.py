#!/usr/bin/env python3
"""store_mutant.py <ID> <srcdir> <breaks-property> <needs> <ran> <detected-by>"""
import json, os, shutil, sys
mid, src, prop, needs, ran, detected = sys.argv[1:7]
dst = os.path.join("/verif/seeded", mid)
os.makedirs(dst, exist_ok=True)
shutil.copy(os.path.join(src, "patch.diff"), os.path.join(dst, "patch.diff"))
if os.path.isdir(os.path.join(dst, "demo")):
    shutil.rmtree(os.path.join(dst, "demo"))
shutil.copytree(os.path.join(src, "demo"), os.path.join(dst, "demo"), ignore=shutil.ignore_patterns("target", "Cargo.lock"))
base = os.popen("git -C %s rev-parse HEAD" % src).read().strip()
json.dump({"id": mid, "breaks_property": prop, "base_commit": base, "needs_to_manifest": needs, "what_i_ran": ran,
           "detected_by": detected}, open(os.path.join(dst, "meta.json"), "w"), indent=1)
print("stored", dst)
